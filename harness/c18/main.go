// C18 harness: drives tools/flow.Controller of the working tree with an
// instrumented Runner whose completions are released by the harness in a
// PRNG-chosen (or scripted, or exhaustively enumerated) order, and prints the
// observed event trace in the format the extracted Coq model prints.
//
// Case line   (input of the model):
//
//	FLOW <n> | i:deps:trig;... | D3 C3+ C2- X ...
//	CYC <n> | i:deps;...
//
// Result line (printed by the model from the case line, and by this harness
// from what tools/flow did):
//
//	U:0=R[],1=W[0] D0:[] C0+ U:0=T[],1=R[0] D1:[0] C1+ U:... END:ok RES:0,1 VAL:eq
//	cyc=0|1
package main

import (
	"context"
	"fmt"
	"os"
	"sort"
	"strconv"
	"strings"
	"sync"
	"sync/atomic"
	"time"

	"cuelang.org/go/cue"
	"cuelang.org/go/cue/cuecontext"
	"cuelang.org/go/cue/errors"
	"cuelang.org/go/cue/format"
	"cuelang.org/go/internal/verifharness/common"
	"cuelang.org/go/tools/flow"
)

// ---------------------------------------------------------------- spec ----

// How task i refers to a task j it depends on.
const (
	fRoot   = iota // d<j>: <ref j>                 reference to the task root (like $after)
	fOut           // d<j>: <ref j>.out              reference to an output field
	fNested        // d<j>: <ref j>.res.b.c          nested output field
	fAux           // a<i>x<j>: <ref j>.out (non-task field of root); d<j>: a<i>x<j>
	fInterp        // d<j>: "x-\(<ref j>.out)"       computed field
	fDeep          // cfg: deep: d<j>: <ref j>.out   nested field of the dependant
	fTop           // top-level (outside root) A<i>x<j>: root.<ref j>.out ; d<j>: A<i>x<j>
	fGroup         // dl<p>: {for k, x in mid<p> {(k): x.out}}  all late tasks spawned by p (and p itself)
	nForms
	// forms used only by the configuration-driven (FLOWX) workflows: their dependency sets are
	// DISCOVERED by the model (Flow/Discover.v), there is no generator ground truth for them
	fEncl    // e<k>: g<k>             reference to an enclosing struct that contains tasks
	fEnclMid // em<p>: mid<p>          reference to the struct that holds the late tasks of p
	fAux2    // c<i>x<j>: <ref j>.out; b<i>x<j>: c<i>x<j> (alias chain outside tasks); d<j>: b<i>x<j>
	fLateRef // dr<l>: mid<p>.t<l>.out reference into a task that does not exist yet
)

var formNames = []string{"root", "out", "nested", "aux", "interp", "deep", "top", "group", "", "encl", "enclmid", "aux2", "lateref"}

type edge struct {
	to   int
	form int
}

// dep is a ground-truth dependency: the reference to task `to` is visible to
// the dependency analysis from the start (act == -1) or once task act has
// completed (it is made through a field generated from act's output).
type dep struct{ to, act int }

type taskSpec struct {
	id    int
	edges []edge // rendered references (fGroup edge has to = trigger task p)
	deps  []dep  // ground truth: sorted set of (task, activation) this one depends on
	trig  int    // -1, or the task whose result makes this task appear
	group int    // -1, or k: task lives in root.g<k> (static tasks only)
	fills int    // the runner delivers its result in this many incremental Fill calls (1..3)
}

type wfSpec struct {
	kind  string
	tasks []taskSpec
}

func (w *wfSpec) ref(j int) string {
	t := &w.tasks[j]
	if t.trig >= 0 {
		return fmt.Sprintf("mid%d.t%d", t.trig, j)
	}
	if t.group >= 0 {
		return fmt.Sprintf("g%d.t%d", t.group, j)
	}
	return fmt.Sprintf("t%d", j)
}

func (w *wfSpec) path(j int) cue.Path {
	p := "root." + w.ref(j)
	return cue.ParsePath(p)
}

func (w *wfSpec) lateOf(p int) []int {
	var r []int
	for _, t := range w.tasks {
		if t.trig == p {
			r = append(r, t.id)
		}
	}
	return r
}

// body renders the struct literal of task i.
func (w *wfSpec) body(i int, ind string, auxRoot, auxTop *[]string) string {
	t := &w.tasks[i]
	var b strings.Builder
	b.WriteString("{\n")
	fmt.Fprintf(&b, "%s\t$id: \"v\"\n", ind)
	fmt.Fprintf(&b, "%s\tout: string\n", ind)
	fmt.Fprintf(&b, "%s\tres: b: c: string\n", ind)
	if len(w.lateOf(i)) > 0 {
		fmt.Fprintf(&b, "%s\tspawn: [...int]\n", ind)
	}
	for _, e := range t.edges {
		r := ""
		if e.form != fEncl && e.form != fEnclMid {
			r = w.ref(e.to)
		}
		switch e.form {
		case fRoot:
			fmt.Fprintf(&b, "%s\td%d: %s\n", ind, e.to, r)
		case fOut:
			fmt.Fprintf(&b, "%s\td%d: %s.out\n", ind, e.to, r)
		case fNested:
			fmt.Fprintf(&b, "%s\td%d: %s.res.b.c\n", ind, e.to, r)
		case fAux:
			*auxRoot = append(*auxRoot, fmt.Sprintf("a%dx%d: %s.out", i, e.to, r))
			fmt.Fprintf(&b, "%s\td%d: a%dx%d\n", ind, e.to, i, e.to)
		case fInterp:
			fmt.Fprintf(&b, "%s\td%d: \"x-\\(%s.out)\"\n", ind, e.to, r)
		case fDeep:
			fmt.Fprintf(&b, "%s\tcfg: deep: d%d: %s.out\n", ind, e.to, r)
		case fTop:
			*auxTop = append(*auxTop, fmt.Sprintf("A%dx%d: root.%s.out", i, e.to, r))
			fmt.Fprintf(&b, "%s\td%d: A%dx%d\n", ind, e.to, i, e.to)
		case fGroup:
			fmt.Fprintf(&b, "%s\tdl%d: {for k, x in mid%d {(k): x.out}}\n", ind, e.to, e.to)
		case fEncl:
			fmt.Fprintf(&b, "%s\te%d: g%d\n", ind, e.to, e.to)
		case fEnclMid:
			fmt.Fprintf(&b, "%s\tem%d: mid%d\n", ind, e.to, e.to)
		case fAux2:
			*auxRoot = append(*auxRoot, fmt.Sprintf("c%dx%d: %s.out", i, e.to, r))
			*auxRoot = append(*auxRoot, fmt.Sprintf("b%dx%d: c%dx%d", i, e.to, i, e.to))
			fmt.Fprintf(&b, "%s\tdb%d: b%dx%d\n", ind, e.to, i, e.to)
		case fLateRef:
			fmt.Fprintf(&b, "%s\tdr%d: %s.out\n", ind, e.to, r)
		}
	}
	fmt.Fprintf(&b, "%s}", ind)
	return b.String()
}

// render compiles the workflow to CUE text.
func (w *wfSpec) render() string {
	var auxRoot, auxTop []string
	var b strings.Builder
	b.WriteString("root: {\n")
	groups := map[int][]int{}
	var gkeys []int
	for _, t := range w.tasks {
		if t.trig >= 0 {
			continue
		}
		if t.group >= 0 {
			if _, ok := groups[t.group]; !ok {
				gkeys = append(gkeys, t.group)
			}
			groups[t.group] = append(groups[t.group], t.id)
			continue
		}
		fmt.Fprintf(&b, "\tt%d: %s\n", t.id, w.body(t.id, "\t", &auxRoot, &auxTop))
	}
	for _, g := range gkeys {
		fmt.Fprintf(&b, "\tg%d: {\n", g)
		for _, i := range groups[g] {
			fmt.Fprintf(&b, "\t\tt%d: %s\n", i, w.body(i, "\t\t", &auxRoot, &auxTop))
		}
		b.WriteString("\t}\n")
	}
	for _, t := range w.tasks {
		ls := w.lateOf(t.id)
		if len(ls) == 0 {
			continue
		}
		fmt.Fprintf(&b, "\tmid%d: {\n", t.id)
		for _, l := range ls {
			fmt.Fprintf(&b, "\t\tfor x in %s.spawn if x == %d {\n", w.ref(t.id), l)
			fmt.Fprintf(&b, "\t\t\tt%d: %s\n", l, w.body(l, "\t\t\t", &auxRoot, &auxTop))
			b.WriteString("\t\t}\n")
		}
		b.WriteString("\t}\n")
	}
	for _, a := range auxRoot {
		fmt.Fprintf(&b, "\t%s\n", a)
	}
	b.WriteString("}\n")
	for _, a := range auxTop {
		fmt.Fprintf(&b, "%s\n", a)
	}
	return b.String()
}

// result is what task i fills in when it completes successfully.
func (w *wfSpec) result(i int) map[string]any {
	r := "r" + strconv.Itoa(i)
	m := map[string]any{"out": r, "res": map[string]any{"b": map[string]any{"c": r}}}
	if ls := w.lateOf(i); len(ls) > 0 {
		m["spawn"] = ls
	}
	return m
}

// fillParts splits the result of task i into the pieces its runner passes to
// successive Task.Fill calls (the result is the unification of all of them):
// `out` first, then `res`, then `spawn`, merged down to w.tasks[i].fills calls.
func (w *wfSpec) fillParts(i int) []map[string]any {
	full := w.result(i)
	n := w.tasks[i].fills
	if n <= 1 {
		return []map[string]any{full}
	}
	parts := []map[string]any{{"out": full["out"]}, {"res": full["res"]}}
	if sp, ok := full["spawn"]; ok {
		parts = append(parts, map[string]any{"spawn": sp})
	}
	for len(parts) > n {
		// merge the last two pieces
		last := parts[len(parts)-1]
		for k, v := range last {
			parts[len(parts)-2][k] = v
		}
		parts = parts[:len(parts)-1]
	}
	return parts
}

// seenPath is where, inside the value of task i, the result of dependency j
// becomes visible (a concrete string containing "r<j>").
func (w *wfSpec) seenPaths(i int) map[int]string {
	m := map[int]string{}
	for _, e := range w.tasks[i].edges {
		if e.form > nForms {
			continue // configuration-only forms: nothing is looked up at dispatch
		}
		d := "d" + strconv.Itoa(e.to)
		switch e.form {
		case fRoot:
			m[e.to] = d + ".out"
		case fDeep:
			m[e.to] = "cfg.deep." + d
		case fGroup:
			// A task that waits for a group it (transitively) spawns itself can
			// never see the members of that group when it starts.
			if w.inTrigChain(i, e.to) {
				continue
			}
			for _, l := range w.lateOf(e.to) {
				m[l] = fmt.Sprintf("dl%d.t%d", e.to, l)
			}
		default:
			m[e.to] = d
		}
	}
	return m
}

// inTrigChain reports whether i == p or i is a (transitive) trigger of p.
func (w *wfSpec) inTrigChain(i, p int) bool {
	for k := 0; p >= 0 && k <= len(w.tasks); k++ {
		if p == i {
			return true
		}
		p = w.tasks[p].trig
	}
	return false
}

func (w *wfSpec) specString() string {
	parts := make([]string, len(w.tasks))
	for i, t := range w.tasks {
		ds := "-"
		if len(t.deps) > 0 {
			ss := make([]string, len(t.deps))
			for k, d := range t.deps {
				ss[k] = strconv.Itoa(d.to)
				if d.act >= 0 {
					ss[k] += "@" + strconv.Itoa(d.act)
				}
			}
			ds = strings.Join(ss, ",")
		}
		tr := "-"
		if t.trig >= 0 {
			tr = strconv.Itoa(t.trig)
		}
		parts[i] = fmt.Sprintf("%d:%s:%s", i, ds, tr)
	}
	return strings.Join(parts, ";")
}

// finish computes the ground-truth dependency sets from the rendered edges.
//
// Rules (validated against tools/flow on the unchanged tree):
//   - a plain edge to a static task j: (j, always);
//   - a plain edge to a late task l (same group): (l, once trig(l) completed);
//   - a group edge to p (comprehension over mid<p>): p itself, because mid<p> is
//     generated from p.spawn (and if p is late: its trigger, and so on, because
//     that reference goes through mid<trig p>); once p completed, every task l
//     spawned into mid<p> and every task referenced from the body of such an l:
//     the dependency analysis recurses through the non-task node mid<p>;
//   - a late task does NOT depend on its trigger merely because the comprehension
//     that generates it reads <trig>.spawn; it does not exist before.
//   - references to the task itself are ignored (addDep).
func (w *wfSpec) finish() {
	for i := range w.tasks {
		t := &w.tasks[i]
		set := map[dep]bool{}
		add := func(to int) {
			set[dep{to, w.tasks[to].trig}] = true
		}
		for _, e := range t.edges {
			if e.form == fGroup {
				// mid<p> is generated from <ref p>.spawn; if p is itself late that
				// reference goes through mid<trig p>, and so on up to a static task
				for q := e.to; q >= 0; q = w.tasks[q].trig {
					add(q)
				}
				for _, l := range w.lateOf(e.to) {
					set[dep{l, e.to}] = true
					for _, e2 := range w.tasks[l].edges {
						set[dep{e2.to, e.to}] = true
					}
				}
			} else {
				add(e.to)
			}
		}
		t.deps = t.deps[:0]
		for d := range set {
			if d.to == i {
				continue
			}
			if d.act >= 0 && set[dep{d.to, -1}] {
				continue
			}
			t.deps = append(t.deps, d)
		}
		sort.Slice(t.deps, func(a, b int) bool {
			if t.deps[a].to != t.deps[b].to {
				return t.deps[a].to < t.deps[b].to
			}
			return t.deps[a].act < t.deps[b].act
		})
	}
}

// ---------------------------------------------------------------- run ----

type action struct {
	cancel bool
	task   int
	ok     bool
	abort  bool // fail with flow.ErrAbort rather than an ordinary error
}

// A scheduler decides, at every point where the controller waits for a
// completion, what happens next.
type scheduler interface {
	next(running []int, step int) action
}

type event struct {
	kind string // "U", "D", "C", "X"
	text string
	task int
}

type runResult struct {
	labels  []string // D3 C3+ C2- X
	obs     []string // U:..., D3:[..], C3+, ...
	class   string
	results []int
	valEq   string
	detail  string
	seen    int // dependency results observed as visible at dispatch
}

type dispatchMsg struct {
	task int
	miss []int // observable dependencies whose result the task could not see
	seen int   // number of dependency results it could see
}

var errInjected = errors.New("injected failure")

// A step of the controller takes well under a millisecond; waiting this long
// for the next event means the controller is stuck (deadlock = VIOLATION).
const stepTimeout = 15 * time.Second

// number of runs that ended in a timeout; once a few have been seen the
// remaining jobs are skipped so that a deadlocking controller is reported quickly
var timeouts atomic.Int32

const maxTimeouts = 4

func stateLetter(s flow.State) string {
	switch s {
	case flow.Waiting:
		return "W"
	case flow.Ready:
		return "R"
	case flow.Running:
		return "r"
	case flow.Terminated:
		return "T"
	}
	return "?"
}

func taskID(p cue.Path) int {
	sels := p.Selectors()
	if len(sels) == 0 {
		return -1
	}
	s := sels[len(sels)-1].String()
	if len(s) < 2 || s[0] != 't' {
		return -1
	}
	n, err := strconv.Atoi(s[1:])
	if err != nil {
		return -1
	}
	return n
}

type snap struct {
	text    string
	ready   []int
	stopped bool // the controller cancelled its own context (c.errs != nil)
}

func joinInts(xs []int) string {
	ss := make([]string, len(xs))
	for i, x := range xs {
		ss[i] = strconv.Itoa(x)
	}
	return strings.Join(ss, ",")
}

func snapshot(c *flow.Controller) snap {
	type ent struct {
		id   int
		st   string
		deps []int
	}
	var es []ent
	var ready []int
	for _, t := range c.Tasks() {
		id := taskID(t.Path())
		var ds []int
		for _, d := range t.Dependencies() {
			ds = append(ds, taskID(d.Path()))
		}
		sort.Ints(ds)
		es = append(es, ent{id, stateLetter(t.State()), ds})
		if t.State() == flow.Ready {
			ready = append(ready, id)
		}
	}
	sort.Slice(es, func(i, j int) bool { return es[i].id < es[j].id })
	parts := make([]string, len(es))
	for i, e := range es {
		parts[i] = fmt.Sprintf("%d=%s[%s]", e.id, e.st, joinInts(e.deps))
	}
	sort.Ints(ready)
	return snap{"U:" + strings.Join(parts, ","), ready, false}
}

func canon(v cue.Value) string {
	n := v.Syntax(cue.Final(), cue.Docs(false), cue.Attributes(false), cue.Hidden(true), cue.Optional(true))
	b, err := format.Node(n)
	if err != nil {
		return "ERR:" + err.Error()
	}
	return string(b)
}

// runFlow runs one workflow under one schedule.
func runFlow(w *wfSpec, src string, sch scheduler) (res runResult) {
	ctx := cuecontext.New()
	v := ctx.CompileString(src)
	if err := v.Err(); err != nil {
		res.class = "compile-error"
		res.detail = err.Error()
		return
	}

	snapCh := make(chan snap, 4)
	dispCh := make(chan dispatchMsg, 64)
	var mu sync.Mutex
	release := map[int]chan action{}
	relChan := func(id int) chan action {
		mu.Lock()
		defer mu.Unlock()
		ch, ok := release[id]
		if !ok {
			ch = make(chan action, 1)
			release[id] = ch
		}
		return ch
	}

	taskFunc := func(v cue.Value) (flow.Runner, error) {
		if !v.LookupPath(cue.ParsePath("$id")).Exists() {
			return nil, nil
		}
		id := taskID(v.Path())
		if id < 0 || id >= len(w.tasks) {
			return nil, nil
		}
		return flow.RunnerFunc(func(t *flow.Task) error {
			// what the task can see of its dependencies' results when it starts
			var miss []int
			seen := 0
			tv := t.Value()
			for j, p := range w.seenPaths(id) {
				s, err := tv.LookupPath(cue.ParsePath(p)).String()
				if err == nil && strings.Contains(s, "r"+strconv.Itoa(j)) {
					seen++
				} else {
					miss = append(miss, j)
				}
			}
			sort.Ints(miss)
			dispCh <- dispatchMsg{id, miss, seen}
			a := <-relChan(id)
			if !a.ok {
				if a.abort {
					return flow.ErrAbort
				}
				return errInjected
			}
			for _, part := range w.fillParts(id) {
				if err := t.Fill(part); err != nil {
					return err
				}
			}
			return nil
		}), nil
	}

	cfg := &flow.Config{
		Root: cue.ParsePath("root"),
		UpdateFunc: func(c *flow.Controller, t *flow.Task) error {
			sn := snapshot(c)
			// initTasks cancels the controller's context when it found an error
			// (cyclic dependency); the harness itself cancels only at the very end.
			sn.stopped = t != nil && t.Context().Err() != nil
			snapCh <- sn
			return nil
		},
	}
	c := flow.New(cfg, v, taskFunc)

	cctx, cancel := context.WithCancel(context.Background())
	defer cancel()
	doneCh := make(chan error, 1)
	go func() { doneCh <- c.Run(cctx) }()

	running := map[int]bool{}
	var okDone []int
	cancelled := false
	failed := false
	var runErr error
	finished := false
	timeout := func(what string) {
		res.class = "timeout"
		res.detail = what
	}

	addDispatches := func(batch []dispatchMsg) {
		sort.Slice(batch, func(i, j int) bool { return batch[i].task < batch[j].task })
		for _, d := range batch {
			res.labels = append(res.labels, fmt.Sprintf("D%d", d.task))
			res.obs = append(res.obs, fmt.Sprintf("D%d:[%s]", d.task, joinInts(d.miss)))
			res.seen += d.seen
			running[d.task] = true
		}
	}

	step := 0
loop:
	for {
		// 1. wait for the controller's snapshot (UpdateFunc) or for Run to return
		var sn snap
		select {
		case sn = <-snapCh:
			res.obs = append(res.obs, sn.text)
		case runErr = <-doneCh:
			// Run returned; an update made just before the return may still be
			// queued (select picks among ready channels at random): it comes first.
			select {
			case sn = <-snapCh:
				res.obs = append(res.obs, sn.text)
				doneCh <- runErr
				goto haveSnap
			default:
			}
			finished = true
			break loop
		case <-time.After(stepTimeout):
			timeout("no update and no return")
			break loop
		}
	haveSnap:
		if sn.stopped {
			// the controller has an error: Run must return without starting anything
			select {
			case runErr = <-doneCh:
				finished = true
			case <-time.After(stepTimeout):
				timeout("controller cancelled itself but Run does not return")
			}
			break loop
		}
		// 2. every Ready task must be dispatched before anything else happens
		want := map[int]bool{}
		for _, r := range sn.ready {
			want[r] = true
		}
		var batch []dispatchMsg
		for len(want) > 0 {
			select {
			case d := <-dispCh:
				batch = append(batch, d)
				delete(want, d.task)
			case runErr = <-doneCh:
				finished = true
				addDispatches(batch)
				break loop
			case <-time.After(stepTimeout):
				addDispatches(batch)
				timeout("ready task not dispatched")
				break loop
			}
		}
		// pick up dispatches of tasks that were not Ready in the snapshot (the
		// model will reject them)
	drain:
		for {
			select {
			case d := <-dispCh:
				batch = append(batch, d)
			default:
				break drain
			}
		}
		addDispatches(batch)
		// 3. choose what completes next
		var rs []int
		for id := range running {
			rs = append(rs, id)
		}
		sort.Ints(rs)
		if len(rs) == 0 {
			// nothing runs: Run must return
			select {
			case runErr = <-doneCh:
				finished = true
			case sn := <-snapCh:
				res.obs = append(res.obs, sn.text)
				timeout("update without a running task")
			case <-time.After(stepTimeout):
				timeout("nothing running and Run does not return")
			}
			break loop
		}
		a := sch.next(rs, step)
		step++
		if a.cancel {
			cancelled = true
			res.labels = append(res.labels, "X")
			res.obs = append(res.obs, "X")
			cancel()
			select {
			case runErr = <-doneCh:
				finished = true
			case <-time.After(stepTimeout):
				timeout("Run does not return after cancel")
			}
			break loop
		}
		delete(running, a.task)
		if a.ok {
			okDone = append(okDone, a.task)
			res.labels = append(res.labels, fmt.Sprintf("C%d+", a.task))
			res.obs = append(res.obs, fmt.Sprintf("C%d+", a.task))
		} else {
			failed = true
			res.labels = append(res.labels, fmt.Sprintf("C%d-", a.task))
			res.obs = append(res.obs, fmt.Sprintf("C%d-", a.task))
		}
		relChan(a.task) <- a
	}

	// let any goroutine still waiting for a release go (it will block on the
	// controller's channel forever if the controller has returned; nothing we can do)
	for id := range running {
		relChan(id) <- action{task: id, ok: false}
	}
	// a dispatch after the end is an extra event the model must see
	time.Sleep(200 * time.Microsecond)
	var late []dispatchMsg
drain2:
	for {
		select {
		case d := <-dispCh:
			late = append(late, d)
		default:
			break drain2
		}
	}
	if len(late) > 0 {
		addDispatches(late)
	}

	res.results = okDone
	if res.class == "timeout" || !finished {
		if res.class == "" {
			res.class = "timeout"
		}
		res.valEq = "na"
		return
	}
	switch {
	case runErr == nil && cancelled:
		res.class = "cancel"
	case runErr == nil:
		res.class = "ok"
	case flow.VerifIsCycleError(runErr):
		res.class = "cycle"
	case failed:
		res.class = "fail"
	case strings.Contains(runErr.Error(), "deadlock"):
		res.class = "deadlock"
	default:
		res.class = "error"
		res.detail = runErr.Error()
	}
	// final configuration == initial & all results
	want := v
	for _, id := range okDone {
		want = want.FillPath(w.path(id), w.result(id))
	}
	got := c.Value()
	g, e := canon(got), canon(want)
	if g == e && !strings.HasPrefix(g, "ERR:") {
		res.valEq = "eq"
	} else {
		res.valEq = "neq"
		res.detail += "\nGOT:\n" + g + "\nWANT:\n" + e
	}
	return
}

func (r *runResult) implLine() string {
	return strings.Join(r.obs, " ") + " END:" + r.class + " RES:" + joinInts(r.results) + " VAL:" + r.valEq
}

// ---------------------------------------------------------------- schedulers ----

type randomSched struct {
	r        *common.Rng
	failTask int // task that fails when chosen (-1: none)
	abort    bool
	cancelAt int // select point at which the context is cancelled (-1: never)
}

func (s *randomSched) next(running []int, step int) action {
	if step == s.cancelAt {
		return action{cancel: true}
	}
	t := running[s.r.Intn(len(running))]
	if t == s.failTask {
		return action{task: t, ok: false, abort: s.abort}
	}
	return action{task: t, ok: true}
}

type scriptSched struct {
	acts []action
	fall scheduler
}

func (s *scriptSched) next(running []int, step int) action {
	if step < len(s.acts) {
		a := s.acts[step]
		if a.cancel {
			return a
		}
		for _, r := range running {
			if r == a.task {
				return a
			}
		}
		// scripted task is not running: fall back to the first running task
		return action{task: running[0], ok: true}
	}
	if s.fall != nil {
		return s.fall.next(running, step)
	}
	return action{task: running[0], ok: true}
}

// odometer enumerates every choice sequence (index into the sorted running set).
type odoSched struct {
	prefix []int
	arity  []int
	failT  int
}

func (s *odoSched) next(running []int, step int) action {
	k := 0
	if step < len(s.prefix) {
		k = s.prefix[step]
	}
	if k >= len(running) {
		k = len(running) - 1
	}
	for len(s.arity) <= step {
		s.arity = append(s.arity, 0)
	}
	s.arity[step] = len(running)
	t := running[k]
	return action{task: t, ok: t != s.failT}
}

// ---------------------------------------------------------------- generators ----

func pickForm(r *common.Rng, noRoot bool) int {
	for {
		f := r.Intn(fGroup) // fRoot..fTop
		if noRoot && f == fRoot {
			continue
		}
		return f
	}
}

func newWF(kind string, n int) *wfSpec {
	w := &wfSpec{kind: kind}
	for i := 0; i < n; i++ {
		w.tasks = append(w.tasks, taskSpec{id: i, trig: -1, group: -1})
	}
	return w
}

func (w *wfSpec) addEdge(r *common.Rng, from, to int, noRoot bool) {
	for _, e := range w.tasks[from].edges {
		if e.to == to && e.form != fGroup {
			return
		}
	}
	w.tasks[from].edges = append(w.tasks[from].edges, edge{to, pickForm(r, noRoot)})
}

func (w *wfSpec) randomGroups(r *common.Rng) {
	if !r.Chance(1, 3) {
		return
	}
	for i := range w.tasks {
		if w.tasks[i].trig < 0 && r.Chance(1, 3) {
			w.tasks[i].group = r.Intn(2)
		}
	}
}

func genWF(r *common.Rng, kind string) *wfSpec {
	var w *wfSpec
	switch kind {
	case "chain":
		n := 2 + r.Intn(7)
		w = newWF(kind, n)
		for i := 1; i < n; i++ {
			w.addEdge(r, i, i-1, false)
		}
	case "diamond":
		// 0 <- {1..k} <- k+1  (possibly stacked twice)
		k := 2 + r.Intn(3)
		w = newWF(kind, k+2)
		for i := 1; i <= k; i++ {
			w.addEdge(r, i, 0, false)
			w.addEdge(r, k+1, i, false)
		}
		if r.Bool() && k+2 <= 7 {
			base := len(w.tasks)
			for i := 0; i < 3; i++ {
				w.tasks = append(w.tasks, taskSpec{id: base + i, trig: -1, group: -1})
			}
			w.addEdge(r, base, k+1, false)
			w.addEdge(r, base+1, k+1, false)
			w.addEdge(r, base+2, base, false)
			w.addEdge(r, base+2, base+1, false)
		}
	case "fanin":
		n := 3 + r.Intn(7)
		w = newWF(kind, n)
		for i := 0; i < n-1; i++ {
			w.addEdge(r, n-1, i, false)
		}
	case "fanout":
		n := 3 + r.Intn(7)
		w = newWF(kind, n)
		for i := 1; i < n; i++ {
			w.addEdge(r, i, 0, false)
		}
	case "random":
		n := 2 + r.Intn(9)
		w = newWF(kind, n)
		den := 2 + r.Intn(4)
		for i := 1; i < n; i++ {
			for j := 0; j < i; j++ {
				if r.Chance(1, den) {
					w.addEdge(r, i, j, false)
				}
			}
		}
	case "late", "latecyclic":
		// static part: random DAG over 0..ns-1; late tasks ns..n-1 spawned by static or late tasks
		ns := 2 + r.Intn(4)
		nl := 1 + r.Intn(4)
		n := ns + nl
		w = newWF(kind, n)
		for i := 1; i < ns; i++ {
			for j := 0; j < i; j++ {
				if r.Chance(1, 3) {
					w.addEdge(r, i, j, false)
				}
			}
		}
		for l := ns; l < n; l++ {
			// trigger: an earlier task (static, or an earlier late task)
			p := r.Intn(l)
			if p >= ns && r.Bool() {
				p = r.Intn(ns)
			}
			w.tasks[l].trig = p
		}
		for l := ns; l < n; l++ {
			// late tasks refer to static tasks and to earlier late tasks of the same group
			for j := 0; j < l; j++ {
				if j < ns && r.Chance(1, 4) {
					w.addEdge(r, l, j, true)
				} else if j >= ns && w.tasks[j].trig == w.tasks[l].trig && r.Chance(1, 2) {
					w.addEdge(r, l, j, true)
				}
			}
		}
		// static tasks that wait for a whole group of late tasks
		for i := 0; i < ns; i++ {
			for p := 0; p < n; p++ {
				if len(w.lateOf(p)) == 0 || !r.Chance(1, 3) {
					continue
				}
				// acyclic only if i is not (transitively) needed by p or by the late tasks of p;
				// decided after finish() below
				w.tasks[i].edges = append(w.tasks[i].edges, edge{p, fGroup})
			}
		}
		w.finish()
		if kind == "late" {
			// drop group edges that close a cycle
			for i := 0; i < ns; i++ {
				var kept []edge
				for _, e := range w.tasks[i].edges {
					w.tasks[i].edges = append(append([]edge{}, kept...), e)
					w.finish()
					if e.form != fGroup || !w.cyclic() {
						kept = append(kept, e)
					}
				}
				w.tasks[i].edges = kept
				w.finish()
			}
		} else {
			// make sure there is a cycle that only closes once a late task exists
			l := ns + r.Intn(nl)
			p := w.tasks[l].trig
			q := r.Intn(ns)
			w.tasks[q].edges = append(w.tasks[q].edges, edge{p, fGroup})
			w.addEdge(r, l, q, true)
		}
	case "cyclic":
		n := 2 + r.Intn(8)
		w = newWF(kind, n)
		den := 2 + r.Intn(4)
		for i := 1; i < n; i++ {
			for j := 0; j < i; j++ {
				if r.Chance(1, den) {
					w.addEdge(r, i, j, true)
				}
			}
		}
		// back edges
		nb := 1 + r.Intn(2)
		for k := 0; k < nb; k++ {
			i := r.Intn(n)
			j := i + r.Intn(n-i)
			if i == j {
				if i+1 < n {
					j = i + 1
				} else {
					i = j - 1
				}
			}
			w.addEdge(r, i, j, true)
		}
	}
	if kind != "late" && kind != "latecyclic" {
		w.randomGroups(r)
	}
	// how many Fill calls each runner uses to deliver its result
	for i := range w.tasks {
		w.tasks[i].fills = 1
		if r.Chance(1, 2) {
			w.tasks[i].fills = 2 + r.Intn(2)
		}
	}
	w.finish()
	return w
}

// cyclic reports whether the ground-truth graph has a cycle.
func (w *wfSpec) cyclic() bool {
	n := len(w.tasks)
	color := make([]int, n)
	var dfs func(i int) bool
	dfs = func(i int) bool {
		color[i] = 1
		for _, dd := range w.tasks[i].deps {
			d := dd.to
			if color[d] == 1 || (color[d] == 0 && dfs(d)) {
				return true
			}
		}
		color[i] = 2
		return false
	}
	for i := 0; i < n; i++ {
		if color[i] == 0 && dfs(i) {
			return true
		}
	}
	return false
}

// ---------------------------------------------------------------- main ----

type job struct {
	w     *wfSpec
	src   string
	sch   scheduler
	extra string
}

type jobOut struct {
	caseLine, implLine string
	res                runResult
	kind               string
}

func runJobs(jobs []job, par int) []jobOut {
	outs := make([]jobOut, len(jobs))
	var wg sync.WaitGroup
	sem := make(chan struct{}, par)
	for i := range jobs {
		wg.Add(1)
		sem <- struct{}{}
		go func(i int) {
			defer wg.Done()
			defer func() { <-sem }()
			j := jobs[i]
			if timeouts.Load() >= maxTimeouts {
				outs[i] = jobOut{caseLine: "SKIP", implLine: "skipped", kind: j.w.kind}
				return
			}
			res := runFlow(j.w, j.src, j.sch)
			if res.class == "timeout" {
				// A deadlock is a property of (workflow, completion order): it must
				// reproduce when the same order is replayed.  (Guards against a
				// starved machine being mistaken for a deadlock.)
				again := runFlow(j.w, j.src, &scriptSched{acts: parseScript(strings.Join(res.labels, " "))})
				if again.class == "timeout" {
					timeouts.Add(1)
				}
				res = again
			}
			outs[i] = jobOut{
				caseLine: fmt.Sprintf("FLOW %d | %s | %s", len(j.w.tasks), j.w.specString(), strings.Join(res.labels, " ")),
				implLine: res.implLine(),
				res:      res,
				kind:     j.w.kind,
			}
		}(i)
	}
	wg.Wait()
	return outs
}

func genCyc(r *common.Rng, out *common.Out) {
	n := r.Intn(9)
	if r.Chance(1, 10) {
		n = 9 + r.Intn(6)
	}
	deps := make([][]int, n)
	mode := r.Intn(4)
	for i := 0; i < n; i++ {
		for j := 0; j < n; j++ {
			var p bool
			switch mode {
			case 0: // DAG (forward edges only)
				p = j < i && r.Chance(1, 3)
			case 1: // DAG plus rare back/self edges
				p = (j < i && r.Chance(1, 3)) || (j >= i && r.Chance(1, 5*n))
			case 2: // sparse random
				p = r.Chance(1, n+1)
			default: // denser random
				p = r.Chance(1, 4)
			}
			if p {
				deps[i] = append(deps[i], j)
			}
		}
		if r.Chance(1, 6) {
			common.Shuffle(r, deps[i])
		}
		if len(deps[i]) > 0 && r.Chance(1, 10) {
			deps[i] = append(deps[i], deps[i][0]) // duplicate
		}
	}
	if mode == 0 && n > 9 {
		// keep the exponential DFS of checkCycle small on larger DAGs
		for i := range deps {
			if len(deps[i]) > 2 {
				deps[i] = deps[i][:2]
			}
		}
	}
	parts := make([]string, n)
	for i := range deps {
		parts[i] = fmt.Sprintf("%d:%s", i, joinInts(deps[i]))
	}
	got := flow.VerifCheckCycle(deps)
	b := 0
	if got {
		b = 1
	}
	out.Emit(fmt.Sprintf("CYC %d | %s", n, strings.Join(parts, ";")), fmt.Sprintf("cyc=%d", b))
}

var kinds = []string{"chain", "diamond", "fanin", "fanout", "random", "random", "late", "late", "cyclic", "latecyclic"}

// hypotheses of the Coq theorems, computed independently of the model
func (w *wfSpec) flags() string {
	n := len(w.tasks)
	known, trig, closed := 1, 1, 1
	for i, t := range w.tasks {
		if t.trig >= i {
			trig = 0
		}
		// grounded activations of task i (fixpoint)
		g := map[int]bool{-1: true}
		for changed := true; changed; {
			changed = false
			for _, d := range t.deps {
				if d.to != i && g[d.act] && !g[d.to] {
					g[d.to] = true
					changed = true
				}
			}
		}
		for _, d := range t.deps {
			if d.to >= n || !(w.tasks[d.to].trig == -1 || w.tasks[d.to].trig == d.act) {
				known = 0
			}
			if !g[d.act] {
				closed = 0
			}
		}
	}
	acyc := 1
	if w.cyclic() {
		acyc = 0
	}
	return fmt.Sprintf("known=%d trig=%d closed=%d acyclic=%d", known, trig, closed, acyc)
}

func parseScript(labels string) []action {
	var acts []action
	for _, tok := range strings.Fields(labels) {
		switch {
		case tok == "X":
			acts = append(acts, action{cancel: true})
		case tok[0] == 'C':
			id, _ := strconv.Atoi(tok[1 : len(tok)-1])
			acts = append(acts, action{task: id, ok: tok[len(tok)-1] == '+'})
		}
	}
	return acts
}

func runCycLine(line string, out *common.Out) {
	parts := strings.Split(line, "|")
	n, _ := strconv.Atoi(strings.Fields(parts[0])[1])
	deps := make([][]int, n)
	for _, ent := range strings.Split(parts[1], ";") {
		ent = strings.TrimSpace(ent)
		if ent == "" {
			continue
		}
		kv := strings.SplitN(ent, ":", 2)
		i, _ := strconv.Atoi(kv[0])
		for _, d := range strings.Split(kv[1], ",") {
			if d != "" {
				x, _ := strconv.Atoi(d)
				deps[i] = append(deps[i], x)
			}
		}
	}
	b := 0
	if flow.VerifCheckCycle(deps) {
		b = 1
	}
	out.Emit(strings.TrimSpace(line), fmt.Sprintf("cyc=%d", b))
}

func main() {
	args := common.Args(os.Args[1:])
	seed := uint64(common.Atoi(args["--seed"], 1))
	outDir := args["--out"]
	if outDir == "" {
		outDir = "."
	}
	nflow := common.Atoi(args["--nflow"], 300)
	reps := common.Atoi(args["--reps"], 3)
	ncyc := common.Atoi(args["--ncyc"], 2000)
	par := common.Atoi(args["--par"], 12)
	exh := common.Atoi(args["--exhaustive"], 0)
	maxOrders := common.Atoi(args["--max-orders"], 1000)
	only := common.Atoi(args["--only"], -1)
	r := common.NewRng(seed)
	out := common.NewOut(outDir)
	defer out.Close()

	if f := args["--show"]; f != "" {
		w := genWF(r, f)
		fmt.Println(w.render())
		fmt.Println(w.specString(), w.flags())
		res := runFlow(w, w.render(), &randomSched{r: r.Fork(), failTask: -1, cancelAt: -1})
		fmt.Println(strings.Join(res.labels, " "))
		fmt.Println(res.implLine())
		fmt.Println(res.detail)
		return
	}
	if f := args["--probe"]; f != "" {
		probeCue(f)
		return
	}
	if line := args["--cyc-line"]; line != "" {
		runCycLine(line, out)
		return
	}

	stats := map[string]int{}
	var jobs []job
	var wfs []*wfSpec
	for i := 0; i < nflow; i++ {
		kind := kinds[i%len(kinds)]
		w := genWF(r, kind)
		wfs = append(wfs, w)
		src := w.render()
		for k := 0; k < reps; k++ {
			s := &randomSched{r: r.Fork(), failTask: -1, cancelAt: -1}
			what := "sched_all_ok"
			switch {
			case k == 0:
			case r.Chance(1, 3):
				s.failTask = r.Intn(len(w.tasks))
				s.abort = r.Chance(1, 4)
				what = "sched_one_failure"
				if s.abort {
					what = "sched_one_abort"
				}
			case r.Chance(1, 6):
				s.cancelAt = r.Intn(len(w.tasks))
				what = "sched_cancel"
			}
			jobs = append(jobs, job{w: w, src: src, sch: s, extra: what})
		}
	}

	// configuration-driven workflows: their own PRNG stream, so that one of them can be
	// regenerated (--only-x) without the jobs above
	const xreps = 2
	rx := common.NewRng(seed*0x9e3779b97f4a7c15 + 0xc18)
	var xjobs []job
	for i := 0; i < nflow/4; i++ {
		w := genXWF(rx)
		src := w.render()
		for k := 0; k < xreps; k++ {
			s := &randomSched{r: rx.Fork(), failTask: -1, cancelAt: -1}
			if k > 0 && rx.Chance(1, 4) {
				s.failTask = rx.Intn(len(w.tasks))
			}
			xjobs = append(xjobs, job{w: w, src: src, sch: s, extra: "x"})
		}
	}
	if onlyX := common.Atoi(args["--only-x"], -1); onlyX >= 0 {
		if onlyX >= len(xjobs) {
			fmt.Fprintln(os.Stderr, "no such x job")
			os.Exit(2)
		}
		j := xjobs[onlyX]
		j.sch = &scriptSched{acts: parseScript(args["--script"])}
		o := runJobs([]job{j}, 1)[0]
		out.Emit(xCaseLine(j.w, o), o.implLine)
		fmt.Fprintln(os.Stderr, j.src)
		fmt.Fprintln(os.Stderr, o.res.detail)
		return
	}

	if only >= 0 {
		// replay of one generated (workflow, schedule) pair with a scripted schedule
		if only >= len(jobs) {
			fmt.Fprintln(os.Stderr, "no such job")
			os.Exit(2)
		}
		j := jobs[only]
		j.sch = &scriptSched{acts: parseScript(args["--script"])}
		o := runJobs([]job{j}, 1)[0]
		out.Emit(o.caseLine, o.implLine)
		fmt.Fprintln(os.Stderr, j.src)
		fmt.Fprintln(os.Stderr, o.res.detail)
		return
	}

	cue, _ := os.Create(outDir + "/cue.txt")
	defer cue.Close()
	detail, _ := os.Create(outDir + "/detail.txt")
	defer detail.Close()

	outs := runJobs(jobs, par)
	for i, o := range outs {
		fmt.Fprintf(cue, "%d\t%s\n", out.N, strings.ReplaceAll(jobs[i].src, "\n", "\\n"))
		out.Emit(o.caseLine, o.implLine)
		stats["kind_"+o.kind]++
		stats[jobs[i].extra]++
		stats["dep_results_seen_at_dispatch"] += o.res.seen
		if o.res.detail != "" {
			fmt.Fprintf(detail, "job %d kind=%s\n%s\n%s\n--\n", i, o.kind, jobs[i].src, o.res.detail)
		}
	}
	for _, w := range wfs {
		fl := w.flags()
		out.Emit(fmt.Sprintf("WFQ %d | %s", len(w.tasks), w.specString()), fl)
		for _, kv := range strings.Fields(fl) {
			if strings.HasSuffix(kv, "=1") {
				stats["wf_"+strings.TrimSuffix(kv, "=1")]++
			}
		}
		if !strings.Contains(fl, "=0") {
			stats["wf_all_hypotheses"]++
		}
		for _, t := range w.tasks {
			for _, e := range t.edges {
				stats["form_"+formNames[e.form]]++
			}
			if t.trig >= 0 {
				stats["late_tasks"]++
			}
			stats[fmt.Sprintf("tasks_with_%d_fills", len(w.fillParts(t.id)))]++
		}
	}

	// every completion order of small acyclic workflows
	if exh > 0 {
		type exhOut struct {
			outs []jobOut
			srcs string
		}
		small := make([]*wfSpec, 0, exh)
		for len(small) < exh {
			kind := kinds[r.Intn(8)] // acyclic kinds
			w := genWF(r, kind)
			if len(w.tasks) <= 6 && !w.cyclic() {
				small = append(small, w)
			}
		}
		results := make([]exhOut, len(small))
		var wg sync.WaitGroup
		sem := make(chan struct{}, par)
		for i, w := range small {
			wg.Add(1)
			sem <- struct{}{}
			go func(i int, w *wfSpec) {
				defer wg.Done()
				defer func() { <-sem }()
				src := w.render()
				var prefix []int
				for n := 0; n < maxOrders && timeouts.Load() < maxTimeouts; n++ {
					sch := &odoSched{prefix: prefix, failT: -1}
					res := runFlow(w, src, sch)
					if res.class == "timeout" {
						sch = &odoSched{prefix: prefix, failT: -1}
						res = runFlow(w, src, sch)
						if res.class == "timeout" {
							timeouts.Add(1)
						}
					}
					results[i].outs = append(results[i].outs, jobOut{
						caseLine: fmt.Sprintf("FLOW %d | %s | %s", len(w.tasks), w.specString(), strings.Join(res.labels, " ")),
						implLine: res.implLine(), res: res, kind: w.kind})
					// next choice sequence
					ar := sch.arity
					cur := make([]int, len(ar))
					copy(cur, prefix)
					k := len(ar) - 1
					for k >= 0 && cur[k]+1 >= ar[k] {
						k--
					}
					if k < 0 {
						break
					}
					cur[k]++
					prefix = cur[:k+1]
				}
				results[i].srcs = src
			}(i, w)
		}
		wg.Wait()
		for _, ro := range results {
			for _, o := range ro.outs {
				fmt.Fprintf(cue, "%d\t%s\n", out.N, strings.ReplaceAll(ro.srcs, "\n", "\\n"))
				out.Emit(o.caseLine, o.implLine)
				stats["exhaustive_orders"]++
				stats["dep_results_seen_at_dispatch"] += o.res.seen
			}
			stats["exhaustive_workflows"]++
		}
	}

	for i := 0; i < ncyc; i++ {
		genCyc(r, out)
	}

	// ---- configuration-driven cases (dependency DISCOVERY by the model, Flow/Discover.v)
	// FLOWC: every second random job above once more, the model now gets the task-graph
	// configuration instead of the generator's ground-truth dependency graph.
	for i := 0; i < len(outs); i += 2 {
		o := outs[i]
		if !strings.HasPrefix(o.caseLine, "FLOW ") {
			continue
		}
		labels := o.caseLine[strings.LastIndex(o.caseLine, "|")+1:]
		fmt.Fprintf(cue, "%d\t%s\n", out.N, strings.ReplaceAll(jobs[i].src, "\n", "\\n"))
		out.Emit(fmt.Sprintf("FLOWC %d | %s |%s", len(jobs[i].w.tasks), jobs[i].w.config(), labels), o.implLine)
		stats["flowc_cases"]++
	}
	// FLOWX: workflows with reference forms that have no generator ground truth at all.
	xouts := runJobs(xjobs, par)
	for i, o := range xouts {
		fmt.Fprintf(cue, "%d\t%s\n", out.N, strings.ReplaceAll(xjobs[i].src, "\n", "\\n"))
		out.Emit(xCaseLine(xjobs[i].w, o), o.implLine)
		stats["flowx_cases"]++
		stats["flowx_kind_"+o.kind]++
		if k := i % xreps; k == 0 {
			for _, t := range xjobs[i].w.tasks {
				for _, e := range t.edges {
					if e.form > nForms {
						stats["xform_"+formNames[e.form]]++
					}
				}
			}
		}
		if o.res.detail != "" {
			fmt.Fprintf(detail, "xjob %d kind=%s\n%s\n%s\n--\n", i, o.kind, xjobs[i].src, o.res.detail)
		}
	}
	sf, _ := os.Create(outDir + "/stats.json")
	keys := make([]string, 0, len(stats))
	for k := range stats {
		keys = append(keys, k)
	}
	sort.Strings(keys)
	fmt.Fprint(sf, "{")
	for i, k := range keys {
		if i > 0 {
			fmt.Fprint(sf, ",")
		}
		fmt.Fprintf(sf, "%q:%d", k, stats[k])
	}
	fmt.Fprintln(sf, "}")
	sf.Close()
}
