package main

// --probe <file.cue>: run tools/flow on a hand-written configuration (root "root",
// tasks = structs with a $id field, named t<N>) and print the task list and
// Task.Dependencies() after New and after every controller update.  Runners complete at
// once, filling out/res (and spawn := the task's static $spawn list, if it has one).
// Used to validate the dependency-discovery model (Flow/Discover.v) by hand.

import (
	"context"
	"fmt"
	"os"

	"cuelang.org/go/cue"
	"cuelang.org/go/cue/cuecontext"
	"cuelang.org/go/tools/flow"
)

func probeCue(file string) {
	src, err := os.ReadFile(file)
	if err != nil {
		fmt.Println("ERR", err)
		return
	}
	ctx := cuecontext.New()
	v := ctx.CompileString(string(src))
	if err := v.Err(); err != nil {
		fmt.Println("COMPILE-ERR", err)
		return
	}
	taskFunc := func(v cue.Value) (flow.Runner, error) {
		if !v.LookupPath(cue.ParsePath("$id")).Exists() {
			return nil, nil
		}
		id := taskID(v.Path())
		return flow.RunnerFunc(func(t *flow.Task) error {
			r := fmt.Sprintf("r%d", id)
			m := map[string]any{"out": r, "res": map[string]any{"b": map[string]any{"c": r}}}
			if sp := t.Value().LookupPath(cue.ParsePath("$spawn")); sp.Exists() {
				var l []int
				if err := sp.Decode(&l); err == nil {
					m["spawn"] = l
				}
			}
			return t.Fill(m)
		}), nil
	}
	cfg := &flow.Config{
		Root: cue.ParsePath("root"),
		UpdateFunc: func(c *flow.Controller, t *flow.Task) error {
			who := "-"
			if t != nil {
				who = fmt.Sprintf("%d:%s", taskID(t.Path()), stateLetter(t.State()))
			}
			fmt.Println(who, snapshot(c).text)
			return nil
		},
	}
	c := flow.New(cfg, v, taskFunc)
	fmt.Println("NEW", snapshot(c).text)
	err = c.Run(context.Background())
	fmt.Println("END", err)
}
