// C11 harness: YAML encode/decode round trips of the working tree.
package main

import (
	"fmt"
	"os"
	"runtime"
	"sort"
	"strings"
	"sync"
	"sync/atomic"

	"cuelang.org/go/cue"
	"cuelang.org/go/cue/cuecontext"
	"cuelang.org/go/encoding/yaml"
	"cuelang.org/go/internal/cueexperiment"
	"cuelang.org/go/internal/verifharness/common"
)

// roundTrip encodes t as YAML and decodes it again; returns the YAML text and
// the canonical projection of what came back (or ENCERR / DECERR / PANIC).
func roundTrip(ctx *cue.Context, v cue.Value) (text string, back string) {
	defer func() {
		if r := recover(); r != nil {
			back = fmt.Sprintf("PANIC")
		}
	}()
	b, err := yaml.Encode(v)
	if err != nil {
		return "", "ENCERR"
	}
	f, err := yaml.Extract("x.yaml", b)
	if err != nil {
		return string(b), "DECERR"
	}
	w := ctx.BuildFile(f)
	return string(b), canon(w)
}

func explore(args map[string]string) {
	ctx := cuecontext.New()
	seed := uint64(common.Atoi(args["--seed"], 1))
	n := common.Atoi(args["--n"], 1000)
	r := common.NewRng(seed)
	dist := map[string]int{}
	fails := 0
	for i := 0; i < n; i++ {
		var t *T
		if r.Chance(1, 2) {
			s, _ := genString(r)
			switch r.Intn(4) {
			case 0:
				t = str(s)
			case 1:
				t = &T{K: 'M', Keys: []string{"k"}, Kids: []*T{str(s)}}
			case 2:
				t = &T{K: 'M', Keys: []string{s}, Kids: []*T{{K: 'i', S: "1"}}}
			default:
				t = &T{K: 'L', Kids: []*T{str(s)}}
			}
		} else {
			t = genTree(r, 3, dist)
		}
		v := ctx.BuildExpr(t.expr())
		want := canon(v)
		text, back := roundTrip(ctx, v)
		if back != want {
			fails++
			fmt.Printf("FAIL %s\n  text=%q\n  want=%s\n  back=%s\n", t.expr2(), text, want, back)
		}
	}
	fmt.Printf("n=%d fails=%d\n", n, fails)
	var ks []string
	for k := range dist {
		ks = append(ks, k)
	}
	sort.Strings(ks)
	for _, k := range ks {
		fmt.Printf("  %s=%d\n", k, dist[k])
	}
}

func (t *T) expr2() string {
	switch t.K {
	case 's':
		return fmt.Sprintf("%q", t.S)
	case 'L':
		var ss []string
		for _, k := range t.Kids {
			ss = append(ss, k.expr2())
		}
		return "[" + strings.Join(ss, ", ") + "]"
	case 'M':
		var ss []string
		for i, k := range t.Kids {
			ss = append(ss, fmt.Sprintf("%q: %s", t.Keys[i], k.expr2()))
		}
		return "{" + strings.Join(ss, ", ") + "}"
	}
	return t.String()
}

func main() {
	if err := cueexperiment.Init(); err != nil {
		panic(err)
	}
	if len(os.Args) < 2 {
		fmt.Fprintln(os.Stderr, "usage: harness-c11 <explore|run> --seed N ...")
		os.Exit(2)
	}
	args := common.Args(os.Args[2:])
	if args["--legacy"] == "1" {
		cueexperiment.Flags.YAMLGoccy = false
	}
	switch os.Args[1] {
	case "explore":
		explore(args)
	case "run":
		run(args)
	case "show":
		show(os.Args[2:])
	case "explorejson":
		r := common.NewRng(uint64(common.Atoi(args["--seed"], 1)))
		n := common.Atoi(args["--n"], 1000)
		dist := map[string]int{}
		bad := 0
		for i := 0; i < n; i++ {
			var sb strings.Builder
			tabBeforeColon = false
			genJSON(r, 3, &sb, dist)
			a, b := jsonBoth(cuecontext.New(), sb.String())
			if a != "ERR" && a != "DECERR" && !strings.Contains(a, "ERR") && (a != b) != tabBeforeColon {
				fmt.Printf("UNEXPECTED tab=%v\n", tabBeforeColon)
			}
			if a != b && !tabBeforeColon {
				bad++
				fmt.Printf("DIFF %q\n  json=%s\n  yaml=%s\n", sb.String(), a, b)
			}
		}
		fmt.Println("n", n, "diff", bad)
	default:
		fmt.Fprintln(os.Stderr, "unknown mode")
		os.Exit(2)
	}
}

// job is one unit of work; it returns the case / impl line pairs to emit.
type job func(ctx *cue.Context) [][2]string

// runJobs runs the jobs on a pool of workers (one cue.Context each) and emits
// the results in job order, so that the output only depends on the seed.
func runJobs(out *common.Out, jobs []job) {
	res := make([][][2]string, len(jobs))
	var wg sync.WaitGroup
	next := int64(-1)
	nw := runtime.NumCPU()
	if nw > 12 {
		nw = 12
	}
	for w := 0; w < nw; w++ {
		wg.Add(1)
		go func() {
			defer wg.Done()
			ctx := cuecontext.New()
			n := 0
			for {
				i := int(atomic.AddInt64(&next, 1))
				if i >= len(jobs) {
					return
				}
				res[i] = jobs[i](ctx)
				n++
				if n%2000 == 0 {
					ctx = cuecontext.New() // keep the per-context caches small
				}
			}
		}()
	}
	wg.Wait()
	for _, r := range res {
		for _, e := range r {
			out.Emit(e[0], e[1])
		}
	}
}

func run(args map[string]string) {
	seed := uint64(common.Atoi(args["--seed"], 1))
	nprobe := common.Atoi(args["--nprobe"], 1000)
	ndoc := common.Atoi(args["--ndoc"], 200)
	njson := common.Atoi(args["--njson"], 200)
	nwhole := common.Atoi(args["--nwhole"], 200)
	nstream := common.Atoi(args["--nstream"], 20)
	out := common.NewOut(args["--out"])
	defer out.Close()
	dist := map[string]int{}
	var jobs []job
	probeJob := func(pc pctx, s string, m bool) job {
		return func(ctx *cue.Context) [][2]string {
			c, im, ok := probe(ctx, pc, s, m)
			if !ok {
				return nil
			}
			return [][2]string{{c, im}}
		}
	}
	if f := args["--replay-cases"]; f != "" {
		data, err := os.ReadFile(f)
		if err != nil {
			panic(err)
		}
		ctx := cuecontext.New()
		for _, line := range strings.Split(strings.TrimSpace(string(data)), "\n") {
			replayCase(ctx, out, line)
		}
		return
	}
	r := common.NewRng(seed)
	// fixed corpus first: the witnesses of the known findings and of the theorems
	for _, s := range corpusStrings {
		for _, pc := range pctxs {
			for _, m := range []bool{false, true} {
				dist["probe/"+pc.name]++
				dist["str/corpus"]++
				jobs = append(jobs, probeJob(pc, s, m))
				if !strings.Contains(pc.name, "E") {
					break
				}
			}
		}
	}
	for _, pc := range pctxs {
		if !pc.isKey {
			name := pc.name
			jobs = append(jobs, func(ctx *cue.Context) [][2]string {
				c, im := bytesProbe(ctx, name)
				return [][2]string{{c, im}}
			})
		}
	}
	for i := 0; i < nprobe; i++ {
		s, cls := genString(r)
		pc := pctxs[r.Intn(len(pctxs))]
		dist["probe/"+pc.name]++
		dist["str/"+cls]++
		jobs = append(jobs, probeJob(pc, s, r.Chance(1, 2)))
	}
	for i := 0; i < ndoc; i++ {
		t := genTree(r, 1+r.Intn(4), dist)
		markMulti(r, t, false)
		jobs = append(jobs, func(ctx *cue.Context) [][2]string {
			c, im, extra := docCase(ctx, t)
			return append([][2]string{{c, im}}, extra...)
		})
	}
	for i := 0; i < njson; i++ {
		var sb strings.Builder
		genJSON(r, 1+r.Intn(4), &sb, dist)
		text := sb.String()
		jobs = append(jobs, func(ctx *cue.Context) [][2]string {
			c, im := jsonCase(ctx, text)
			return [][2]string{{c, im}}
		})
	}
	// whole documents (depth <= 5) and document streams, tied to Yaml/Doc.v
	rw := common.NewRng(seed ^ 0x57484f4c45)
	for i := 0; i < nwhole; i++ {
		t := genWTree(rw, 1+rw.Intn(5), dist)
		lm := rw.Bool()
		dist[fmt.Sprintf("wdepth/%d", depthOf(t))]++
		jobs = append(jobs, func(ctx *cue.Context) [][2]string {
			c, im, ok := wholeCase(ctx, t, lm)
			if !ok {
				return nil
			}
			return [][2]string{{c, im}}
		})
	}
	for i := 0; i < nstream; i++ {
		docs := &T{K: 'L'}
		n := 1 + rw.Intn(4)
		for j := 0; j < n; j++ {
			docs.Kids = append(docs.Kids, genWTree(rw, rw.Intn(4), dist))
		}
		lm := rw.Bool()
		dist[fmt.Sprintf("wstream/docs%d", n)]++
		jobs = append(jobs, func(ctx *cue.Context) [][2]string {
			c, im, ok := streamCase(ctx, docs, lm)
			if !ok {
				return nil
			}
			return [][2]string{{c, im}}
		})
	}
	runJobs(out, jobs)
	var ks []string
	for k := range dist {
		ks = append(ks, k)
	}
	sort.Strings(ks)
	for _, k := range ks {
		fmt.Printf("dist %s %d\n", k, dist[k])
	}
	fmt.Printf("oracle-disagree %d\n", oracleDisagree)
}

// markMulti chooses the source form of the strings that are list elements.
func markMulti(r *common.Rng, t *T, inList bool) {
	if t.K == 's' && inList {
		t.Multi = r.Chance(1, 2)
	}
	for _, k := range t.Kids {
		markMulti(r, k, t.K == 'L')
	}
}

// jsonCase: J <hex text> tab=<0|1>  ->  json=<ok|err> same=<0|1> yaml=<ok|err>
func jsonCase(ctx *cue.Context, text string) (string, string) {
	tab := 0
	if tabKeyColon(text) {
		tab = 1
	}
	a, b := jsonBoth(ctx, text)
	st := func(x string) string {
		if strings.Contains(x, "ERR") || x == "PANIC" {
			return "err"
		}
		return "ok"
	}
	same := 0
	if a == b {
		same = 1
	}
	return fmt.Sprintf("J %s tab=%d", common.Hex(text), tab), fmt.Sprintf("json=%s yaml=%s same=%d", st(a), st(b), same)
}

func replayCase(ctx *cue.Context, out *common.Out, line string) {
	w := strings.Fields(line)
	if len(w) == 0 {
		return
	}
	switch w[0] {
	case "P":
		m := strings.HasSuffix(line, "m=1")
		c, im, ok := probe(ctx, ctxByName(w[1]), common.Unhex(w[2]), m)
		if ok {
			out.Emit(c, im)
		}
	case "B":
		c, im := bytesProbe(ctx, w[1])
		out.Emit(c, im)
	case "D":
		t, err := parseT(w[1])
		if err != nil {
			panic(err)
		}
		c, im, extra := docCase(ctx, t)
		out.Emit(c, im)
		for _, e := range extra {
			out.Emit(e[0], e[1])
		}
	case "J":
		c, im := jsonCase(ctx, common.Unhex(w[1]))
		out.Emit(c, im)
	case "W", "Z":
		t, err := parseW(w[2])
		if err != nil {
			panic(err)
		}
		var c, im string
		var ok bool
		if w[0] == "W" {
			c, im, ok = wholeCase(ctx, t, w[1] == "lm=1")
		} else {
			c, im, ok = streamCase(ctx, t, w[1] == "lm=1")
		}
		if ok {
			out.Emit(c, im)
		}
	}
}
