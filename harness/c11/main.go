// C11 harness: YAML encode/decode round trips of the working tree.
package main

import (
	"fmt"
	"os"
	"sort"
	"strings"

	"cuelang.org/go/cue"
	"cuelang.org/go/cue/cuecontext"
	"cuelang.org/go/encoding/yaml"
	"cuelang.org/go/internal/cueexperiment"
	"cuelang.org/go/internal/verifharness/common"
)

var ctx *cue.Context

// roundTrip encodes t as YAML and decodes it again; returns the YAML text and
// the canonical projection of what came back (or ENCERR / DECERR / PANIC).
func roundTrip(v cue.Value) (text string, back string) {
	defer func() {
		if r := recover(); r != nil {
			back = fmt.Sprintf("PANIC")
		}
	}()
	b, err := yaml.Encode(v)
	if err != nil {
		return "", "ENCERR"
	}
	f, err := yaml.Extract("x.yaml", b)
	if err != nil {
		return string(b), "DECERR"
	}
	w := ctx.BuildFile(f)
	return string(b), canon(w)
}

func explore(args map[string]string) {
	seed := uint64(common.Atoi(args["--seed"], 1))
	n := common.Atoi(args["--n"], 1000)
	r := common.NewRng(seed)
	dist := map[string]int{}
	fails := 0
	for i := 0; i < n; i++ {
		var t *T
		if r.Chance(1, 2) {
			s, _ := genString(r)
			switch r.Intn(4) {
			case 0:
				t = str(s)
			case 1:
				t = &T{K: 'M', Keys: []string{"k"}, Kids: []*T{str(s)}}
			case 2:
				t = &T{K: 'M', Keys: []string{s}, Kids: []*T{{K: 'i', S: "1"}}}
			default:
				t = &T{K: 'L', Kids: []*T{str(s)}}
			}
		} else {
			t = genTree(r, 3, dist)
		}
		v := ctx.BuildExpr(t.expr())
		want := canon(v)
		text, back := roundTrip(v)
		if back != want {
			fails++
			fmt.Printf("FAIL %s\n  text=%q\n  want=%s\n  back=%s\n", t.expr2(), text, want, back)
		}
	}
	fmt.Printf("n=%d fails=%d\n", n, fails)
	var ks []string
	for k := range dist {
		ks = append(ks, k)
	}
	sort.Strings(ks)
	for _, k := range ks {
		fmt.Printf("  %s=%d\n", k, dist[k])
	}
}

func (t *T) expr2() string {
	switch t.K {
	case 's':
		return fmt.Sprintf("%q", t.S)
	case 'L':
		var ss []string
		for _, k := range t.Kids {
			ss = append(ss, k.expr2())
		}
		return "[" + strings.Join(ss, ", ") + "]"
	case 'M':
		var ss []string
		for i, k := range t.Kids {
			ss = append(ss, fmt.Sprintf("%q: %s", t.Keys[i], k.expr2()))
		}
		return "{" + strings.Join(ss, ", ") + "}"
	}
	return t.String()
}

func main() {
	if err := cueexperiment.Init(); err != nil {
		panic(err)
	}
	ctx = cuecontext.New()
	if len(os.Args) < 2 {
		fmt.Fprintln(os.Stderr, "usage: harness-c11 <explore|run> --seed N ...")
		os.Exit(2)
	}
	args := common.Args(os.Args[2:])
	if args["--legacy"] == "1" {
		cueexperiment.Flags.YAMLGoccy = false
	}
	switch os.Args[1] {
	case "explore":
		explore(args)
	case "run":
		run(args)
	default:
		fmt.Fprintln(os.Stderr, "unknown mode")
		os.Exit(2)
	}
}

func run(args map[string]string) {
	seed := uint64(common.Atoi(args["--seed"], 1))
	nprobe := common.Atoi(args["--nprobe"], 1000)
	out := common.NewOut(args["--out"])
	defer out.Close()
	r := common.NewRng(seed)
	dist := map[string]int{}
	for i := 0; i < nprobe; i++ {
		s, cls := genString(r)
		pc := pctxs[r.Intn(len(pctxs))]
		c, im, ok := probe(pc, s, r.Chance(1, 2))
		if !ok {
			dist["probe-build-mismatch"]++
			continue
		}
		dist["probe/"+pc.name]++
		dist["str/"+cls]++
		out.Emit(c, im)
	}
	var ks []string
	for k := range dist {
		ks = append(ks, k)
	}
	sort.Strings(ks)
	for _, k := range ks {
		fmt.Printf("dist %s %d\n", k, dist[k])
	}
	fmt.Printf("oracle-disagree %d\n", oracleDisagree)
}
