package main

import (
	_ "unsafe" // for go:linkname

	_ "github.com/goccy/go-yaml/token"
)

// Unexported classifiers of the third-party scanner, reached through
// go:linkname (files under the module cache cannot be overlaid).

//go:linkname goccyIsNumber github.com/goccy/go-yaml/token.isNumber
func goccyIsNumber(s string) bool

//go:linkname goccyIsTimestamp github.com/goccy/go-yaml/token.isTimestamp
func goccyIsTimestamp(s string) bool
