package main

import (
	"fmt"

	"cuelang.org/go/cue"
	"strings"

	"cuelang.org/go/internal/verifharness/common"
)

// parseT parses the projection printed by (*T).String (with S: for strings
// written as multi-line CUE literals).
func parseT(s string) (*T, error) {
	t, rest, err := parseT1(s)
	if err != nil {
		return nil, err
	}
	if rest != "" {
		return nil, fmt.Errorf("trailing %q", rest)
	}
	return t, nil
}

func scalarEnd(s string) int {
	i := strings.IndexAny(s, ",]}")
	if i < 0 {
		return len(s)
	}
	return i
}

func parseT1(s string) (*T, string, error) {
	if s == "" {
		return nil, "", fmt.Errorf("empty")
	}
	switch s[0] {
	case '[':
		t := &T{K: 'L'}
		s = s[1:]
		for !strings.HasPrefix(s, "]") {
			k, rest, err := parseT1(s)
			if err != nil {
				return nil, "", err
			}
			t.Kids = append(t.Kids, k)
			if !strings.HasPrefix(rest, ",") {
				return nil, "", fmt.Errorf("expected , at %q", rest)
			}
			s = rest[1:]
		}
		return t, s[1:], nil
	case '{':
		t := &T{K: 'M'}
		s = s[1:]
		for !strings.HasPrefix(s, "}") {
			i := strings.IndexByte(s, '=')
			if i < 0 {
				return nil, "", fmt.Errorf("expected = in %q", s)
			}
			key := common.Unhex(s[:i])
			k, rest, err := parseT1(s[i+1:])
			if err != nil {
				return nil, "", err
			}
			t.Keys = append(t.Keys, key)
			t.Kids = append(t.Kids, k)
			if !strings.HasPrefix(rest, ",") {
				return nil, "", fmt.Errorf("expected , at %q", rest)
			}
			s = rest[1:]
		}
		return t, s[1:], nil
	case 'n':
		return &T{K: 'n'}, s[1:], nil
	}
	if len(s) < 2 || s[1] != ':' {
		return nil, "", fmt.Errorf("bad scalar %q", s)
	}
	e := scalarEnd(s)
	body := s[2:e]
	switch s[0] {
	case 's':
		return &T{K: 's', S: common.Unhex(body)}, s[e:], nil
	case 'S':
		return &T{K: 's', S: common.Unhex(body), Multi: true}, s[e:], nil
	case 'y':
		return &T{K: 'y', S: common.Unhex(body)}, s[e:], nil
	case 'i':
		return &T{K: 'i', S: body}, s[e:], nil
	case 'f':
		return &T{K: 'f', S: body}, s[e:], nil
	case 'b':
		return &T{K: 'b', B: body == "1"}, s[e:], nil
	}
	return nil, "", fmt.Errorf("bad scalar %q", s)
}

// enc is like String but keeps the source form of strings and the literal
// spelling of numbers (String is the projection compared with canon).
func (t *T) enc() string {
	switch t.K {
	case 's':
		if t.Multi {
			return "S:" + common.Hex(t.S)
		}
		return "s:" + common.Hex(t.S)
	case 'L':
		var sb strings.Builder
		sb.WriteString("[")
		for _, k := range t.Kids {
			sb.WriteString(k.enc() + ",")
		}
		sb.WriteString("]")
		return sb.String()
	case 'M':
		var sb strings.Builder
		sb.WriteString("{")
		for i, k := range t.Kids {
			sb.WriteString(common.Hex(t.Keys[i]) + "=" + k.enc() + ",")
		}
		sb.WriteString("}")
		return sb.String()
	}
	return t.String()
}

// occurrence of a string in a document, with the probe context that
// corresponds to its position
type occ struct {
	s     string
	ctx   string
	multi bool
	set   func(string) // replace the string in the tree
}

// occurrences lists every string value and key of t with its probe context:
// R root scalar; K / NK key of the top-level / a nested mapping; V / NV value of
// the top-level / a nested mapping; E / NE element of the top-level / a nested list.
func occurrences(t *T) []occ {
	var out []occ
	// last: nothing follows this node in the document
	var walk func(t *T, depth int, ctx string, last bool)
	walk = func(t *T, depth int, ctx string, last bool) {
		switch t.K {
		case 'y':
			// an empty bytes value; see bytesProbe
			if t.S == "" {
				tt := t
				if !last && ctx != "R" {
					ctx += "F"
				}
				out = append(out, occ{"", "B" + ctx, false, func(x string) { tt.S = x }})
			}
		case 's':
			tt := t
			if !last && ctx != "R" {
				ctx += "F"
			}
			out = append(out, occ{t.S, ctx, t.Multi, func(x string) { tt.S = x }})
		case 'L':
			c := "NE"
			if depth == 0 {
				c = "E"
			}
			for i, k := range t.Kids {
				walk(k, depth+1, c, last && i == len(t.Kids)-1)
			}
		case 'M':
			kc, vc := "NK", "NV"
			if depth == 0 {
				kc, vc = "K", "V"
			}
			for i, k := range t.Kids {
				tt, ii := t, i
				out = append(out, occ{t.Keys[i], kc, false, func(x string) { tt.Keys[ii] = x }})
				walk(k, depth+1, vc, last && i == len(t.Kids)-1)
			}
		}
	}
	walk(t, 0, "R", true)
	return out
}

func ctxByName(n string) pctx {
	for _, p := range pctxs {
		if p.name == n {
			return p
		}
	}
	panic("ctx " + n)
}

// docCase round-trips one document.  When it fails, every string of the
// document is probed on its own in the matching context; the strings whose
// probe fails are replaced by fresh plain words and the document is tried
// again.  Impl line: rt=1 | rt=0 explained=<0|1> nbad=<k>.  The probes of the
// strings blamed are returned as additional cases (the model must predict
// their failure).
func docCase(ctx *cue.Context, t *T) (caseLine, implLine string, extra [][2]string) {
	v := ctx.BuildExpr(t.expr())
	want := canon(v)
	caseLine = "D " + t.enc()
	if want != t.String() && !strings.Contains(want, "f:") {
		// numbers are normalised by canon; anything else is a harness problem
		return caseLine, "build-mismatch", nil
	}
	_, back := roundTrip(ctx, v)
	if back == want {
		return caseLine, "rt=1", nil
	}
	nbad := 0
	for i, o := range occurrences(t) {
		if strings.HasPrefix(o.ctx, "B") {
			c, im := bytesProbe(ctx, o.ctx[1:])
			if strings.Contains(im, "rt=0") {
				nbad++
				extra = append(extra, [2]string{c, im})
				o.set("x")
			}
			continue
		}
		c, im, ok := probe(ctx, ctxByName(o.ctx), o.s, o.multi)
		if !ok {
			continue
		}
		if strings.Contains(im, "rt=0") {
			nbad++
			extra = append(extra, [2]string{c, im})
			o.set(fmt.Sprintf("w%d", i))
		}
	}
	explained := 0
	if nbad > 0 {
		v2 := ctx.BuildExpr(t.expr())
		_, back2 := roundTrip(ctx, v2)
		if back2 == canon(v2) {
			explained = 1
		}
	}
	return caseLine, fmt.Sprintf("rt=0 explained=%d nbad=%d back=%s", explained, nbad, back), extra
}

// bytesProbe round-trips an empty bytes value in the given value context.
// Case line: B <ctx>; impl line: rt=<0|1>.
func bytesProbe(ctx *cue.Context, name string) (string, string) {
	pc := ctxByName(name)
	t := pc.build("")
	var fix func(t *T)
	fix = func(t *T) {
		if t.K == 's' {
			t.K = 'y'
		}
		for _, k := range t.Kids {
			fix(k)
		}
	}
	fix(t)
	v := ctx.BuildExpr(t.expr())
	_, back := roundTrip(ctx, v)
	rt := 0
	if back == canon(v) {
		rt = 1
	}
	return "B " + name, fmt.Sprintf("rt=%d", rt)
}
