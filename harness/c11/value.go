// Value trees, their CUE construction and the canonical data projection used
// by the C11 harness.
package main

import (
	"fmt"
	"math/big"
	"strings"

	"cuelang.org/go/cue"
	"cuelang.org/go/cue/ast"
	"cuelang.org/go/cue/literal"
	"cuelang.org/go/cue/token"
	"cuelang.org/go/internal/verifharness/common"
)

// T is a concrete data tree.
type T struct {
	K     byte // 's' string, 'i' int, 'f' float, 'b' bool, 'n' null, 'y' bytes, 'L' list, 'M' map
	S     string
	B     bool
	Multi bool // 's' only: written as a multi-line CUE literal in the source
	Kids  []*T
	Keys  []string // for 'M', parallel to Kids
}

func str(s string) *T { return &T{K: 's', S: s} }

// expr builds the CUE syntax of t.  Strings go through ast.NewString
// (literal.String.Quote), numbers are given as literal text.
func (t *T) expr() ast.Expr {
	switch t.K {
	case 's':
		if t.Multi {
			return ast.NewLit(token.STRING, literal.String.WithTabIndent(1).Quote(t.S))
		}
		return ast.NewString(t.S)
	case 'y':
		return ast.NewLit(token.STRING, bytesLit(t.S))
	case 'i', 'f':
		kind := token.INT
		if t.K == 'f' {
			kind = token.FLOAT
		}
		if strings.HasPrefix(t.S, "-") {
			return &ast.UnaryExpr{Op: token.SUB, X: ast.NewLit(kind, t.S[1:])}
		}
		return ast.NewLit(kind, t.S)
	case 'b':
		return ast.NewBool(t.B)
	case 'n':
		return ast.NewNull()
	case 'L':
		var es []ast.Expr
		for _, k := range t.Kids {
			es = append(es, k.expr())
		}
		return ast.NewList(es...)
	case 'M':
		st := &ast.StructLit{}
		for i, k := range t.Kids {
			st.Elts = append(st.Elts, &ast.Field{Label: ast.NewStringLabel(t.Keys[i]), Value: k.expr()})
		}
		return st
	}
	panic("bad kind")
}

func bytesLit(s string) string {
	var sb strings.Builder
	sb.WriteString("'")
	for i := 0; i < len(s); i++ {
		fmt.Fprintf(&sb, "\\x%02x", s[i])
	}
	sb.WriteString("'")
	return sb.String()
}

// canon projects a CUE value to the data the property talks about: kinds,
// order of fields, labels and strings as bytes, numbers as kind + exact value.
func canon(v cue.Value) (out string) {
	defer func() {
		if r := recover(); r != nil {
			out = fmt.Sprintf("PANIC(%v)", r)
		}
	}()
	var sb strings.Builder
	canonTo(&sb, v)
	return sb.String()
}

func canonTo(sb *strings.Builder, v cue.Value) {
	if err := v.Err(); err != nil {
		sb.WriteString("ERR")
		return
	}
	switch v.IncompleteKind() {
	case cue.StringKind:
		s, err := v.String()
		if err != nil {
			sb.WriteString("ERR")
			return
		}
		sb.WriteString("s:" + common.Hex(s))
	case cue.BytesKind:
		b, err := v.Bytes()
		if err != nil {
			sb.WriteString("ERR")
			return
		}
		sb.WriteString("y:" + common.Hex(string(b)))
	case cue.IntKind:
		var x big.Int
		if _, err := v.Int(&x); err != nil {
			sb.WriteString("ERR")
			return
		}
		sb.WriteString("i:" + x.String())
	case cue.FloatKind:
		sb.WriteString("f:" + floatCanon(v))
	case cue.NumberKind:
		sb.WriteString("N:" + floatCanon(v))
	case cue.BoolKind:
		b, err := v.Bool()
		if err != nil {
			sb.WriteString("ERR")
			return
		}
		if b {
			sb.WriteString("b:1")
		} else {
			sb.WriteString("b:0")
		}
	case cue.NullKind:
		if !v.IsConcrete() {
			sb.WriteString("ERR")
			return
		}
		sb.WriteString("n")
	case cue.ListKind:
		it, err := v.List()
		if err != nil {
			sb.WriteString("ERR")
			return
		}
		sb.WriteString("[")
		for it.Next() {
			canonTo(sb, it.Value())
			sb.WriteString(",")
		}
		sb.WriteString("]")
	case cue.StructKind:
		it, err := v.Fields(cue.All())
		if err != nil {
			sb.WriteString("ERR")
			return
		}
		sb.WriteString("{")
		for it.Next() {
			sel := it.Selector()
			if sel.LabelType() != cue.StringLabel || sel.ConstraintType() != 0 {
				sb.WriteString("?" + sel.String())
			} else {
				sb.WriteString(common.Hex(sel.Unquoted()))
			}
			sb.WriteString("=")
			canonTo(sb, it.Value())
			sb.WriteString(",")
		}
		sb.WriteString("}")
	default:
		sb.WriteString("OTHER(" + v.IncompleteKind().String() + ")")
	}
}

// floatCanon: exact decimal value, normalised (coefficient without trailing
// zeros, exponent), so that 1.0 and 1.00 and 10e-1 are the same value.
func floatCanon(v cue.Value) string {
	if !v.IsConcrete() {
		return "ERR"
	}
	var m big.Int
	exp, err := v.MantExp(&m)
	if err != nil {
		return "ERR"
	}
	if m.Sign() == 0 {
		return "0e0"
	}
	ten := big.NewInt(10)
	var q, r big.Int
	for {
		q.QuoRem(&m, ten, &r)
		if r.Sign() != 0 {
			break
		}
		m.Set(&q)
		exp++
	}
	return fmt.Sprintf("%se%d", m.String(), exp)
}

// canonT is the same projection computed from the tree itself (what the data
// is by construction); used to make sure BuildExpr gave what we meant.
func (t *T) String() string {
	switch t.K {
	case 's':
		return "s:" + common.Hex(t.S)
	case 'y':
		return "y:" + common.Hex(t.S)
	case 'i':
		return "i:" + t.S
	case 'f':
		return "f:" + t.S
	case 'b':
		if t.B {
			return "b:1"
		}
		return "b:0"
	case 'n':
		return "n"
	case 'L':
		var sb strings.Builder
		sb.WriteString("[")
		for _, k := range t.Kids {
			sb.WriteString(k.String() + ",")
		}
		sb.WriteString("]")
		return sb.String()
	case 'M':
		var sb strings.Builder
		sb.WriteString("{")
		for i, k := range t.Kids {
			sb.WriteString(common.Hex(t.Keys[i]) + "=" + k.String() + ",")
		}
		sb.WriteString("}")
		return sb.String()
	}
	return "?"
}
