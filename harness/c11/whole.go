// Whole-document cases (W) of the C11 harness: the encoder's complete output
// for a nested document, to be compared byte for byte with the document model
// (Yaml/Doc.v emit_doc), and the decoder's verdict on it, to be compared with
// the model reader (read_doc).
package main

import (
	"encoding/base64"
	"fmt"
	"os"
	"sort"
	"strings"
	"unicode"

	ytoken "github.com/goccy/go-yaml/token"

	"cuelang.org/go/cue"
	"cuelang.org/go/cue/cuecontext"
	"cuelang.org/go/encoding/yaml"
	"cuelang.org/go/internal/verifharness/common"
)

// show prints the YAML text of the trees given (enc format) on the command line.
func show(specs []string) {
	ctx := cuecontext.New()
	for _, sp := range specs {
		t, err := parseT(sp)
		if err != nil {
			fmt.Fprintln(os.Stderr, "bad spec", sp, err)
			continue
		}
		v := ctx.BuildExpr(t.expr())
		b, err := yaml.Encode(v)
		if err != nil {
			fmt.Printf("%s\n  ENCERR %v\n", sp, err)
			continue
		}
		_, back := roundTrip(ctx, v)
		fmt.Printf("%s\n  %q\n  rt=%v\n", sp, string(b), back == canon(v))
	}
}

// tricky scalars of the agenda that the pool does not have (or has rarely)
var wTricky = []string{
	"~", "null", "Null", "yes", "no", "on", "off", "0x10", "0o7", "1_000", ".inf", ".nan", "1e3", "+1", "-", "- a", "a: b", "#c", "a #c",
	" lead", "trail ", "  two", "tab\there", "\tlead", "cr\rhere", "nel\u0085x", "ls\u2028x", "\ufeffbom", "'", "\"", "it's", "say \"hi\"",
	"%", "%TAG", "@", "@a", "`", "`a`", "!tag", "!!str a", "&a", "*a", "|", ">", "|-", "? ", "? a", "?", "2001-12-14", "2001-12-14T21:59:43Z", "=", "<<",
	"a", "a\n", "a\n\n", "a\nb", "a\nb\n", "a\nb\n\n", "a\n\nb", "line one\nline two\n", "x: 1\ny: 2\n", "- a\n- b", "# not a comment\nb",
	"the quick brown fox jumps over the lazy dog and keeps running for more than eighty columns in a row",
	"averyveryveryveryveryveryveryveryveryveryveryveryveryveryveryveryveryveryverylongwordwithoutanyblanks",
	"long: with colon and more than eighty columns so that a folding emitter would be tempted to break this line",
	"first line\nthe quick brown fox jumps over the lazy dog and keeps running for more than eighty columns in a row\nlast",
	"[", "]", "{", "}", ",", "[]", "{}", "a,b", "true", "false", "True", "1", "1.5", "-1", "---", "...", "--- a", "... a", "...a",
}

// suspicious: heuristically inside one of the known finding classes (the
// generator draws fewer of these so that most documents are fully compared;
// which documents are in a known class is decided by the model, not here).
func suspicious(s string) bool {
	if strings.HasPrefix(s, "\n") || strings.HasSuffix(s, "<<") || strings.Contains(s, "\n\t") || strings.Contains(s, "\n ") {
		return true
	}
	for _, r := range s {
		if !unicode.IsPrint(r) && r != '\n' && r != '\t' && r != '\r' && r >= 0x20 && r != 0x7f {
			return true
		}
	}
	return false
}

func genWString(r *common.Rng, dist map[string]int) string {
	for try := 0; ; try++ {
		var s, cls string
		if r.Chance(2, 5) {
			s, cls = common.Pick(r, wTricky), "tricky"
		} else {
			s, cls = genString(r)
		}
		if suspicious(s) && try < 4 && !r.Chance(1, 6) {
			continue
		}
		dist["wstr/"+cls]++
		return s
	}
}

func genWScalar(r *common.Rng, dist map[string]int) *T {
	switch k := r.Intn(100); {
	case k < 64:
		return str(genWString(r, dist))
	case k < 74:
		dist["wint"]++
		s := common.Pick(r, intPool)
		if r.Chance(1, 3) {
			s = itoa(int64(r.Next()>>uint(r.Intn(63))) - int64(r.Intn(2000)))
		}
		return &T{K: 'i', S: s}
	case k < 84:
		dist["wfloat"]++
		// v.Syntax() re-spells exponents (1e3 -> 1E+3) before the encoder sees the
		// literal: only spellings it keeps are used here (the D cases cover the rest)
		s := common.Pick(r, floatPool)
		if ytoken.ToNumber(s) == nil || strings.ContainsAny(s, "eE") {
			s = common.Pick(r, []string{"1.5", "0.0", "-1.5", "3.14159", "0.000001", "123456789.123456789", "100.0"})
		}
		return &T{K: 'f', S: s}
	case k < 90:
		dist["wbool"]++
		return &T{K: 'b', B: r.Bool()}
	case k < 96:
		dist["wnull"]++
		return &T{K: 'n'}
	default:
		dist["wbytes"]++
		s := ""
		if r.Chance(3, 4) {
			s, _ = genString(r)
			if r.Chance(1, 2) {
				s += "\xff\x00"
			}
		}
		return &T{K: 'y', S: s}
	}
}

func genWTree(r *common.Rng, depth int, dist map[string]int) *T {
	if depth <= 0 || r.Chance(1, 4) {
		return genWScalar(r, dist)
	}
	n := r.Intn(5)
	if r.Chance(1, 8) {
		n = 0 // empty containers at every position
	}
	if r.Chance(9, 20) {
		dist[fmt.Sprintf("wlist/len%d", n)]++
		t := &T{K: 'L'}
		for i := 0; i < n; i++ {
			t.Kids = append(t.Kids, genWTree(r, depth-1, dist))
		}
		return t
	}
	dist[fmt.Sprintf("wmap/len%d", n)]++
	t := &T{K: 'M'}
	seen := map[string]bool{}
	for i := 0; i < n; i++ {
		var k string
		if r.Chance(1, 3) {
			k = common.Pick(r, []string{"a", "b", "key", "x-y", "name", "k1"})
		} else {
			k = genWString(r, dist)
		}
		if seen[k] {
			continue
		}
		seen[k] = true
		t.Keys = append(t.Keys, k)
		t.Kids = append(t.Kids, genWTree(r, depth-1, dist))
	}
	return t
}

func depthOf(t *T) int {
	d := 0
	for _, k := range t.Kids {
		if x := depthOf(k); x > d {
			d = x
		}
	}
	if t.K == 'L' || t.K == 'M' {
		return d + 1
	}
	return 0
}

// wenc is the tree in the W case format: like enc, but all strings as s:, bytes
// as y:<hex of the base64 text>.
func (t *T) wenc() string {
	switch t.K {
	case 's':
		return "s:" + common.Hex(t.S)
	case 'y':
		return "y:" + common.Hex(base64.StdEncoding.EncodeToString([]byte(t.S)))
	case 'L':
		var sb strings.Builder
		sb.WriteString("[")
		for _, k := range t.Kids {
			sb.WriteString(k.wenc() + ",")
		}
		sb.WriteString("]")
		return sb.String()
	case 'M':
		var sb strings.Builder
		sb.WriteString("{")
		for i, k := range t.Kids {
			sb.WriteString(common.Hex(t.Keys[i]) + "=" + k.wenc() + ",")
		}
		sb.WriteString("}")
		return sb.String()
	}
	return t.String()
}

// parseW parses the wenc format back (replay).
func parseW(s string) (*T, error) {
	t, err := parseT(s)
	if err != nil {
		return nil, err
	}
	var fix func(t *T) error
	fix = func(t *T) error {
		if t.K == 'y' {
			b, err := base64.StdEncoding.DecodeString(t.S)
			if err != nil {
				return err
			}
			t.S = string(b)
		}
		for _, k := range t.Kids {
			if err := fix(k); err != nil {
				return err
			}
		}
		return nil
	}
	return t, fix(t)
}

// all strings, keys and number texts of the tree (and their forms without
// trailing blanks: what the scanner types)
func collectTexts(t *T, set map[string]bool) {
	switch t.K {
	case 's', 'i', 'f':
		set[t.S] = true
		set[strings.TrimRight(t.S, " ")] = true
	}
	for _, k := range t.Keys {
		set[k] = true
		set[strings.TrimRight(k, " ")] = true
	}
	for _, k := range t.Kids {
		collectTexts(k, set)
	}
}

func setListMulti(t *T, inList, lm bool) {
	if t.K == 's' {
		t.Multi = inList && lm
	}
	for _, k := range t.Kids {
		setListMulti(k, t.K == 'L', lm)
	}
}

func b01(x bool) string {
	if x {
		return "1"
	}
	return "0"
}

// oracleFields: np=<hex runes for which unicode.IsPrint is false> o=<hex text>:<ToNumber!=nil><isNumber><isTimestamp>;...
func oracleFields(trees ...*T) string {
	set := map[string]bool{}
	for _, t := range trees {
		collectTexts(t, set)
	}
	var keys []string
	for k := range set {
		keys = append(keys, k)
	}
	sort.Strings(keys)
	seen := map[rune]bool{}
	var np, os []string
	for _, k := range keys {
		for _, r := range k {
			if !unicode.IsPrint(r) && !seen[r] {
				seen[r] = true
				np = append(np, fmt.Sprintf("%x", r))
			}
		}
		os = append(os, common.Hex(k)+":"+b01(ytoken.ToNumber(k) != nil)+b01(goccyIsNumber(k))+b01(goccyIsTimestamp(k)))
	}
	nps := "-"
	if len(np) > 0 {
		nps = strings.Join(np, ",")
	}
	return "np=" + nps + " o=" + strings.Join(os, ";")
}

// wholeCase: W lm=<0|1> <tree> <hex of the encoder's output> np=.. o=..   ->   rt=<0|1> [back=..]
func wholeCase(ctx *cue.Context, t *T, lm bool) (caseLine, implLine string, ok bool) {
	if t.K == 's' && strings.Contains(t.S, "\n") {
		// the CUE literal form of a multi-line ROOT string that reaches the encoder is
		// not validated for this path (covered by the P probes, context R)
		return "", "", false
	}
	setListMulti(t, false, lm)
	v := ctx.BuildExpr(t.expr())
	want := canon(v)
	if want != t.String() && !strings.Contains(want, "f:") {
		return "", "", false
	}
	text, back := roundTrip(ctx, v)
	caseLine = fmt.Sprintf("W lm=%s %s %s %s", b01(lm), t.wenc(), common.Hex(text), oracleFields(t))
	rt := back == want
	implLine = fmt.Sprintf("rt=%s", b01(rt))
	if !rt {
		implLine += " back=" + back
	}
	return caseLine, implLine, true
}

// streamCase: a stream of documents written by yaml.EncodeStream and read by
// yaml.Extract (which returns the documents as a list).
// Z lm=<0|1> <list tree of the documents> <hex text> np=.. o=..   ->   rt=<0|1>
func streamCase(ctx *cue.Context, docs *T, lm bool) (caseLine, implLine string, ok bool) {
	for _, d := range docs.Kids {
		if d.K == 's' && strings.Contains(d.S, "\n") {
			return "", "", false
		}
		setListMulti(d, false, lm)
	}
	v := ctx.BuildExpr(docs.expr())
	want := canon(v)
	if want != docs.String() && !strings.Contains(want, "f:") {
		return "", "", false
	}
	back := ""
	text := ""
	func() {
		defer func() {
			if r := recover(); r != nil {
				back = "PANIC"
			}
		}()
		it, err := v.List()
		if err != nil {
			back = "ENCERR"
			return
		}
		b, err := yaml.EncodeStream(it)
		if err != nil {
			back = "ENCERR"
			return
		}
		text = string(b)
		f, err := yaml.Extract("x.yaml", b)
		if err != nil {
			back = "DECERR"
			return
		}
		back = canon(ctx.BuildFile(f))
	}()
	if len(docs.Kids) == 1 {
		// Extract returns a single document as itself, not as a list
		want = canon(ctx.BuildExpr(docs.Kids[0].expr()))
	}
	caseLine = fmt.Sprintf("Z lm=%s %s %s %s", b01(lm), docs.wenc(), common.Hex(text), oracleFields(docs))
	rt := back == want
	implLine = fmt.Sprintf("rt=%s", b01(rt))
	if !rt {
		implLine += " back=" + back
	}
	return caseLine, implLine, true
}
