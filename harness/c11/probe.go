package main

import (
	"fmt"
	"sync/atomic"

	"cuelang.org/go/cue"
	"strconv"
	"strings"
	"unicode"

	ytoken "github.com/goccy/go-yaml/token"

	"cuelang.org/go/cue/literal"

	"cuelang.org/go/internal/verifharness/common"
)

// probe contexts: where a single string is placed in a small document.
type pctx struct {
	name    string
	prefix  string // text before the scalar in the encoded document
	isKey   bool
	build   func(s string) *T
	trailer string // text after the scalar's own text (contexts with a following node)
}

var one = &T{K: 'i', S: "1"}

var pctxs = []pctx{
	{"R", "", false, func(s string) *T { return str(s) }, ""},
	{"V", "k: ", false, func(s string) *T { return &T{K: 'M', Keys: []string{"k"}, Kids: []*T{str(s)}} }, ""},
	{"K", "", true, func(s string) *T { return &T{K: 'M', Keys: []string{s}, Kids: []*T{one}} }, ""},
	{"E", "- ", false, func(s string) *T { return &T{K: 'L', Kids: []*T{str(s)}} }, ""},
	{"NV", "a:\n  b: ", false, func(s string) *T {
		return &T{K: 'M', Keys: []string{"a"}, Kids: []*T{{K: 'M', Keys: []string{"b"}, Kids: []*T{str(s)}}}}
	}, ""},
	{"NK", "a:\n  ", true, func(s string) *T {
		return &T{K: 'M', Keys: []string{"a"}, Kids: []*T{{K: 'M', Keys: []string{s}, Kids: []*T{one}}}}
	}, ""},
	{"NE", "a:\n  - ", false, func(s string) *T {
		return &T{K: 'M', Keys: []string{"a"}, Kids: []*T{{K: 'L', Kids: []*T{str(s)}}}}
	}, ""},
	// the same value positions, followed by another node
	{"VF", "k: ", false, func(s string) *T { return &T{K: 'M', Keys: []string{"k", "z"}, Kids: []*T{str(s), one}} }, "z: 1\n"},
	{"EF", "- ", false, func(s string) *T { return &T{K: 'L', Kids: []*T{str(s), one}} }, "- 1\n"},
	{"NVF", "a:\n  b: ", false, func(s string) *T {
		return &T{K: 'M', Keys: []string{"a"}, Kids: []*T{{K: 'M', Keys: []string{"b", "z"}, Kids: []*T{str(s), one}}}}
	}, "  z: 1\n"},
	{"NEF", "a:\n  - ", false, func(s string) *T {
		return &T{K: 'M', Keys: []string{"a"}, Kids: []*T{{K: 'L', Kids: []*T{str(s), one}}}}
	}, "  - 1\n"},
}

// probe runs one string in one context.  Case line:
//
//	P <ctx> <hex s> <hex text> np=<hex runes,..> f=<numT><numS><isnum><ts>
//
// Impl line:
//
//	style=<P|S|D|L|X> rt=<0|1> back=<canon or DECERR..>
func probe(ctx *cue.Context, pc pctx, s string, multiSrc bool) (caseLine, implLine string, ok bool) {
	t := pc.build(s)
	// v.Syntax() writes struct field values and the root value as multi-line
	// literals iff they contain a newline; list elements keep the source form.
	multi := strings.Contains(s, "\n")
	if strings.Contains(pc.name, "E") {
		multi = multiSrc
		setMulti(t, multiSrc)
	}
	v := ctx.BuildExpr(t.expr())
	want := canon(v)
	if want != t.String() {
		// the value is not what we meant to build (harness problem)
		return "", "", false
	}
	text, back := roundTrip(ctx, v)
	rest := "?"
	style := "X"
	if strings.HasPrefix(text, pc.prefix) && strings.HasSuffix(text, pc.trailer) && len(text) >= len(pc.prefix)+len(pc.trailer) && back != "ENCERR" {
		rest = text[len(pc.prefix) : len(text)-len(pc.trailer)]
		switch {
		case rest == "":
			style = "X"
		case rest[0] == '|':
			style = "L"
		case rest[0] == '\'':
			style = "S"
		case rest[0] == '"':
			style = "D"
		default:
			style = "P"
		}
	}
	rt := 0
	if back == want {
		rt = 1
	}
	var np []string
	seen := map[rune]bool{}
	for _, r := range s {
		if !unicode.IsPrint(r) && !seen[r] {
			seen[r] = true
			np = append(np, strconv.FormatInt(int64(r), 16))
		}
		if unicode.IsPrint(r) != strconv.IsPrint(r) {
			atomic.AddInt64(&oracleDisagree, 1)
		}
	}
	nps := "-"
	if len(np) > 0 {
		nps = strings.Join(np, ",")
	}
	b := func(x bool) string {
		if x {
			return "1"
		}
		return "0"
	}
	flags := b(ytoken.ToNumber(strings.TrimRight(s, " ")) != nil) + b(ytoken.ToNumber(s) != nil) +
		b(goccyIsNumber(s)) + b(goccyIsTimestamp(s)) + b(litOK(s))
	caseLine = fmt.Sprintf("P %s %s %s np=%s f=%s m=%s", pc.name, common.Hex(s), common.Hex(rest), nps, flags, b(multi))
	implLine = fmt.Sprintf("style=%s rt=%d", style, rt)
	if rt == 0 {
		implLine += " back=" + back
	}
	return caseLine, implLine, true
}

var oracleDisagree int64

func setMulti(t *T, m bool) {
	if t.K == 's' {
		t.Multi = m
	}
	for _, k := range t.Kids {
		setMulti(k, m)
	}
}

// litOK: does the CUE literal the YAML decoder writes for a string value
// (decode.go quotedString) read back as the same string?
func litOK(s string) bool {
	q := literal.String.WithOptionalTabIndent(1).WithOptionalHashes().Quote(s)
	u, err := literal.Unquote(q)
	return err == nil && u == s
}
