package main

import (
	"fmt"
	"strings"

	"cuelang.org/go/cue"
	cuejson "cuelang.org/go/encoding/json"
	"cuelang.org/go/encoding/yaml"
	"cuelang.org/go/internal/verifharness/common"
)

// JSON text generator: documents are generated as text (not through a JSON
// encoder) so that every spelling JSON allows is exercised: escapes, exponent
// forms, white space, empty collections, duplicate-free objects.

var jsonWS = []string{"", "", "", " ", "\n", "  ", "\n  ", " \n", "\t", "\r\n", "\n\t"}

func jsonString(r *common.Rng, s string) string {
	var sb strings.Builder
	sb.WriteByte('"')
	for _, c := range s {
		switch {
		case c == '"':
			sb.WriteString(`\"`)
		case c == '\\':
			sb.WriteString(`\\`)
		case c == '/' && r.Chance(1, 2):
			sb.WriteString(`\/`)
		case c == '\n':
			sb.WriteString(`\n`)
		case c == '\r':
			sb.WriteString(`\r`)
		case c == '\t':
			sb.WriteString(`\t`)
		case c == '\b':
			sb.WriteString(`\b`)
		case c == '\f':
			sb.WriteString(`\f`)
		case c < 0x20:
			fmt.Fprintf(&sb, `\u%04x`, c)
		case c >= 0x10000 && r.Chance(1, 2):
			c -= 0x10000
			fmt.Fprintf(&sb, `\u%04x\u%04X`, 0xd800+(c>>10), 0xdc00+(c&0x3ff))
		case c < 0x10000 && (c >= 0x7f && r.Chance(1, 2) || r.Chance(1, 10)):
			fmt.Fprintf(&sb, `\u%04x`, c)
		default:
			sb.WriteRune(c)
		}
	}
	sb.WriteByte('"')
	return sb.String()
}

var jsonNumbers = []string{"0", "-0", "1", "-1", "42", "1000000", "9223372036854775807", "-9223372036854775808", "18446744073709551616",
	"123456789012345678901234567890", "0.0", "-0.0", "1.5", "-1.5", "0.1", "100.0", "1e3", "1E3", "1e+3", "1E+3", "1e-3", "1.0e3", "1.5E-10",
	"1e100", "1e-100", "1e1000", "0e0", "0.000001", "123456789.123456789", "2.5e-7", "10.0", "1.10", "0E+5", "12e0", "7e07"}

// tabBeforeColon is set when the generator puts a tab directly after an
// object key (cross-checked against tabKeyColon).
var tabBeforeColon bool

func genJSON(r *common.Rng, depth int, sb *strings.Builder, dist map[string]int) {
	ws := func() { sb.WriteString(common.Pick(r, jsonWS)) }
	if depth <= 0 || r.Chance(2, 5) {
		switch k := r.Intn(100); {
		case k < 55:
			s, cls := genString(r)
			dist["json-str/"+cls]++
			sb.WriteString(jsonString(r, s))
		case k < 80:
			dist["json-number"]++
			sb.WriteString(common.Pick(r, jsonNumbers))
		case k < 88:
			dist["json-bool"]++
			sb.WriteString(common.Pick(r, []string{"true", "false"}))
		default:
			dist["json-null"]++
			sb.WriteString("null")
		}
		return
	}
	if r.Chance(2, 5) {
		dist["json-array"]++
		n := r.Intn(5)
		sb.WriteString("[")
		ws()
		for i := 0; i < n; i++ {
			if i > 0 {
				sb.WriteString(",")
				ws()
			}
			genJSON(r, depth-1, sb, dist)
			ws()
		}
		sb.WriteString("]")
		return
	}
	dist["json-object"]++
	n := r.Intn(5)
	sb.WriteString("{")
	ws()
	seen := map[string]bool{}
	first := true
	for i := 0; i < n; i++ {
		k, _ := genString(r)
		if r.Chance(1, 3) {
			k = common.Pick(r, []string{"a", "b", "key", "x-y", "name", "k1"})
		}
		if seen[k] {
			continue
		}
		seen[k] = true
		if !first {
			sb.WriteString(",")
			ws()
		}
		first = false
		sb.WriteString(jsonString(r, k))
		w := common.Pick(r, jsonWS)
		if strings.HasPrefix(w, "\t") {
			tabBeforeColon = true
		}
		sb.WriteString(w)
		sb.WriteString(":")
		ws()
		genJSON(r, depth-1, sb, dist)
		ws()
	}
	sb.WriteString("}")
}

// jsonBoth decodes one JSON text with the JSON decoder and with the YAML decoder.
func jsonBoth(ctx *cue.Context, text string) (viaJSON, viaYAML string) {
	viaJSON = func() (out string) {
		defer func() {
			if r := recover(); r != nil {
				out = "PANIC"
			}
		}()
		e, err := cuejson.Extract("x.json", []byte(text))
		if err != nil {
			return "DECERR"
		}
		return canon(ctx.BuildExpr(e))
	}()
	viaYAML = func() (out string) {
		defer func() {
			if r := recover(); r != nil {
				out = "PANIC"
			}
		}()
		f, err := yaml.Extract("x.yaml", []byte(text))
		if err != nil {
			return "DECERR"
		}
		return canon(ctx.BuildFile(f))
	}()
	return
}

var _ = cue.Value{}

// tabKeyColon reports whether some object key of the JSON text is followed
// directly by a tab before its colon (lexical scan of the JSON text).
func tabKeyColon(text string) bool {
	inStr := false
	for i := 0; i < len(text); i++ {
		c := text[i]
		if inStr {
			if c == '\\' {
				i++
			} else if c == '"' {
				inStr = false
				if i+1 < len(text) && text[i+1] == '\t' {
					j := i + 1
					for j < len(text) && (text[j] == ' ' || text[j] == '\t' || text[j] == '\n' || text[j] == '\r') {
						j++
					}
					if j < len(text) && text[j] == ':' {
						return true
					}
				}
			}
		} else if c == '"' {
			inStr = true
		}
	}
	return false
}
