// Adversarial string pool of the C11 harness.
package main

import (
	"strings"

	"cuelang.org/go/internal/verifharness/common"
)

// every YAML 1.1 / 1.2 implicit-type spelling
var implicitWords = []string{
	"~", "null", "Null", "NULL", "nULL",
	"true", "True", "TRUE", "false", "False", "FALSE", "tRUE",
	"y", "Y", "yes", "Yes", "YES", "n", "N", "no", "No", "NO", "on", "On", "ON", "off", "Off", "OFF",
	"t", "T", "f", "F", "yEs", "oN",
	".inf", ".Inf", ".INF", "+.inf", "+.Inf", "+.INF", "-.inf", "-.Inf", "-.INF", ".nan", ".NaN", ".NAN", ".Nan", ".iNF",
	"inf", "Inf", "NaN", "nan", "Infinity",
	"0", "1", "-1", "+1", "007", "0o7", "0o17", "0O7", "017", "-017", "+017", "08", "089", "0_7", "0x1F", "0X1f", "0xg", "-0x1f", "+0x1F",
	"0b101", "-0b1", "0B1", "1_000", "1__0", "_1", "1_", "12345678901234567890123", "-12345678901234567890123",
	"1.5", "-1.5", "+1.5", ".5", "-.5", "+.5", "5.", "1e3", "1E3", "1e+3", "1e-3", "1.e3", ".5e3", "1.5e", "e3", "1e", "0.", ".", "..", "-.", "+.",
	"1_0.5", "1.5_0", "0.1e1_0", "00.5", "01.5", "1.2.3", "1,000",
	"1:30", "1:30:00", "190:20:30", "1:30.5", "-1:30", "+1:30", "1:3", "01:30", ":30",
	"2001-12-14", "2001-12-14t21:59:43.10-05:00", "2001-12-14T21:59:43Z", "2001-12-14 21:59:43.10 -5", "2002-1-1", "2002-12-14 ", "12:30:45", "20-12-14",
	"<<", "=", "!!str", "!", "!x", "&a", "*a", "&", "*",
	"---", "...", "--- ", "... ", "---a", "...a", "--- a", "... a", "----", "....", "--", "..",
	"-", "- ", "-a", "- a", "?", "? ", "?a", "? a", ":", ": ", ":a", ": a", "a:", "a: ", "a:b", "a: b", "a :b",
	"#", "# ", "#a", " #", "a#", "a #", "a #b", "a# b",
	"|", ">", "|-", "|+", ">-", "|2", "| a", "> a", "|a",
	"[", "]", "{", "}", ",", "[]", "{}", "[a]", "{a}", "{a: b}", "a,b", "a, b", "a]", "a}", "[a", "{a",
	"'", "\"", "''", "\"\"", "'a'", "\"a\"", "a'b", "a\"b", "'a", "\"a", "a'", "a\"", "\"\"\"", "a\"\"",
	"%", "%YAML 1.2", "%a", "@", "@a", "`", "`a`", "\\", "\\n", "a\\", "\\x41", "\\\\",
	"a", "ab", "a b", "a  b", "A", "é", "日本", "key", "value", "x-y", "x_y", "x.y", "x/y", "http://a.b/c?d=e#f", "a@b.c", "$x", "(a)", "a*b", "a&b", "a!b", "a|b", "a>b", "a%b", "a`b", "<a>", "~a", "a~",
}

var blanks = []string{"", " ", "  ", "   ", "\t", " \t", "\t ", "\n", "\n\n", "\n\n\n", " \n", "\n ", "\t\n", "\n\t", " \n ", "\r", "\r\n", "\n\r"}

var controls = []string{"\x00", "\x01", "\x07", "\x08", "\x0b", "\x0c", "\x0e", "\x1b", "\x1f", "\x7f", "\u0080", "\u0085", "\u009f", "\u00a0", "\u00ad", "\u2028", "\u2029", "\ufeff", "\ufffe", "\uffff", "\ufffd", "\u200b", "\u200e", "\u3000", "\ud7ff", "\ue000", "\u0378"}

var nonBMP = []string{"\U0001F600", "\U00010000", "\U0010FFFF", "\U0001D11E", "\U000E0001", "\U0002000B"}

var indicators = []string{"-", "?", ":", ",", "[", "]", "{", "}", "#", "&", "*", "!", "|", ">", "'", "\"", "%", "@", "`", "\\", "~", "=", "<", ".", "+", "_", "$", "/", ";", "(", ")", "^"}

var fillers = []string{"a", "b", "ab", "x y", "1", "é", " ", "  ", "\t", "\n", "-", ":", "#", "'", "\""}

// genString draws one string.  cls reports the generator class (for the
// distribution printed into evidence).
func genString(r *common.Rng) (s string, cls string) {
	switch k := r.Intn(100); {
	case k < 22:
		return common.Pick(r, implicitWords), "implicit-word"
	case k < 30:
		return common.Pick(r, blanks), "blank-only"
	case k < 42:
		// indicator first / inner / last
		ind := common.Pick(r, indicators)
		f := common.Pick(r, fillers)
		switch r.Intn(5) {
		case 0:
			return ind + f, "indicator-first"
		case 1:
			return f + ind + common.Pick(r, fillers), "indicator-inner"
		case 2:
			return f + ind, "indicator-last"
		case 3:
			return ind + " " + f, "indicator-first"
		default:
			return f + " " + ind + common.Pick(r, fillers), "indicator-inner"
		}
	case k < 50:
		c := common.Pick(r, controls)
		f := common.Pick(r, fillers)
		switch r.Intn(4) {
		case 0:
			return c, "control"
		case 1:
			return c + f, "control"
		case 2:
			return f + c, "control"
		default:
			return f + c + common.Pick(r, implicitWords), "control"
		}
	case k < 54:
		return common.Pick(r, fillers) + common.Pick(r, nonBMP) + common.Pick(r, []string{"", "a", " ", "\n"}), "non-bmp"
	case k < 64:
		// leading / trailing blanks around a word
		w := common.Pick(r, implicitWords)
		switch r.Intn(4) {
		case 0:
			return common.Pick(r, blanks) + w, "leading-blank"
		case 1:
			return w + common.Pick(r, blanks), "trailing-blank"
		case 2:
			return common.Pick(r, blanks) + w + common.Pick(r, blanks), "both-blank"
		default:
			return w + common.Pick(r, blanks) + common.Pick(r, implicitWords), "inner-blank"
		}
	case k < 82:
		// multi-line text: lines from the pool joined by newlines
		n := 1 + r.Intn(4)
		var ls []string
		for i := 0; i <= n; i++ {
			switch r.Intn(8) {
			case 0:
				ls = append(ls, "")
			case 1:
				ls = append(ls, common.Pick(r, []string{" ", "  ", "\t", " a", "  a", "   a", "a ", "a\t", "\ta", " - a", "  # c"}))
			case 2:
				ls = append(ls, common.Pick(r, indicators)+common.Pick(r, fillers))
			default:
				ls = append(ls, common.Pick(r, implicitWords))
			}
		}
		return strings.Join(ls, "\n"), "multi-line"
	case k < 90:
		// concatenation of two words
		return common.Pick(r, implicitWords) + common.Pick(r, implicitWords), "word-concat"
	default:
		// random short string over a small alphabet rich in specials
		const alpha = "ab1-:# \n\t'\"?.0xe+_~<|>[]{},!&*%@`\\=é"
		rs := []rune(alpha)
		n := r.Intn(7)
		var sb strings.Builder
		for i := 0; i < n; i++ {
			sb.WriteRune(rs[r.Intn(len(rs))])
		}
		return sb.String(), "random-short"
	}
}

var intPool = []string{"0", "1", "-1", "7", "42", "-42", "255", "1000", "1000000", "9223372036854775807", "-9223372036854775808", "9223372036854775808", "18446744073709551616", "123456789012345678901234567890", "-123456789012345678901234567890"}
var floatPool = []string{"0.0", "1.0", "-1.0", "1.5", "-1.5", "0.1", "0.5", "100.0", "3.14159", "1e3", "1e+3", "1E3", "1.0e3", "1e-3", "1.5e10", "1e100", "1e-100", "-1e100", "0.000001", "1.0e+100", "123456789.123456789", "1e1000", "2.5e-7", "10.0", "1.10"}

func genScalar(r *common.Rng, dist map[string]int) *T {
	switch k := r.Intn(100); {
	case k < 62:
		s, cls := genString(r)
		dist["str/"+cls]++
		return str(s)
	case k < 74:
		dist["int"]++
		if r.Chance(1, 3) {
			n := int64(r.Next()>>uint(r.Intn(63))) - int64(r.Intn(2000))
			return &T{K: 'i', S: itoa(n)}
		}
		return &T{K: 'i', S: common.Pick(r, intPool)}
	case k < 86:
		dist["float"]++
		return &T{K: 'f', S: common.Pick(r, floatPool)}
	case k < 92:
		dist["bool"]++
		return &T{K: 'b', B: r.Bool()}
	case k < 97:
		dist["null"]++
		return &T{K: 'n'}
	default:
		dist["bytes"]++
		s, _ := genString(r)
		if r.Chance(1, 2) {
			s += "\xff\x00"
		}
		return &T{K: 'y', S: s}
	}
}

func itoa(n int64) string {
	neg := n < 0
	var u uint64
	if neg {
		u = uint64(-n)
	} else {
		u = uint64(n)
	}
	if u == 0 {
		return "0"
	}
	var b []byte
	for u > 0 {
		b = append([]byte{byte('0' + u%10)}, b...)
		u /= 10
	}
	if neg {
		return "-" + string(b)
	}
	return string(b)
}

func genTree(r *common.Rng, depth int, dist map[string]int) *T {
	if depth <= 0 || r.Chance(2, 5) {
		return genScalar(r, dist)
	}
	if r.Chance(2, 5) {
		dist["list"]++
		n := r.Intn(5)
		t := &T{K: 'L'}
		for i := 0; i < n; i++ {
			t.Kids = append(t.Kids, genTree(r, depth-1, dist))
		}
		return t
	}
	dist["map"]++
	n := r.Intn(5)
	t := &T{K: 'M'}
	seen := map[string]bool{}
	for i := 0; i < n; i++ {
		k, cls := genString(r)
		if r.Chance(1, 3) {
			k, cls = common.Pick(r, []string{"a", "b", "key", "x-y", "name", "k1"}), "plain-key"
		}
		if seen[k] {
			continue
		}
		seen[k] = true
		dist["key/"+cls]++
		t.Keys = append(t.Keys, k)
		t.Kids = append(t.Kids, genTree(r, depth-1, dist))
	}
	return t
}

// corpusStrings: witnesses of the theorems and of the known findings, probed in
// every context on every run.
var corpusStrings = []string{
	"\n", "\n\n", "a\n", "a\n\n", "\na", "\n a", "\n a\nb", " a\nb", "a\n b", "a \nb", "a\nb ", "\n\ta", "\n\ta\nb", "\n\t\nb", "a\n\tb",
	"...", "... x", "...a", "....", "---", "--- x", "---a", "a...", "a<<", "<<", "<<a", "a<< ", "?", "? a", "? \n", "? \r", "?a",
	"\u00a0", "#\u00a0", "a: b\u00a0", "\ufeff", "- \ufeff", "\U000e0001 ", "'\u200b",
	"\"\"", "\"\"a", "\"\"#", "a\"\"", "\"",
	"yes", "Yes", "on", "y", "n", "true", "null", "~", ".inf", ".Nan", "1", "1.5", "1e3", "0x1F", "0o7", "017", "08", "1_000", "1:30", "2001-12-14",
	"", " ", "\t", "a b", "a: b", "a #b", "a#b", "-", "- a", "-a", ":", "a:", ":a", "#", "'", "''", "a'b", "\\", "a\\b",
	"\x00", "\x01", "\x7f", "\u0085", "\u2028", "\U0001F600", "é", "\r", "\r\n",
}
