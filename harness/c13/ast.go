package main

import (
	"bytes"
	stdjson "encoding/json"
	"fmt"
	"math/big"
	"sort"
	"strconv"
	"strings"
)

// ---------------------------------------------------------------- JSON values
// J mirrors Schema/Json.v: numbers are halves (H/2), strings are code points.
type J struct {
	K byte // 'n' null, 'b' bool, '#' number, 's' string, 'a' array, 'o' object
	B bool
	H int64
	S []rune
	A []*J
	O []KV
}
type KV struct {
	K []rune
	V *J
}

func jnull() *J           { return &J{K: 'n'} }
func jbool(b bool) *J     { return &J{K: 'b', B: b} }
func jnum(h int64) *J     { return &J{K: '#', H: h} }
func jstr(s string) *J    { return &J{K: 's', S: []rune(s)} }
func jarr(a ...*J) *J     { return &J{K: 'a', A: a} }
func jobj(kv ...KV) *J    { return &J{K: 'o', O: kv} }
func kv(k string, v *J) KV { return KV{[]rune(k), v} }

func halfText(h int64) string {
	if h%2 == 0 {
		return strconv.FormatInt(h/2, 10)
	}
	neg := h < 0
	if neg {
		h = -h
	}
	s := strconv.FormatInt(h/2, 10) + ".5"
	if neg {
		s = "-" + s
	}
	return s
}

func strText(r []rune) string {
	b, err := stdjson.Marshal(string(r))
	if err != nil {
		panic(err)
	}
	return string(b)
}

// Text renders the value as JSON text.
func (j *J) Text() string {
	var b strings.Builder
	j.text(&b)
	return b.String()
}
func (j *J) text(b *strings.Builder) {
	switch j.K {
	case 'n':
		b.WriteString("null")
	case 'b':
		if j.B {
			b.WriteString("true")
		} else {
			b.WriteString("false")
		}
	case '#':
		b.WriteString(halfText(j.H))
	case 's':
		b.WriteString(strText(j.S))
	case 'a':
		b.WriteByte('[')
		for i, x := range j.A {
			if i > 0 {
				b.WriteByte(',')
			}
			x.text(b)
		}
		b.WriteByte(']')
	case 'o':
		b.WriteByte('{')
		for i, kv := range j.O {
			if i > 0 {
				b.WriteByte(',')
			}
			b.WriteString(strText(kv.K))
			b.WriteByte(':')
			kv.V.text(b)
		}
		b.WriteByte('}')
	}
}

func strTok(r []rune) string {
	var b strings.Builder
	b.WriteByte('"')
	for i, c := range r {
		if i > 0 {
			b.WriteByte('.')
		}
		b.WriteString(strconv.FormatInt(int64(c), 16))
	}
	return b.String()
}

// Tok renders the value in the token format of ocaml/c13_driver.ml.
func (j *J) Tok(b *strings.Builder) {
	switch j.K {
	case 'n':
		b.WriteString("n")
	case 'b':
		if j.B {
			b.WriteString("t")
		} else {
			b.WriteString("f")
		}
	case '#':
		b.WriteString("#" + strconv.FormatInt(j.H, 10))
	case 's':
		b.WriteString(strTok(j.S))
	case 'a':
		b.WriteString("[")
		for _, x := range j.A {
			b.WriteByte(' ')
			x.Tok(b)
		}
		b.WriteString(" ]")
	case 'o':
		b.WriteString("{")
		for _, kv := range j.O {
			b.WriteByte(' ')
			b.WriteString(strTok(kv.K))
			b.WriteByte(' ')
			kv.V.Tok(b)
		}
		b.WriteString(" }")
	}
}

// strings collects every string value and key (for the regexp table).
func (j *J) strings(acc map[string]bool) {
	switch j.K {
	case 's':
		acc[string(j.S)] = true
	case 'a':
		for _, x := range j.A {
			x.strings(acc)
		}
	case 'o':
		for _, kv := range j.O {
			acc[string(kv.K)] = true
			kv.V.strings(acc)
		}
	}
}

func (j *J) clone() *J {
	c := *j
	c.S = append([]rune(nil), j.S...)
	c.A = nil
	for _, x := range j.A {
		c.A = append(c.A, x.clone())
	}
	c.O = nil
	for _, kv := range j.O {
		c.O = append(c.O, KV{append([]rune(nil), kv.K...), kv.V.clone()})
	}
	return &c
}

// fromAny converts a decoded JSON document (json.Decoder with UseNumber).
// ok=false: a number that is not a multiple of 1/2 or is too large, or duplicate keys.
func fromAny(x any) (*J, bool) {
	switch x := x.(type) {
	case nil:
		return jnull(), true
	case bool:
		return jbool(x), true
	case stdjson.Number:
		r, ok := new(big.Rat).SetString(string(x))
		if !ok {
			return nil, false
		}
		r.Mul(r, big.NewRat(2, 1))
		if !r.IsInt() || !r.Num().IsInt64() {
			return nil, false
		}
		h := r.Num().Int64()
		if h > 1<<40 || h < -(1<<40) {
			return nil, false
		}
		return jnum(h), true
	case string:
		return jstr(x), true
	case []any:
		j := &J{K: 'a'}
		for _, e := range x {
			v, ok := fromAny(e)
			if !ok {
				return nil, false
			}
			j.A = append(j.A, v)
		}
		return j, true
	case map[string]any:
		j := &J{K: 'o'}
		keys := make([]string, 0, len(x))
		for k := range x {
			keys = append(keys, k)
		}
		sort.Strings(keys)
		for _, k := range keys {
			v, ok := fromAny(x[k])
			if !ok {
				return nil, false
			}
			j.O = append(j.O, KV{[]rune(k), v})
		}
		return j, true
	}
	return nil, false
}

func parseJSON(data []byte) (any, error) {
	d := stdjson.NewDecoder(bytes.NewReader(data))
	d.UseNumber()
	var x any
	if err := d.Decode(&x); err != nil {
		return nil, err
	}
	return x, nil
}

// ---------------------------------------------------------------- schemas
// S mirrors Schema/Sem.v (assertions + applic).  Patterns are regexp source
// strings here; ids are assigned per case when the case line is written.
type PS struct {
	Name string
	S    *S
}
type S struct {
	IsBool bool
	B      bool

	Type                                     []string
	HasType                                  bool
	Enum                                     []*J
	HasEnum                                  bool
	Const                                    *J
	MultipleOf                               *int64
	XMax, XMin, Max, Min                     *int64
	MaxLength, MinLength                     *int
	Pattern                                  *string
	MaxProps, MinProps, MaxItems, MinItems   *int
	Unique                                   *bool
	MaxContains, MinContains                 *int
	Required                                 []string
	HasRequired                              bool
	Ref                                      *S
	// RefMissing: "$ref" to a definition that does not exist (import must fail)
	RefMissing                               bool
	AllOf, AnyOf, OneOf                      []*S
	HasAllOf, HasAnyOf, HasOneOf             bool
	Not, If, Then, Else                      *S
	Props                                    []PS
	HasProps                                 bool
	PProps                                   []PS // Name is the regexp
	HasPProps                                bool
	PNames                                   *S
	Prefix                                   []*S
	HasPrefix                                bool
	Contains, Addl, Items                    *S
}

func sbool(b bool) *S { return &S{IsBool: true, B: b} }

// jsonWriter renders schemas as JSON Schema documents.  defs collects the
// schemas referenced by $ref in document order.  With shuffle != nil the keys
// of every schema object are written in a random order (the importer
// processes the keywords of one phase in document order; validity must not
// depend on it).
type jsonWriter struct {
	defs    []*S
	shuffle func(n int) []int
}

func (w *jsonWriter) refName(s *S) string {
	for i, d := range w.defs {
		if d == s {
			return fmt.Sprintf("d%d", i)
		}
	}
	w.defs = append(w.defs, s)
	return fmt.Sprintf("d%d", len(w.defs)-1)
}

// JSONText renders a root schema as a JSON Schema document.  The key order is
// the processing order assumed by Schema/Encode.v.
func (s *S) JSONText() string {
	w := &jsonWriter{}
	var b strings.Builder
	w.write(&b, s, true)
	return b.String()
}

// JSONTextShuffled is JSONText with a random key order in every schema object.
func (s *S) JSONTextShuffled(perm func(n int) []int) string {
	w := &jsonWriter{shuffle: perm}
	var b strings.Builder
	w.write(&b, s, true)
	return b.String()
}

type entry struct {
	key  string
	emit func(b *strings.Builder)
}

func (w *jsonWriter) write(b *strings.Builder, s *S, root bool) {
	if s.IsBool {
		if s.B {
			b.WriteString("true")
		} else {
			b.WriteString("false")
		}
		return
	}
	var ents []entry
	add := func(k string, f func(b *strings.Builder)) { ents = append(ents, entry{k, f}) }
	list := func(k string, l []*S) {
		add(k, func(b *strings.Builder) {
			b.WriteByte('[')
			for i, x := range l {
				if i > 0 {
					b.WriteByte(',')
				}
				w.write(b, x, false)
			}
			b.WriteByte(']')
		})
	}
	sub := func(k string, x *S) {
		if x != nil {
			add(k, func(b *strings.Builder) { w.write(b, x, false) })
		}
	}
	num := func(k string, p *int) {
		if p != nil {
			add(k, func(b *strings.Builder) { b.WriteString(strconv.Itoa(*p)) })
		}
	}
	half := func(k string, p *int64) {
		if p != nil {
			add(k, func(b *strings.Builder) { b.WriteString(halfText(*p)) })
		}
	}
	props := func(k string, l []PS) {
		add(k, func(b *strings.Builder) {
			b.WriteByte('{')
			for i, p := range l {
				if i > 0 {
					b.WriteByte(',')
				}
				b.WriteString(strText([]rune(p.Name)))
				b.WriteByte(':')
				w.write(b, p.S, false)
			}
			b.WriteByte('}')
		})
	}
	// phase 1
	if s.HasType {
		add("type", func(b *strings.Builder) {
			if len(s.Type) == 1 {
				b.WriteString(strconv.Quote(s.Type[0]))
				return
			}
			b.WriteByte('[')
			for i, t := range s.Type {
				if i > 0 {
					b.WriteByte(',')
				}
				b.WriteString(strconv.Quote(t))
			}
			b.WriteByte(']')
		})
	}
	if s.HasEnum {
		add("enum", func(b *strings.Builder) {
			b.WriteByte('[')
			for i, x := range s.Enum {
				if i > 0 {
					b.WriteByte(',')
				}
				b.WriteString(x.Text())
			}
			b.WriteByte(']')
		})
	}
	if s.Const != nil {
		add("const", func(b *strings.Builder) { b.WriteString(s.Const.Text()) })
	}
	if s.MultipleOf != nil {
		add("multipleOf", func(b *strings.Builder) { b.WriteString(strconv.FormatInt(*s.MultipleOf, 10)) })
	}
	half("exclusiveMaximum", s.XMax)
	half("exclusiveMinimum", s.XMin)
	num("maxLength", s.MaxLength)
	num("minLength", s.MinLength)
	if s.Pattern != nil {
		add("pattern", func(b *strings.Builder) { b.WriteString(strText([]rune(*s.Pattern))) })
	}
	num("maxProperties", s.MaxProps)
	num("minProperties", s.MinProps)
	num("maxItems", s.MaxItems)
	num("minItems", s.MinItems)
	if s.Unique != nil {
		add("uniqueItems", func(b *strings.Builder) { b.WriteString(strconv.FormatBool(*s.Unique)) })
	}
	num("maxContains", s.MaxContains)
	num("minContains", s.MinContains)
	// phase 2
	if s.Ref != nil {
		add("$ref", func(b *strings.Builder) { b.WriteString(strconv.Quote("#/$defs/" + w.refName(s.Ref))) })
	} else if s.RefMissing {
		add("$ref", func(b *strings.Builder) { b.WriteString(strconv.Quote("#/$defs/missing")) })
	}
	if s.HasAllOf {
		list("allOf", s.AllOf)
	}
	if s.HasAnyOf {
		list("anyOf", s.AnyOf)
	}
	if s.HasOneOf {
		list("oneOf", s.OneOf)
	}
	sub("not", s.Not)
	sub("if", s.If)
	sub("then", s.Then)
	sub("else", s.Else)
	if s.HasProps {
		props("properties", s.Props)
	}
	if s.HasPProps {
		props("patternProperties", s.PProps)
	}
	sub("propertyNames", s.PNames)
	if s.HasPrefix {
		list("prefixItems", s.Prefix)
	}
	sub("contains", s.Contains)
	half("maximum", s.Max)
	half("minimum", s.Min)
	// phase 3
	sub("additionalProperties", s.Addl)
	sub("items", s.Items)
	// phase 4
	if s.HasRequired {
		add("required", func(b *strings.Builder) {
			b.WriteByte('[')
			for i, r := range s.Required {
				if i > 0 {
					b.WriteByte(',')
				}
				b.WriteString(strText([]rune(r)))
			}
			b.WriteByte(']')
		})
	}
	if w.shuffle != nil && len(ents) > 1 {
		perm := w.shuffle(len(ents))
		sh := make([]entry, len(ents))
		for i, j := range perm {
			sh[i] = ents[j]
		}
		ents = sh
	}
	b.WriteByte('{')
	for i, e := range ents {
		if i > 0 {
			b.WriteByte(',')
		}
		b.WriteString(strconv.Quote(e.key))
		b.WriteByte(':')
		e.emit(b)
	}
	if root && len(w.defs) > 0 {
		// $defs last; definitions may refer to further definitions
		if len(ents) > 0 {
			b.WriteByte(',')
		}
		b.WriteString(strconv.Quote("$defs"))
		b.WriteString(":{")
		for i := 0; i < len(w.defs); i++ {
			if i > 0 {
				b.WriteByte(',')
			}
			b.WriteString(strconv.Quote(fmt.Sprintf("d%d", i)))
			b.WriteByte(':')
			w.write(b, w.defs[i], false)
		}
		b.WriteByte('}')
	}
	b.WriteByte('}')
}

// patTable assigns ids to the regexps of one case.
type patTable struct {
	ids  map[string]int
	list []string
}

func (t *patTable) id(p string) int {
	if t.ids == nil {
		t.ids = map[string]int{}
	}
	if i, ok := t.ids[p]; ok {
		return i
	}
	t.ids[p] = len(t.list)
	t.list = append(t.list, p)
	return len(t.list) - 1
}

// Tok renders the schema in the token format of the driver, with named
// references: the root, then the table of definitions (`defs [ .. ]`) in an
// order in which every definition refers to later ones only.  The model
// (Schema/Refs.v) checks the table and does the inlining.
func (s *S) Tok(b *strings.Builder, t *patTable) {
	order := defsOrder(s)
	idx := map[*S]int{}
	for i, d := range order {
		idx[d] = i
	}
	s.tok(b, t, idx)
	if len(order) > 0 {
		b.WriteString(" defs [")
		for _, d := range order {
			b.WriteByte(' ')
			d.tok(b, t, idx)
		}
		b.WriteString(" ]")
	}
}

// defsOrder lists the $ref targets reachable from root, reverse DFS post-order.
func defsOrder(root *S) []*S {
	var post []*S
	seen := map[*S]bool{}
	var visit func(s *S)
	visit = func(s *S) {
		s.walkNoRef(func(x *S) {
			if x.Ref != nil && !seen[x.Ref] {
				seen[x.Ref] = true
				visit(x.Ref)
				post = append(post, x.Ref)
			}
		})
	}
	visit(root)
	for i, j := 0, len(post)-1; i < j; i, j = i+1, j-1 {
		post[i], post[j] = post[j], post[i]
	}
	return post
}

func (s *S) tok(b *strings.Builder, t *patTable, idx map[*S]int) {
	if s.IsBool {
		if s.B {
			b.WriteString("T")
		} else {
			b.WriteString("F")
		}
		return
	}
	list := func(k string, l []*S) {
		b.WriteString(" " + k + " [")
		for _, x := range l {
			b.WriteByte(' ')
			x.tok(b, t, idx)
		}
		b.WriteString(" ]")
	}
	sub := func(k string, x *S) {
		if x != nil {
			b.WriteString(" " + k + " ")
			x.tok(b, t, idx)
		}
	}
	num := func(k string, p *int) {
		if p != nil {
			b.WriteString(" " + k + " " + strconv.Itoa(*p))
		}
	}
	half := func(k string, p *int64) {
		if p != nil {
			b.WriteString(" " + k + " #" + strconv.FormatInt(*p, 10))
		}
	}
	b.WriteString("(")
	if s.HasType {
		b.WriteString(" type [")
		for _, x := range s.Type {
			b.WriteString(" " + x)
		}
		b.WriteString(" ]")
	}
	if s.HasEnum {
		b.WriteString(" enum [")
		for _, x := range s.Enum {
			b.WriteByte(' ')
			x.Tok(b)
		}
		b.WriteString(" ]")
	}
	if s.Const != nil {
		b.WriteString(" const ")
		s.Const.Tok(b)
	}
	if s.MultipleOf != nil {
		b.WriteString(" multipleOf " + strconv.FormatInt(*s.MultipleOf, 10))
	}
	half("xmax", s.XMax)
	half("xmin", s.XMin)
	half("max", s.Max)
	half("min", s.Min)
	num("maxLength", s.MaxLength)
	num("minLength", s.MinLength)
	if s.Pattern != nil {
		b.WriteString(" pattern p" + strconv.Itoa(t.id(*s.Pattern)))
	}
	num("maxProps", s.MaxProps)
	num("minProps", s.MinProps)
	num("maxItems", s.MaxItems)
	num("minItems", s.MinItems)
	if s.Unique != nil {
		if *s.Unique {
			b.WriteString(" unique t")
		} else {
			b.WriteString(" unique f")
		}
	}
	num("maxContains", s.MaxContains)
	num("minContains", s.MinContains)
	if s.HasRequired {
		b.WriteString(" required [")
		for _, r := range s.Required {
			b.WriteString(" " + strTok([]rune(r)))
		}
		b.WriteString(" ]")
	}
	if s.Ref != nil {
		b.WriteString(" ref @" + strconv.Itoa(idx[s.Ref]))
	} else if s.RefMissing {
		b.WriteString(" ref @" + strconv.Itoa(len(idx)+7))
	}
	if s.HasAllOf {
		list("allOf", s.AllOf)
	}
	if s.HasAnyOf {
		list("anyOf", s.AnyOf)
	}
	if s.HasOneOf {
		list("oneOf", s.OneOf)
	}
	sub("not", s.Not)
	sub("if", s.If)
	sub("then", s.Then)
	sub("else", s.Else)
	if s.HasProps {
		b.WriteString(" props {")
		for _, p := range s.Props {
			b.WriteString(" " + strTok([]rune(p.Name)) + " ")
			p.S.tok(b, t, idx)
		}
		b.WriteString(" }")
	}
	if s.HasPProps {
		b.WriteString(" pprops {")
		for _, p := range s.PProps {
			b.WriteString(" p" + strconv.Itoa(t.id(p.Name)) + " ")
			p.S.tok(b, t, idx)
		}
		b.WriteString(" }")
	}
	sub("pnames", s.PNames)
	if s.HasPrefix {
		list("prefix", s.Prefix)
	}
	sub("contains", s.Contains)
	sub("addl", s.Addl)
	sub("items", s.Items)
	b.WriteString(" )")
}

// walk visits s and every subschema.
func (s *S) walk(f func(*S)) {
	if s == nil {
		return
	}
	f(s)
	for _, x := range []*S{s.Ref, s.Not, s.If, s.Then, s.Else, s.PNames, s.Contains, s.Addl, s.Items} {
		x.walk(f)
	}
	for _, l := range [][]*S{s.AllOf, s.AnyOf, s.OneOf, s.Prefix} {
		for _, x := range l {
			x.walk(f)
		}
	}
	for _, p := range s.Props {
		p.S.walk(f)
	}
	for _, p := range s.PProps {
		p.S.walk(f)
	}
}

// walkNoRef visits s and every subschema without following $ref.
func (s *S) walkNoRef(f func(*S)) {
	if s == nil {
		return
	}
	f(s)
	for _, x := range []*S{s.Not, s.If, s.Then, s.Else, s.PNames, s.Contains, s.Addl, s.Items} {
		x.walkNoRef(f)
	}
	for _, l := range [][]*S{s.AllOf, s.AnyOf, s.OneOf, s.Prefix} {
		for _, x := range l {
			x.walkNoRef(f)
		}
	}
	for _, p := range s.Props {
		p.S.walkNoRef(f)
	}
	for _, p := range s.PProps {
		p.S.walkNoRef(f)
	}
}
