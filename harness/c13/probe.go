package main

import (
	"bufio"
	"fmt"
	"os"
	"strings"

	"cuelang.org/go/cue"
	"cuelang.org/go/cue/cuecontext"
	"cuelang.org/go/cue/errors"
	"cuelang.org/go/cue/format"
	"cuelang.org/go/encoding/json"
	"cuelang.org/go/encoding/jsonschema"
)

// probe mode: lines "S <schema json>" set the current schema (prints the CUE),
// lines "I <instance json>" print the verdict of the current schema.
func probe(path string) {
	f, err := os.Open(path)
	if err != nil {
		panic(err)
	}
	sc := bufio.NewScanner(f)
	sc.Buffer(make([]byte, 1<<20), 1<<26)
	ctx := cuecontext.New()
	var schema cue.Value
	var ok bool
	for sc.Scan() {
		line := sc.Text()
		switch {
		case strings.HasPrefix(line, "S "):
			ok = false
			src := line[2:]
			fmt.Printf("SCHEMA %s\n", src)
			jast, err := json.Extract("schema.json", []byte(src))
			if err != nil {
				fmt.Printf("  bad json: %v\n", err)
				continue
			}
			jv := ctx.BuildExpr(jast)
			file, err := jsonschema.Extract(jv, &jsonschema.Config{StrictFeatures: true})
			if err != nil {
				fmt.Printf("  EXTRACT-ERROR: %v\n", errors.Details(err, nil))
				continue
			}
			b, err := format.Node(file, format.Simplify())
			if err != nil {
				fmt.Printf("  FORMAT-ERROR: %v\n", err)
				continue
			}
			fmt.Printf("  CUE: %s\n", strings.ReplaceAll(strings.TrimSpace(string(b)), "\n", "\n       "))
			schema = ctx.CompileBytes(b, cue.Filename("generated.cue"))
			if err := schema.Err(); err != nil {
				fmt.Printf("  COMPILE-ERROR: %v\n", err)
				if os.Getenv("C13_ERRCHECK") != "" {
					continue
				}
			}
			ok = true
			// reverse direction
			gen, err := jsonschema.Generate(schema, &jsonschema.GenerateConfig{Version: jsonschema.VersionDraft2020_12})
			if err != nil {
				fmt.Printf("  GENERATE-ERROR: %v\n", err)
			} else {
				gb, _ := format.Node(gen)
				gv := ctx.BuildExpr(gen)
				jb, err := gv.MarshalJSON()
				if err != nil {
					fmt.Printf("  GEN(cue): %s\n", gb)
				} else {
					fmt.Printf("  GEN: %s\n", jb)
				}
			}
		case strings.HasPrefix(line, "I "):
			if !ok {
				continue
			}
			iast, err := json.Extract("instance.json", []byte(line[2:]))
			if err != nil {
				fmt.Printf("  bad instance: %v\n", err)
				continue
			}
			iv := ctx.BuildExpr(iast)
			err = iv.Unify(schema).Validate(cue.Concrete(true))
			if err == nil {
				fmt.Printf("  %-30s VALID\n", line[2:])
			} else {
				fmt.Printf("  %-30s INVALID (%s)\n", line[2:], strings.Split(err.Error(), "\n")[0])
			}
		}
	}
}
