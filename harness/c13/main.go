// C13 harness: JSON Schema import (jsonschema.Extract) and export
// (jsonschema.Generate) of the working tree, against the extracted Coq model.
//
// Output: cases.txt / impl.txt, one line each per case.
//   case line:  <tag> <schema tokens> TAB <regexp table> TAB <instances>      (see ocaml/c13_driver.ml)
//   impl line:  F-cases  "X" (jsonschema.Extract failed), "C <bits>" (the generated file has
//                        Value.Err() != nil; verdicts per instance), "S <bits>" (verdict per instance)
//               R-cases  "S <bits>"  verdicts of the imported CUE, to be compared with
//                        valid(schema generated back, instance)
//               T-cases  "S <bits>"  expected verdicts recorded in the vendored test-suite
// info.txt carries the JSON text of every case (for replays and samples).
package main

import (
	"bufio"
	"bytes"
	stdjson "encoding/json"
	"fmt"
	"os"
	"path/filepath"
	"regexp"
	"sort"
	"strconv"
	"strings"

	"cuelang.org/go/cue"
	"cuelang.org/go/cue/cuecontext"
	"cuelang.org/go/cue/format"
	"cuelang.org/go/encoding/json"
	"cuelang.org/go/encoding/jsonschema"
	"cuelang.org/go/internal/verifharness/common"
)

type runner struct {
	out   *common.Out
	info  *bufio.Writer
	ctx   *cue.Context
	nctx  int
	stats map[string]int
}

func (r *runner) context() *cue.Context {
	// a fresh context now and then keeps memory bounded
	if r.ctx == nil || r.nctx > 400 {
		r.ctx = cuecontext.New()
		r.nctx = 0
	}
	r.nctx++
	return r.ctx
}

// caseLine renders tag, schema, table and instances.
func caseLine(tag string, s *S, insts []*J) string {
	var b strings.Builder
	t := &patTable{}
	b.WriteString(tag + " ")
	s.Tok(&b, t)
	b.WriteByte('\t')
	strs := map[string]bool{}
	for _, j := range insts {
		j.strings(strs)
	}
	keys := make([]string, 0, len(strs))
	for k := range strs {
		keys = append(keys, k)
	}
	sort.Strings(keys)
	first := true
	for id, p := range t.list {
		re := regexp.MustCompile(p)
		for _, k := range keys {
			if !first {
				b.WriteByte(' ')
			}
			first = false
			v := "0"
			if re.MatchString(k) {
				v = "1"
			}
			fmt.Fprintf(&b, "p%d:%s:%s", id, strTok([]rune(k)), v)
		}
	}
	b.WriteByte('\t')
	for i, j := range insts {
		if i > 0 {
			b.WriteString(" ; ")
		}
		j.Tok(&b)
	}
	return b.String()
}

// importSchema runs jsonschema.Extract and compiles the result the way the
// repository's own external test does (format to bytes, compile).
func (r *runner) importSchema(ctx *cue.Context, text string) (v cue.Value, fail string) {
	defer func() {
		if e := recover(); e != nil {
			v, fail = cue.Value{}, "panic:"+panicClass(e)
		}
	}()
	jast, err := json.Extract("schema.json", []byte(text))
	if err != nil {
		return cue.Value{}, "badjson"
	}
	jv := ctx.BuildExpr(jast)
	if jv.Err() != nil {
		return cue.Value{}, "badjson"
	}
	file, err := jsonschema.Extract(jv, &jsonschema.Config{StrictFeatures: true})
	if err != nil {
		return cue.Value{}, "extract"
	}
	if os.Getenv("C13_VIA_TEXT") != "" {
		// the route of `cue import`: print the file and compile the text
		b, err := format.Node(file, format.Simplify())
		if err != nil {
			return cue.Value{}, "format"
		}
		v = ctx.CompileBytes(b, cue.Filename("generated.cue"))
		if v.Err() != nil {
			return v, "compile"
		}
		return v, ""
	}
	v = ctx.BuildFile(file)
	if v.Err() != nil {
		// Value.Err() of the schema alone.  The verdicts are still computed:
		// some validators (struct.MinFields) fail on the schema's own
		// incomplete struct although instances can satisfy it.
		return v, "compile"
	}
	return v, ""
}

func verdicts(ctx *cue.Context, schema cue.Value, insts []*J) string {
	var b strings.Builder
	for _, j := range insts {
		iast, err := json.Extract("instance.json", []byte(j.Text()))
		if err != nil {
			b.WriteByte('?')
			continue
		}
		iv := ctx.BuildExpr(iast)
		b.WriteByte(verdict(iv, schema))
	}
	return b.String()
}

// panicClass: "known" for the crash of the pinned tree in
// adt.(*nodeContext).disjunctError (an errors.Error that is not a *ValueError),
// "other" for anything else.
func panicClass(e any) string {
	if strings.Contains(fmt.Sprint(e), "errors.Error is *errors.wrapped, not *adt.ValueError") {
		return "known"
	}
	return "other"
}

// verdict: '1' valid, '0' invalid, 'P' the evaluator panicked (the known crash), 'Q' another panic.
func verdict(iv, schema cue.Value) (res byte) {
	defer func() {
		if e := recover(); e != nil {
			if os.Getenv("C13_DEBUG") != "" {
				fmt.Fprintf(os.Stderr, "panic: %v\n", e)
			}
			res = 'P'
			if panicClass(e) != "known" {
				res = 'Q'
			}
		}
	}()
	if iv.Unify(schema).Validate(cue.Concrete(true)) == nil {
		return '1'
	}
	return '0'
}

func (r *runner) emit(line, impl, info string) {
	r.out.Emit(line, impl)
	fmt.Fprintln(r.info, info)
}

func instText(insts []*J) string {
	parts := make([]string, len(insts))
	for i, j := range insts {
		parts[i] = j.Text()
	}
	return "[" + strings.Join(parts, ",") + "]"
}

// runPermuted: the same schema with the keys of every schema object in a random
// order (tag O).  The importer processes the keywords of one phase in document
// order; the verdicts must not depend on it, so they are compared with `valid`.
func (r *runner) runPermuted(s *S, text string, insts []*J) {
	ctx := r.context()
	v, fail := r.importSchema(ctx, text)
	line := caseLine("O", s, insts)
	info := fmt.Sprintf(`{"schema":%s,"text":%s,"instances":%s}`, s.JSONText(), strconv.Quote(text), instText(insts))
	r.stats["permuted-key-order-cases"]++
	switch {
	case strings.HasPrefix(fail, "panic:"):
		r.emit(line, "P "+strings.TrimPrefix(fail, "panic:"), info)
	case fail != "" && fail != "compile":
		r.emit(line, "X", info)
	case fail == "compile":
		r.emit(line, "C "+verdicts(ctx, v, insts), info)
	default:
		r.emit(line, "S "+verdicts(ctx, v, insts), info)
	}
}

func permOf(rng *common.Rng) func(n int) []int {
	return func(n int) []int {
		p := make([]int, n)
		for i := range p {
			p[i] = i
		}
		common.Shuffle(rng, p)
		return p
	}
}

// runCase: forward direction, then the reverse direction on the same instances.
func (r *runner) runCase(s *S, insts []*J, reverse bool) {
	ctx := r.context()
	text := s.JSONText()
	v, fail := r.importSchema(ctx, text)
	line := caseLine("F", s, insts)
	info := fmt.Sprintf(`{"schema":%s,"instances":%s}`, text, instText(insts))
	if fail != "" {
		r.stats["import-"+fail]++
	}
	if strings.HasPrefix(fail, "panic:") {
		r.emit(line, "P "+strings.TrimPrefix(fail, "panic:"), info)
		return
	}
	if fail != "" && fail != "compile" {
		r.emit(line, "X", info)
		return
	}
	bits := verdicts(ctx, v, insts)
	if fail == "compile" {
		r.emit(line, "C "+bits, info)
	} else {
		r.emit(line, "S "+bits, info)
	}
	if !reverse {
		return
	}
	// reverse direction
	jb, gfail := generateBack(ctx, v)
	if gfail != "" {
		r.stats["generate-"+gfail]++
		return
	}
	s2, err := convertSchema(jb, map[string]bool{"$schema": true})
	if err != nil {
		r.stats["generate-outside-subset"]++
		if os.Getenv("C13_DEBUG") != "" {
			fmt.Fprintf(os.Stderr, "outside: %v: %s\n", err, jb)
		}
		return
	}
	r.stats["generate-ok"]++
	r.emit(caseLine("R", s2, insts), "S "+bits,
		fmt.Sprintf(`{"schema":%s,"generated":%s,"instances":%s}`, text, jb, instText(insts)))
}

func generateBack(ctx *cue.Context, v cue.Value) (jb []byte, fail string) {
	defer func() {
		if e := recover(); e != nil {
			jb, fail = nil, "panic-"+panicClass(e)
		}
	}()
	gen, err := jsonschema.Generate(v, &jsonschema.GenerateConfig{Version: jsonschema.VersionDraft2020_12})
	if err != nil {
		return nil, "error"
	}
	gv := ctx.BuildExpr(gen)
	jb, err = gv.MarshalJSON()
	if err != nil {
		return nil, "notjson"
	}
	return jb, ""
}

// ---------------------------------------------------------------- test-suite
type suiteTest struct {
	Description string             `json:"description"`
	Data        stdjson.RawMessage `json:"data"`
	Valid       bool               `json:"valid"`
}
type suiteSchema struct {
	Description string             `json:"description"`
	Schema      stdjson.RawMessage `json:"schema"`
	Tests       []suiteTest        `json:"tests"`
}

func (r *runner) runSuite(dir string) {
	files, _ := filepath.Glob(filepath.Join(dir, "*.json"))
	sort.Strings(files)
	for _, f := range files {
		data, err := os.ReadFile(f)
		if err != nil {
			continue
		}
		var schemas []suiteSchema
		if err := stdjson.Unmarshal(data, &schemas); err != nil {
			r.stats["suite-unreadable-file"]++
			continue
		}
		for _, sc := range schemas {
			r.stats["suite-schemas"]++
			s, err := convertSchema(sc.Schema, suiteAnnotations)
			if err != nil {
				r.stats["suite-schemas-outside-subset"]++
				continue
			}
			var insts []*J
			var want strings.Builder
			for _, t := range sc.Tests {
				x, err := parseJSON(t.Data)
				if err != nil {
					continue
				}
				j, ok := fromAny(x)
				if !ok {
					r.stats["suite-instances-outside-model"]++
					continue
				}
				insts = append(insts, j)
				if t.Valid {
					want.WriteByte('1')
				} else {
					want.WriteByte('0')
				}
			}
			if len(insts) == 0 {
				continue
			}
			r.stats["suite-schemas-in-subset"]++
			r.stats["suite-tests-in-subset"] += len(insts)
			var compact bytes.Buffer
			_ = stdjson.Compact(&compact, sc.Schema)
			r.emit(caseLine("T", s, insts), "S "+want.String(),
				fmt.Sprintf(`{"file":%q,"description":%q,"schema":%s,"instances":%s}`,
					filepath.Base(f), sc.Description, compact.String(), instText(insts)))
		}
	}
}

func main() {
	args := common.Args(os.Args[1:])
	if p, ok := args["--probe"]; ok {
		probe(p)
		return
	}
	dir := args["--out"]
	if dir == "" {
		dir = "."
	}
	seed := uint64(common.Atoi(args["--seed"], 1))
	out := common.NewOut(dir)
	fi, err := os.Create(filepath.Join(dir, "info.txt"))
	if err != nil {
		panic(err)
	}
	r := &runner{out: out, info: bufio.NewWriterSize(fi, 1<<20), stats: map[string]int{}}
	defer func() {
		out.Close()
		r.info.Flush()
		fi.Close()
		keys := make([]string, 0, len(r.stats))
		for k := range r.stats {
			keys = append(keys, k)
		}
		sort.Strings(keys)
		sf, _ := os.Create(filepath.Join(dir, "stats.txt"))
		for _, k := range keys {
			fmt.Fprintf(sf, "%s %d\n", k, r.stats[k])
		}
		sf.Close()
	}()

	if p, ok := args["--replay-cases"]; ok {
		// each line: {"schema":..., "instances":[...]}
		data, err := os.ReadFile(p)
		if err != nil {
			panic(err)
		}
		for _, line := range strings.Split(string(data), "\n") {
			if strings.TrimSpace(line) == "" {
				continue
			}
			var rc struct {
				Schema    stdjson.RawMessage   `json:"schema"`
				Instances []stdjson.RawMessage `json:"instances"`
				Text      string               `json:"text"`
			}
			if err := stdjson.Unmarshal([]byte(line), &rc); err != nil {
				panic(err)
			}
			s, err := convertSchema(rc.Schema, map[string]bool{})
			if err != nil {
				panic(fmt.Sprintf("replay schema outside the subset: %v", err))
			}
			var insts []*J
			for _, raw := range rc.Instances {
				x, err := parseJSON(raw)
				if err != nil {
					panic(err)
				}
				j, ok := fromAny(x)
				if !ok {
					panic("replay instance outside the model")
				}
				insts = append(insts, j)
			}
			r.runCase(s, insts, true)
			if rc.Text != "" {
				r.runPermuted(s, rc.Text, insts)
			}
		}
		return
	}

	if d, ok := args["--suite"]; ok {
		r.runSuite(d)
	}
	if c, ok := args["--corpus"]; ok {
		runCorpus(r, c)
	}

	n := common.Atoi(args["--n"], 1000)
	ninst := common.Atoi(args["--ninst"], 8)
	rng := common.NewRng(seed)
	for i := 0; i < n; i++ {
		g := &gen{r: rng.Fork()}
		// 1 in 5 schemas may contain a known-deviation construct; 1 in 25 is an error schema
		g.deviate = g.r.Chance(1, 5)
		d := 1 + g.r.Intn(3)
		var s *S
		isRefDoc := false
		if g.r.Chance(1, 25) {
			s = g.errorSchema(d)
			r.stats["gen-error-schemas"]++
		} else {
			s = g.schema(d, posRoot)
			if g.r.Chance(1, 8) && g.refDoc(s, d) {
				isRefDoc = true
				r.stats["gen-ref-docs"]++
				r.stats[fmt.Sprintf("gen-ref-docs-defs-%d", len(defsOrder(s)))]++
			}
		}
		if g.deviate {
			r.stats["gen-deviate-mode"]++
		}
		r.stats[fmt.Sprintf("gen-depth-%d", d)]++
		s.walk(func(x *S) { countKeywords(r.stats, x) })
		insts := g.instances(s, ninst)
		for _, j := range insts {
			r.stats["inst-kind-"+string(j.K)]++
		}
		r.runCase(s, insts, true)
		// documents with a grafted definition table stay out of the permuted-key-order stream: whether an
		// unsatisfiable definition turns the imported file into an error value as a whole was seen to depend on
		// the key order inside the definition (thorough seed 1, replays/C13-1-*.json; not triaged yet, DESIGN 10.9)
		if !s.IsBool && !isRefDoc {
			r.runPermuted(s, s.JSONTextShuffled(permOf(g.r)), insts)
		}
	}
}

// countKeywords records the keyword mix of the generated schemas (evidence).
func countKeywords(st map[string]int, x *S) {
	if x.IsBool {
		if x.B {
			st["kw-true"]++
		} else {
			st["kw-false"]++
		}
		return
	}
	st["kw-schema-objects"]++
	add := func(c bool, k string) {
		if c {
			st["kw-"+k]++
		}
	}
	add(x.HasType, "type")
	add(x.HasEnum, "enum")
	add(x.Const != nil, "const")
	add(x.MultipleOf != nil, "multipleOf")
	add(x.Min != nil || x.Max != nil || x.XMin != nil || x.XMax != nil, "numeric-bounds")
	add(x.MinLength != nil || x.MaxLength != nil, "min/maxLength")
	add(x.Pattern != nil, "pattern")
	add(x.MinProps != nil || x.MaxProps != nil, "min/maxProperties")
	add(x.MinItems != nil || x.MaxItems != nil, "min/maxItems")
	add(x.Unique != nil, "uniqueItems")
	add(x.HasRequired, "required")
	add(x.Ref != nil, "$ref")
	add(x.HasAllOf, "allOf")
	add(x.HasAnyOf, "anyOf")
	add(x.HasOneOf, "oneOf")
	add(x.Not != nil, "not")
	add(x.If != nil, "if")
	add(x.HasProps, "properties")
	add(x.HasPProps, "patternProperties")
	add(x.PNames != nil, "propertyNames")
	add(x.HasPrefix, "prefixItems")
	add(x.Contains != nil, "contains")
	add(x.Addl != nil, "additionalProperties")
	add(x.Items != nil, "items")
}

// runCorpus replays the hand-written regression cases: one JSON object per line.
func runCorpus(r *runner, path string) {
	data, err := os.ReadFile(path)
	if err != nil {
		return
	}
	for _, line := range strings.Split(string(data), "\n") {
		line = strings.TrimSpace(line)
		if line == "" || strings.HasPrefix(line, "//") {
			continue
		}
		var rc struct {
			Schema    stdjson.RawMessage   `json:"schema"`
			Instances []stdjson.RawMessage `json:"instances"`
		}
		if err := stdjson.Unmarshal([]byte(line), &rc); err != nil {
			panic(fmt.Sprintf("corpus: %v: %s", err, line))
		}
		s, err := convertSchema(rc.Schema, map[string]bool{})
		if err != nil {
			panic(fmt.Sprintf("corpus schema outside the subset: %v: %s", err, line))
		}
		var insts []*J
		for _, raw := range rc.Instances {
			x, err := parseJSON(raw)
			if err != nil {
				panic(err)
			}
			j, ok := fromAny(x)
			if !ok {
				panic("corpus instance outside the model")
			}
			insts = append(insts, j)
		}
		r.stats["corpus-cases"]++
		r.runCase(s, insts, true)
		if !s.IsBool {
			prng := common.NewRng(uint64(r.stats["corpus-cases"]))
			for k := 0; k < 4; k++ {
				r.runPermuted(s, s.JSONTextShuffled(permOf(prng)), insts)
			}
		}
	}
}
