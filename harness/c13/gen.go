package main

import (
	"cuelang.org/go/internal/verifharness/common"
)

// Schema and instance generators.  The schema generator stays inside the
// domain on which Schema/Encode.v was validated against the pinned tree:
//   - numbers are small multiples of 1/2, written without exponent or ".0"
//   - `false` only where the importer treats it as an ordinary schema
//     (properties, patternProperties, additionalProperties, items, prefixItems,
//     anyOf, oneOf, not, and - as the known deviation - allOf), at the root,
//     or as if/then/else of the ROOT schema (both are import-time errors)
//   - propertyNames gets a flat subschema
//   - regexps come from a small pool that Go's regexp accepts
// Schemas are depth <= 3.

type pos int

const (
	posRoot pos = iota
	posAllOf
	posAnyOf
	posOneOf
	posNot
	posIf
	posThen
	posElse
	posProp
	posPProp
	posPNames
	posPrefix
	posContains
	posAddl
	posItems
	posRef
)

var namePool = []string{"a", "b", "c", "ab", "b1", "x"}
var strPool = []string{"", "a", "b", "ab", "abc", "bcb", "xyz", "aé", "ééé", "a1", "cab"}
var patPool = []string{"^a", "b$", "^[a-c]+$", "b", "^.{2}$", "^x", "[0-9]"}
var typePool = []string{"null", "boolean", "integer", "number", "string", "array", "object"}

type gen struct {
	r *common.Rng
	// chain is true while generating the root schema or a member of an
	// allOf/anyOf/oneOf that is itself on the chain: such a member may be
	// hoisted into the root expression of the generated CUE file.
	chain bool
	// member: on the chain, but not the root itself
	member bool
	// noClose: inside the value of a pattern constraint (patternProperties,
	// schema-valued additionalProperties) or of a property that a sibling
	// pattern may also match.  The evaluator of the pinned tree loses the
	// closedness of close({..}) there (observed; design/C13.md), so the
	// generator keeps additionalProperties:false and object constants out.
	noClose bool
	// noUnique: below `contains`.  list.MatchN(.., list.UniqueItems()) of the
	// pinned tree does not see duplicate list/struct items (observed:
	// {"contains":{"type":["string","array"],"uniqueItems":true}} counts
	// [[3],[3]]), so uniqueItems is kept out of that subtree.
	noUnique bool
	// deviate enables the constructs outside the fragment of the theorem
	// (known deviations of the importer) with a small probability.
	deviate bool
	// errors enables import-time error constructs.
	errors bool
}

func ip(n int) *int       { return &n }
func i64p(n int64) *int64 { return &n }

func (g *gen) name() string {
	if g.deviate && g.r.Chance(1, 40) {
		return ""
	}
	return common.Pick(g.r, namePool)
}

func (g *gen) half() int64 { return int64(g.r.Intn(25) - 6) }

func (g *gen) scalar() *J {
	switch g.r.Intn(6) {
	case 0:
		return jnull()
	case 1:
		return jbool(g.r.Bool())
	case 2, 3:
		return jnum(g.half())
	default:
		return jstr(common.Pick(g.r, strPool))
	}
}

func (g *gen) value(d int) *J {
	if d <= 0 || g.r.Chance(3, 5) {
		return g.scalar()
	}
	if g.r.Bool() {
		n := g.r.Intn(4)
		a := &J{K: 'a'}
		for i := 0; i < n; i++ {
			a.A = append(a.A, g.value(d-1))
		}
		return a
	}
	o := &J{K: 'o'}
	for _, k := range g.distinctNames(g.r.Intn(3)) {
		o.O = append(o.O, kv(k, g.value(d-1)))
	}
	return o
}

// constValue: a value for const/enum.  A top-level object is excluded: the
// evaluator of the pinned tree loses the closedness of close({..}) when it is
// unified with an open struct from a sibling keyword (observed; recorded in
// design/C13.md), which is outside what Schema/Encode.v models.
func (g *gen) constValue(d int) *J {
	for {
		v := g.value(d)
		// objects inside const/enum become close({..}) literals; next to any
		// open struct reached by a sibling keyword (items, properties, a
		// hoisted member) their closedness is lost by the evaluator (C13-F13),
		// also below arrays - which Encode.v does not track.  Keep them out.
		if hasObject(v) {
			continue
		}
		return v
	}
}

func hasObject(v *J) bool {
	if v.K == 'o' {
		return true
	}
	for _, x := range v.A {
		if hasObject(x) {
			return true
		}
	}
	return false
}

func (g *gen) distinctNames(n int) []string {
	seen := map[string]bool{}
	var out []string
	for i := 0; i < n*3 && len(out) < n; i++ {
		k := g.name()
		if !seen[k] {
			seen[k] = true
			out = append(out, k)
		}
	}
	return out
}

func (g *gen) falseOK(p pos) bool {
	switch p {
	case posProp, posPProp, posAddl, posItems, posPrefix, posAnyOf, posOneOf, posNot:
		return true
	case posAllOf:
		return g.deviate
	}
	return false
}

// schema generates a schema of depth <= d for position p.
func (g *gen) schema(d int, p pos) *S {
	savedNC, savedNU := g.noClose, g.noUnique
	if p == posPProp || p == posAddl {
		g.noClose = true
	}
	if p == posContains {
		g.noUnique = true
	}
	defer func() { g.noClose, g.noUnique = savedNC, savedNU }()
	saved, savedM := g.chain, g.member
	switch p {
	case posRoot:
		g.chain, g.member = true, false
	case posAllOf, posAnyOf, posOneOf:
		g.member = g.chain
	default:
		g.chain, g.member = false, false
	}
	defer func() { g.chain, g.member = saved, savedM }()
	if p == posPNames {
		return g.nameSchema()
	}
	if p == posIf || p == posThen || p == posElse || p == posContains {
		return g.argSchema(d)
	}
	if p == posRef {
		t := g.argSchema(d)
		if saved && !t.IsBool {
			// A reference on the root chain becomes `#name` embedded at the file
			// root, which closes the root struct: an object alternative without
			// `...` (only struct.MinFields/MaxFields) then rejects every field
			// (observed; design/C13.md).  Keep such targets off the root chain.
			t.MinProps, t.MaxProps = nil, nil
		}
		return t
	}
	if g.r.Chance(1, 14) {
		if g.falseOK(p) && g.r.Chance(2, 5) {
			return sbool(false)
		}
		return sbool(true)
	}
	s := &S{}
	n := 1 + g.r.Intn(3)
	if g.r.Chance(1, 12) {
		n = 0
	}
	for i := 0; i < n; i++ {
		g.addKeyword(s, d, p)
	}
	g.normalize(s)
	return s
}

// normalize keeps one schema object free of the combinations whose CUE
// encoding is decided by the evaluator's treatment of the schema VALUE rather
// than by the importer (see design/C13.md, "generator domain"):
//   - contradictory bounds inside one object (CUE reports them when the
//     schema itself is evaluated),
//   - close({..}) next to a hoisted combinator member / reference on the root
//     chain (the closedness is lost at the root of a file).
func (g *gen) normalize(s *S) {
	lo, hi := int64(-1000), int64(1000)
	for _, p := range []*int64{s.Min, s.XMin} {
		if p != nil && *p > lo {
			lo = *p
		}
	}
	for _, p := range []*int64{s.Max, s.XMax} {
		if p != nil && *p < hi {
			hi = *p
		}
	}
	if lo+4 > hi {
		// keep only the lower bounds
		s.Max, s.XMax = nil, nil
	}
	ord := func(a, b *int) {
		if a != nil && b != nil && *a > *b {
			*a, *b = *b, *a
		}
	}
	ord(s.MinLength, s.MaxLength)
	ord(s.MinItems, s.MaxItems)
	ord(s.MinProps, s.MaxProps)
	ord(s.MinContains, s.MaxContains)
	if s.Const != nil || s.HasEnum {
		s.MinProps = nil
	}
	if g.noClose {
		if s.Addl != nil && s.Addl.IsBool && !s.Addl.B {
			s.Addl = nil
		}
	}
	if g.noUnique {
		s.Unique = nil
	}
	// A single allOf/anyOf/oneOf member and a $ref are hoisted into a conjunction with
	// the other keywords of this object.  Where the two sides constrain the same nested
	// position (items, a property) with a closed struct on one side and an open one on
	// the other, the evaluator loses the closedness (C13-F13); Encode.v only tracks this
	// at the top level of the conjuncts, so closed structs are kept out of such objects.
	if len(s.AllOf) == 1 || len(s.AnyOf) == 1 || len(s.OneOf) == 1 || s.Ref != nil {
		s.walk(func(x *S) {
			if !x.IsBool && x.Addl != nil && x.Addl.IsBool && !x.Addl.B {
				x.Addl = nil
			}
		})
	}
	if g.chain {
		// `#name` embedded at the file root closes the root value (structs and
		// lists); keep references below properties/items/not/...
		s.Ref = nil
		if s.Addl != nil && s.Addl.IsBool && !s.Addl.B {
			if g.member {
				// a closed member may be hoisted next to an open struct of the root
				s.Addl = nil
			} else {
				s.HasAllOf, s.AllOf = false, nil
				s.HasAnyOf, s.AnyOf = false, nil
				s.HasOneOf, s.OneOf = false, nil
			}
		}
	}
}

// argSchema: schemas for if/then/else/contains and for $ref targets.  Their
// CUE expression is an argument of matchIf / list.MatchN (evaluated when the
// call is built; a statically empty argument makes the call fail for every
// instance) or a definition at the root of the generated file (a statically
// empty definition makes the file an error).  The
// generator therefore keeps these arguments free of const/enum and of hoisted
// combinator members; anything may appear below properties/items/not.
func (g *gen) argSchema(d int) *S {
	if g.r.Chance(1, 12) {
		return sbool(true)
	}
	s := &S{}
	n := 1 + g.r.Intn(2)
	for i := 0; i < n; i++ {
		for tries := 0; tries < 20; tries++ {
			t := &S{}
			g.addKeyword(t, d, posProp)
			if t.HasEnum || t.Const != nil || t.HasAllOf || t.HasAnyOf || t.HasOneOf || t.Ref != nil || t.If != nil ||
				t.Contains != nil || t.PNames != nil || t.HasPrefix || t.Not != nil || t.MinProps != nil {
				continue
			}
			mergeInto(s, t)
			break
		}
	}
	g.normalize(s)
	return s
}

// mergeInto copies the keywords set in t into s.
func mergeInto(s, t *S) {
	if t.HasType {
		s.HasType, s.Type = true, t.Type
	}
	cpI64 := func(dst **int64, src *int64) {
		if src != nil {
			*dst = src
		}
	}
	cpI := func(dst **int, src *int) {
		if src != nil {
			*dst = src
		}
	}
	cpI64(&s.MultipleOf, t.MultipleOf)
	cpI64(&s.XMax, t.XMax)
	cpI64(&s.XMin, t.XMin)
	cpI64(&s.Max, t.Max)
	cpI64(&s.Min, t.Min)
	cpI(&s.MaxLength, t.MaxLength)
	cpI(&s.MinLength, t.MinLength)
	if t.Pattern != nil {
		s.Pattern = t.Pattern
	}
	cpI(&s.MaxProps, t.MaxProps)
	cpI(&s.MinProps, t.MinProps)
	cpI(&s.MaxItems, t.MaxItems)
	cpI(&s.MinItems, t.MinItems)
	if t.Unique != nil {
		s.Unique = t.Unique
	}
	if t.HasRequired {
		s.HasRequired, s.Required = true, t.Required
	}
	if t.Not != nil {
		s.Not = t.Not
	}
	if t.HasProps {
		s.HasProps, s.Props = true, t.Props
	}
	if t.HasPProps {
		s.HasPProps, s.PProps = true, t.PProps
	}
	if t.Addl != nil {
		s.Addl = t.Addl
	}
	if t.Items != nil {
		s.Items = t.Items
	}
}

// nameSchema: flat schemas for propertyNames.
func (g *gen) nameSchema() *S {
	s := &S{}
	switch g.r.Intn(7) {
	case 0:
		return sbool(true)
	case 1:
		return s
	case 2:
		s.HasType, s.Type = true, []string{"string"}
	case 3:
		s.Pattern = &patPool[g.r.Intn(len(patPool))]
	case 4:
		s.HasEnum = true
		for _, k := range g.distinctNames(1 + g.r.Intn(2)) {
			s.Enum = append(s.Enum, jstr(k))
		}
	case 5:
		s.Const = jstr(g.name())
	case 6:
		s.Pattern = &patPool[g.r.Intn(len(patPool))]
		s.HasType, s.Type = true, []string{"string"}
	}
	return s
}

func (g *gen) subs(d int, p pos, min int) []*S {
	n := min + g.r.Intn(3)
	var l []*S
	for i := 0; i < n; i++ {
		l = append(l, g.schema(d-1, p))
	}
	return l
}

func (g *gen) addKeyword(s *S, d int, p pos) {
	r := g.r
	leaf := d <= 0
	k := r.Intn(100)
	switch {
	case k < 14: // type
		s.HasType = true
		if r.Chance(2, 3) {
			s.Type = []string{common.Pick(r, typePool)}
		} else {
			n := 2 + r.Intn(2)
			seen := map[string]bool{}
			s.Type = nil
			for len(s.Type) < n {
				t := common.Pick(r, typePool)
				if !seen[t] {
					seen[t] = true
					s.Type = append(s.Type, t)
				}
			}
		}
	case k < 19: // enum
		s.HasEnum = true
		s.Enum = nil
		n := 1 + r.Intn(4)
		for i := 0; i < n; i++ {
			s.Enum = append(s.Enum, g.constValue(1))
		}
	case k < 23: // const
		s.Const = g.constValue(2)
	case k < 33 && r.Chance(1, 3): // sibling bounds on one side: maximum + exclusiveMaximum, minimum + exclusiveMinimum
		base := g.half()
		gap := int64(1 + r.Intn(4))
		if r.Bool() {
			// the inclusive bound is the tighter one half of the time
			if r.Bool() {
				s.Max, s.XMax = i64p(base), i64p(base+gap)
			} else {
				s.Max, s.XMax = i64p(base+gap), i64p(base)
			}
		} else {
			if r.Bool() {
				s.Min, s.XMin = i64p(base), i64p(base-gap)
			} else {
				s.Min, s.XMin = i64p(base-gap), i64p(base)
			}
		}
	case k < 33: // numeric bounds
		switch r.Intn(5) {
		case 0:
			s.Min = i64p(g.half())
		case 1:
			s.Max = i64p(g.half())
		case 2:
			s.XMin = i64p(g.half())
		case 3:
			s.XMax = i64p(g.half())
		case 4:
			s.MultipleOf = i64p(int64(1 + r.Intn(4)))
		}
	case k < 40: // string
		switch r.Intn(3) {
		case 0:
			s.MinLength = ip(r.Intn(4))
		case 1:
			s.MaxLength = ip(r.Intn(4))
		case 2:
			s.Pattern = &patPool[r.Intn(len(patPool))]
		}
	case k < 46: // object sizes / required
		switch r.Intn(3) {
		case 0:
			if s.Const == nil && !s.HasEnum {
				s.MinProps = ip(r.Intn(3))
			}
		case 1:
			s.MaxProps = ip(r.Intn(3))
		case 2:
			s.HasRequired = true
			s.Required = g.distinctNames(r.Intn(3))
		}
	case k < 52: // array sizes
		switch r.Intn(3) {
		case 0:
			s.MinItems = ip(r.Intn(3))
		case 1:
			s.MaxItems = ip(r.Intn(3))
		case 2:
			b := r.Chance(4, 5)
			s.Unique = &b
		}
	case leaf:
		// depth exhausted: another leaf keyword
		s.Min = i64p(g.half())
	case k < 60: // properties (+ required, additionalProperties)
		s.HasProps = true
		s.Props = nil
		withAddl := r.Chance(1, 2)
		// properties + patternProperties + a schema for additionalProperties in one object:
		// the exclusion pattern of additionalProperties is built from both
		if !s.HasPProps && r.Chance(1, 3) {
			s.HasPProps = true
			s.PProps = nil
			seen := map[string]bool{}
			for i := r.Intn(2) + 1; i > 0; i-- {
				pt := common.Pick(r, patPool)
				if !seen[pt] {
					seen[pt] = true
					s.PProps = append(s.PProps, PS{pt, g.schema(d-1, posPProp)})
				}
			}
			withAddl = r.Chance(3, 4)
		}
		var addl *S
		if withAddl {
			addl = g.addl(d)
			if s.HasPProps && addl.IsBool && r.Chance(2, 3) {
				addl = g.schema(d-1, posAddl)
			}
		}
		// a property value that a sibling pattern constraint can also reach
		// (patternProperties of the same object) is generated without close
		nc := g.noClose
		if s.HasPProps {
			g.noClose = true
		}
		for _, n := range g.distinctNames(r.Intn(3)) {
			s.Props = append(s.Props, PS{n, g.schema(d-1, posProp)})
		}
		g.noClose = nc
		if r.Chance(1, 2) {
			s.HasRequired = true
			s.Required = nil
			for _, p := range s.Props {
				if r.Bool() {
					s.Required = append(s.Required, p.Name)
				}
			}
			if g.deviate && r.Chance(1, 4) {
				// a required name that is not a property (deviates when closed)
				extra := g.name()
				dup := false
				for _, q := range s.Required {
					dup = dup || q == extra
				}
				if !dup {
					s.Required = append(s.Required, extra)
				}
			}
		}
		if withAddl {
			s.Addl = addl
		}
	case k < 64: // patternProperties
		if s.HasProps {
			// keep properties (possibly closed values) and patterns apart
			break
		}
		s.HasPProps = true
		s.PProps = nil
		seen := map[string]bool{}
		for i := r.Intn(2) + 1; i > 0; i-- {
			pt := common.Pick(r, patPool)
			if !seen[pt] {
				seen[pt] = true
				s.PProps = append(s.PProps, PS{pt, g.schema(d-1, posPProp)})
			}
		}
		if r.Chance(1, 2) {
			s.Addl = g.addl(d)
		}
	case k < 66:
		s.Addl = g.addl(d)
	case k < 68: // propertyNames: not restricted by the importer (known deviation)
		if g.deviate {
			s.PNames = g.schema(d-1, posPNames)
		} else {
			s.PNames = sbool(true)
		}
	case k < 73: // items
		s.Items = g.schema(d-1, posItems)
	case k < 75: // prefixItems: needs the full prefix in CUE (known deviation)
		if g.deviate {
			s.HasPrefix = true
			s.Prefix = g.subs(d, posPrefix, 1)
			if r.Bool() {
				s.Items = g.schema(d-1, posItems)
			}
		} else {
			s.HasPrefix = true
			s.Prefix = []*S{}
			s.Items = g.schema(d-1, posItems)
		}
	case k < 78: // contains
		s.Contains = g.schema(d-1, posContains)
		if r.Chance(1, 3) {
			s.MinContains = ip(r.Intn(3))
		}
		if r.Chance(1, 3) {
			s.MaxContains = ip(1 + r.Intn(3))
		}
	case k >= 84 && k < 93 && r.Chance(1, 4): // anyOf / oneOf over constants, possibly with duplicates
		n := 2 + r.Intn(3)
		var vals []*J
		for i := 0; i < n; i++ {
			if i > 0 && r.Chance(1, 3) {
				vals = append(vals, common.Pick(r, vals).clone())
			} else {
				vals = append(vals, g.constValue(1))
			}
		}
		var l []*S
		for _, v := range vals {
			l = append(l, &S{Const: v})
		}
		if k < 89 {
			s.HasAnyOf, s.AnyOf = true, l
		} else {
			s.HasOneOf, s.OneOf = true, l
		}
	case k < 84:
		s.HasAllOf = true
		s.AllOf = g.subs(d, posAllOf, 1)
	case k < 89:
		s.HasAnyOf = true
		s.AnyOf = g.subs(d, posAnyOf, 1)
	case k < 93:
		s.HasOneOf = true
		s.OneOf = g.subs(d, posOneOf, 1)
	case k < 96:
		s.Not = g.schema(d-1, posNot)
	case k < 99:
		s.If = g.schema(d-1, posIf)
		if r.Chance(4, 5) {
			s.Then = g.schema(d-1, posThen)
		}
		if r.Chance(1, 2) {
			s.Else = g.schema(d-1, posElse)
		}
	default:
		s.Ref = g.schema(d-1, posRef)
	}
}

func (g *gen) addl(d int) *S {
	switch g.r.Intn(4) {
	case 0:
		return sbool(false)
	case 1:
		return sbool(true)
	}
	s := g.schema(d-1, posAddl)
	return s
}

// refDoc grafts a small table of definitions onto a root object: definitions
// that are referenced more than once (from two properties of the root, from
// the root and from another definition), chains (a definition that is only a
// reference to a later one) and references below items / properties of a
// definition.  Targets are argSchemas (the validated domain of $ref targets)
// without additionalProperties:false; the use sites are property values and
// items of the root, never the root chain itself.
func (g *gen) refDoc(root *S, d int) bool {
	if root.IsBool {
		return false
	}
	r := g.r
	n := 1 + r.Intn(3)
	defs := make([]*S, n)
	for i := n - 1; i >= 0; i-- {
		t := g.argSchema(d)
		t.walk(func(x *S) {
			if !x.IsBool && x.Addl != nil && x.Addl.IsBool && !x.Addl.B {
				x.Addl = nil
			}
		})
		if i < n-1 && r.Chance(2, 3) {
			later := defs[i+1+r.Intn(n-1-i)]
			switch r.Intn(3) {
			case 0:
				t = &S{Ref: later}
			case 1:
				if !t.IsBool && t.Items == nil && !t.HasPrefix {
					t.Items = &S{Ref: later}
				}
			case 2:
				if !t.IsBool && !t.HasProps {
					t.HasProps = true
					t.Props = []PS{{Name: g.name(), S: &S{Ref: later}}}
				}
			}
		}
		defs[i] = t
	}
	used := false
	names := []string{"r", "r2", "rx"}
	k := 1 + r.Intn(3)
	for i := 0; i < k; i++ {
		target := defs[r.Intn(n)]
		if i == 0 {
			target = defs[0]
		}
		if r.Chance(1, 4) && root.Items == nil && !root.HasPrefix {
			root.Items = &S{Ref: target}
			used = true
			continue
		}
		dup := false
		for _, p := range root.Props {
			if p.Name == names[i] {
				dup = true
			}
		}
		if dup {
			continue
		}
		root.HasProps = true
		root.Props = append(root.Props, PS{Name: names[i], S: &S{Ref: target}})
		used = true
	}
	return used
}

// errorSchema: a root schema the importer must reject.
func (g *gen) errorSchema(d int) *S {
	s := g.schema(d, posRoot)
	if s.IsBool {
		return sbool(false)
	}
	switch g.r.Intn(9) {
	case 8:
		// a reference to a definition that does not exist
		s.HasProps = true
		s.Props = append(s.Props, PS{Name: "rm", S: &S{RefMissing: true}})
	case 0:
		s.MultipleOf = i64p(int64(-g.r.Intn(2)))
	case 1:
		s.HasAllOf, s.AllOf = true, []*S{}
	case 2:
		s.HasAnyOf, s.AnyOf = true, []*S{}
	case 3:
		s.HasOneOf, s.OneOf = true, []*S{}
	case 4:
		s.HasRequired, s.Required = true, []string{"a", "b", "a"}
	case 5:
		return sbool(false)
	case 6:
		s.If = g.schema(d-1, posIf)
		s.Then = sbool(false)
	case 7:
		s.HasType, s.Type = true, []string{"string"}
		s.Const = jnum(2)
	}
	return s
}

// ---------------------------------------------------------------- instances

// hints collects constants of the schema the instance generator is biased to.
type hints struct {
	nums  []int64
	strs  []string
	names []string
	vals  []*J
}

func collectHints(s *S) *hints {
	h := &hints{}
	s.walk(func(x *S) {
		if x.IsBool {
			return
		}
		for _, p := range []*int64{x.Min, x.Max, x.XMin, x.XMax} {
			if p != nil {
				h.nums = append(h.nums, *p-1, *p, *p+1, *p+2)
			}
		}
		if x.MultipleOf != nil {
			h.nums = append(h.nums, 2**x.MultipleOf, 4**x.MultipleOf, 2**x.MultipleOf+1, 2**x.MultipleOf+2)
		}
		for _, e := range x.Enum {
			h.vals = append(h.vals, e)
		}
		if x.Const != nil {
			h.vals = append(h.vals, x.Const)
		}
		for _, p := range x.Props {
			h.names = append(h.names, p.Name)
		}
		h.names = append(h.names, x.Required...)
	})
	return h
}

type igen struct {
	r *common.Rng
	g *gen
	h *hints
}

func (ig *igen) num() *J {
	if len(ig.h.nums) > 0 && ig.r.Chance(2, 3) {
		return jnum(common.Pick(ig.r, ig.h.nums))
	}
	return jnum(ig.g.half())
}

func (ig *igen) str(s *S) *J {
	if s != nil && !s.IsBool {
		if s.Pattern != nil && ig.r.Chance(2, 3) {
			return jstr(common.Pick(ig.r, patSamples[*s.Pattern]))
		}
		if (s.MinLength != nil || s.MaxLength != nil) && ig.r.Bool() {
			n := 0
			if s.MinLength != nil {
				n = *s.MinLength
			}
			if s.MaxLength != nil && ig.r.Bool() {
				n = *s.MaxLength
			}
			n += ig.r.Intn(3) - 1
			out := ""
			for i := 0; i < n; i++ {
				out += common.Pick(ig.r, []string{"a", "b", "é", "c"})
			}
			return jstr(out)
		}
	}
	return jstr(common.Pick(ig.r, strPool))
}

func (ig *igen) key() string {
	if len(ig.h.names) > 0 && ig.r.Chance(1, 2) {
		return common.Pick(ig.r, ig.h.names)
	}
	return ig.g.name()
}

var patSamples = map[string][]string{
	"^a":       {"a", "ab", "abc", "ba", "a1"},
	"b$":       {"b", "ab", "ba", "bcb"},
	"^[a-c]+$": {"a", "abc", "cab", "abd", ""},
	"b":        {"b", "abc", "a", "xyz"},
	"^.{2}$":   {"ab", "aé", "a", "abc"},
	"^x":       {"x", "xyz", "ax"},
	"[0-9]":    {"a1", "b1", "a", "1"},
}

// forSchema generates an instance aimed at schema s (not necessarily valid).
func (ig *igen) forSchema(s *S, d int) *J {
	r := ig.r
	if s == nil || s.IsBool || d <= 0 {
		if len(ig.h.vals) > 0 && r.Chance(1, 4) {
			return common.Pick(r, ig.h.vals).clone()
		}
		return ig.g.value(1)
	}
	if s.Const != nil && r.Chance(3, 5) {
		return s.Const.clone()
	}
	if s.HasEnum && len(s.Enum) > 0 && r.Chance(3, 5) {
		return common.Pick(r, s.Enum).clone()
	}
	if s.Ref != nil && r.Chance(1, 2) {
		return ig.forSchema(s.Ref, d)
	}
	// follow a combinator member
	var members []*S
	members = append(members, s.AllOf...)
	members = append(members, s.AnyOf...)
	members = append(members, s.OneOf...)
	for _, m := range []*S{s.If, s.Then, s.Else, s.Not} {
		if m != nil {
			members = append(members, m)
		}
	}
	own := s.HasType || s.HasProps || s.HasPProps || s.Items != nil || s.HasPrefix || s.Contains != nil ||
		s.Min != nil || s.Max != nil || s.XMin != nil || s.XMax != nil || s.MultipleOf != nil ||
		s.MinLength != nil || s.MaxLength != nil || s.Pattern != nil || s.HasRequired || s.Addl != nil ||
		s.MinItems != nil || s.MaxItems != nil || s.MinProps != nil || s.MaxProps != nil || s.Unique != nil || s.PNames != nil
	if len(members) > 0 && (!own || r.Chance(1, 2)) {
		return ig.forSchema(common.Pick(r, members), d)
	}
	// choose a kind
	kind := ""
	if s.HasType && len(s.Type) > 0 && r.Chance(4, 5) {
		kind = common.Pick(r, s.Type)
	} else {
		var cands []string
		if s.HasProps || s.HasPProps || s.HasRequired || s.Addl != nil || s.MinProps != nil || s.MaxProps != nil || s.PNames != nil {
			cands = append(cands, "object", "object")
		}
		if s.Items != nil || s.HasPrefix || s.Contains != nil || s.MinItems != nil || s.MaxItems != nil || s.Unique != nil {
			cands = append(cands, "array", "array")
		}
		if s.Min != nil || s.Max != nil || s.XMin != nil || s.XMax != nil || s.MultipleOf != nil {
			cands = append(cands, "number", "number")
		}
		if s.MinLength != nil || s.MaxLength != nil || s.Pattern != nil {
			cands = append(cands, "string", "string")
		}
		cands = append(cands, common.Pick(r, typePool))
		kind = common.Pick(r, cands)
	}
	switch kind {
	case "null":
		return jnull()
	case "boolean":
		return jbool(r.Bool())
	case "integer":
		n := ig.num()
		if r.Chance(5, 6) && n.H%2 != 0 {
			n.H++
		}
		return n
	case "number":
		var own []int64
		for _, p := range []*int64{s.Min, s.Max, s.XMin, s.XMax} {
			if p != nil {
				own = append(own, *p)
			}
		}
		if len(own) > 0 && r.Chance(1, 2) {
			return jnum(common.Pick(r, own))
		}
		return ig.num()
	case "string":
		return ig.str(s)
	case "array":
		n := r.Intn(4)
		if s.MinItems != nil && r.Bool() {
			n = *s.MinItems + r.Intn(2)
		}
		if s.MaxItems != nil && r.Bool() {
			n = *s.MaxItems + r.Intn(2)
		}
		if s.HasPrefix && r.Bool() {
			n = len(s.Prefix) + r.Intn(2)
		}
		a := &J{K: 'a'}
		for i := 0; i < n; i++ {
			var es *S
			switch {
			case s.HasPrefix && i < len(s.Prefix):
				es = s.Prefix[i]
			case s.Items != nil:
				es = s.Items
			}
			if s.Contains != nil && r.Chance(1, 3) {
				es = s.Contains
			}
			a.A = append(a.A, ig.forSchema(es, d-1))
		}
		if s.Unique != nil && len(a.A) > 1 && r.Chance(1, 3) {
			a.A[len(a.A)-1] = a.A[0].clone()
		}
		return a
	case "object":
		o := &J{K: 'o'}
		seen := map[string]bool{}
		add := func(k string, sub *S) {
			if seen[k] {
				return
			}
			seen[k] = true
			o.O = append(o.O, kv(k, ig.forSchema(sub, d-1)))
		}
		for _, k := range s.Required {
			if r.Chance(5, 6) {
				add(k, ig.propSchema(s, k))
			}
		}
		for _, p := range s.Props {
			if r.Chance(1, 2) {
				add(p.Name, p.S)
			}
		}
		for _, p := range s.PProps {
			if r.Chance(1, 2) {
				k := common.Pick(r, patSamples[p.Name])
				if k != "" || ig.g.deviate {
					add(k, p.S)
				}
			}
		}
		for i := r.Intn(3); i > 0; i-- {
			k := ig.key()
			add(k, ig.propSchema(s, k))
		}
		return o
	}
	return ig.g.value(1)
}

func (ig *igen) propSchema(s *S, k string) *S {
	for _, p := range s.Props {
		if p.Name == k {
			return p.S
		}
	}
	if s.Addl != nil && ig.r.Bool() {
		return s.Addl
	}
	return nil
}

// mutate makes a small change somewhere in j.
func (ig *igen) mutate(j *J) *J {
	r := ig.r
	switch j.K {
	case '#':
		return jnum(j.H + int64(r.Intn(5)-2))
	case 's':
		if r.Bool() {
			return jstr(string(j.S) + common.Pick(r, []string{"a", "b", "é"}))
		}
		if len(j.S) > 0 {
			return &J{K: 's', S: append([]rune(nil), j.S[1:]...)}
		}
		return jstr("b")
	case 'a':
		c := j.clone()
		switch {
		case len(c.A) > 0 && r.Chance(1, 3):
			c.A = c.A[:len(c.A)-1]
		case len(c.A) > 0 && r.Chance(1, 2):
			i := r.Intn(len(c.A))
			c.A[i] = ig.mutate(c.A[i])
		default:
			c.A = append(c.A, ig.g.value(1))
		}
		return c
	case 'o':
		c := j.clone()
		switch {
		case len(c.O) > 0 && r.Chance(1, 3):
			i := r.Intn(len(c.O))
			c.O = append(c.O[:i], c.O[i+1:]...)
		case len(c.O) > 0 && r.Chance(1, 2):
			i := r.Intn(len(c.O))
			c.O[i].V = ig.mutate(c.O[i].V)
		default:
			k := ig.key()
			for _, e := range c.O {
				if string(e.K) == k {
					return c
				}
			}
			c.O = append(c.O, kv(k, ig.g.value(1)))
		}
		return c
	}
	return ig.g.value(1)
}

func (g *gen) instances(s *S, n int) []*J {
	ig := &igen{r: g.r, g: g, h: collectHints(s)}
	var out []*J
	for i := 0; i < n; i++ {
		var j *J
		switch {
		case i < n-2:
			j = ig.forSchema(s, 3)
			if g.r.Chance(1, 3) {
				j = ig.mutate(j)
			}
		default:
			j = g.value(2)
		}
		out = append(out, j)
	}
	return out
}
