package main

import (
	stdjson "encoding/json"
	"fmt"
	"regexp"
	"sort"
	"strings"
)

// converter turns a decoded JSON Schema document into the AST of the model.
// It is strict: any keyword outside the subset, any value of the wrong shape,
// any number that is not a small multiple of 1/2, any regexp Go cannot compile
// is an error ("outside the subset").  $ref to "#/$defs/<name>" (or
// "#/definitions/<name>") is inlined; cycles are outside the subset.
type converter struct {
	defs     map[string]any
	visiting map[string]bool
	// annotations lists keywords that are ignored (no validation semantics).
	annotations map[string]bool
}

var suiteAnnotations = map[string]bool{"$schema": true, "$comment": true, "description": true, "title": true,
	"default": true, "examples": true, "$id": false}

func newConverter(root any, annotations map[string]bool) *converter {
	c := &converter{defs: map[string]any{}, visiting: map[string]bool{}, annotations: annotations}
	if m, ok := root.(map[string]any); ok {
		for _, k := range []string{"$defs", "definitions"} {
			if d, ok := m[k].(map[string]any); ok {
				for n, v := range d {
					c.defs[k+"/"+n] = v
				}
			}
		}
	}
	return c
}

func asInt(x any) (int, bool) {
	n, ok := x.(stdjson.Number)
	if !ok {
		return 0, false
	}
	j, ok := fromAny(n)
	if !ok || j.H%2 != 0 || j.H < 0 || j.H > 2000 {
		return 0, false
	}
	return int(j.H / 2), true
}

func asHalf(x any) (int64, bool) {
	n, ok := x.(stdjson.Number)
	if !ok {
		return 0, false
	}
	j, ok := fromAny(n)
	if !ok {
		return 0, false
	}
	return j.H, true
}

func (c *converter) list(x any) ([]*S, error) {
	a, ok := x.([]any)
	if !ok {
		return nil, fmt.Errorf("expected array of schemas")
	}
	out := []*S{}
	for _, e := range a {
		s, err := c.schema(e, false)
		if err != nil {
			return nil, err
		}
		out = append(out, s)
	}
	return out, nil
}

func (c *converter) schema(x any, root bool) (*S, error) {
	switch x := x.(type) {
	case bool:
		return sbool(x), nil
	case map[string]any:
		s := &S{}
		keys := make([]string, 0, len(x))
		for k := range x {
			keys = append(keys, k)
		}
		sort.Strings(keys)
		for _, k := range keys {
			v := x[k]
			if c.annotations[k] {
				continue
			}
			var err error
			intp := func(dst **int) {
				n, ok := asInt(v)
				if !ok {
					err = fmt.Errorf("%s: not a small non-negative integer", k)
					return
				}
				*dst = &n
			}
			halfp := func(dst **int64) {
				h, ok := asHalf(v)
				if !ok {
					err = fmt.Errorf("%s: number outside the model", k)
					return
				}
				*dst = &h
			}
			subp := func(dst **S) {
				*dst, err = c.schema(v, false)
			}
			switch k {
			case "$defs", "definitions":
				if !root {
					err = fmt.Errorf("nested %s", k)
				}
				if _, ok := v.(map[string]any); !ok {
					err = fmt.Errorf("%s: not an object", k)
				}
			case "$ref":
				str, ok := v.(string)
				if !ok {
					err = fmt.Errorf("$ref: not a string")
					break
				}
				var name string
				switch {
				case strings.HasPrefix(str, "#/$defs/"):
					name = "$defs/" + strings.TrimPrefix(str, "#/$defs/")
				case strings.HasPrefix(str, "#/definitions/"):
					name = "definitions/" + strings.TrimPrefix(str, "#/definitions/")
				default:
					err = fmt.Errorf("$ref %q outside the subset", str)
				}
				if err != nil {
					break
				}
				name = strings.ReplaceAll(strings.ReplaceAll(name, "~1", "/"), "~0", "~")
				d, ok := c.defs[name]
				if !ok || strings.Contains(strings.SplitN(name, "/", 2)[1], "/") {
					err = fmt.Errorf("$ref %q not found", str)
					break
				}
				if c.visiting[name] {
					err = fmt.Errorf("cyclic $ref %q", str)
					break
				}
				c.visiting[name] = true
				s.Ref, err = c.schema(d, false)
				delete(c.visiting, name)
			case "type":
				s.HasType = true
				switch t := v.(type) {
				case string:
					s.Type = []string{t}
				case []any:
					for _, e := range t {
						str, ok := e.(string)
						if !ok {
							err = fmt.Errorf("type: not a string")
						}
						s.Type = append(s.Type, str)
					}
				default:
					err = fmt.Errorf("type: bad value")
				}
				for _, t := range s.Type {
					switch t {
					case "null", "boolean", "integer", "number", "string", "array", "object":
					default:
						err = fmt.Errorf("type: unknown %q", t)
					}
				}
			case "enum":
				a, ok := v.([]any)
				if !ok {
					err = fmt.Errorf("enum: not an array")
					break
				}
				s.HasEnum = true
				for _, e := range a {
					j, ok := fromAny(e)
					if !ok {
						err = fmt.Errorf("enum: value outside the model")
						break
					}
					s.Enum = append(s.Enum, j)
				}
			case "const":
				j, ok := fromAny(v)
				if !ok {
					err = fmt.Errorf("const: value outside the model")
					break
				}
				s.Const = j
			case "multipleOf":
				h, ok := asHalf(v)
				if !ok || h%2 != 0 {
					err = fmt.Errorf("multipleOf: not an integer")
					break
				}
				m := h / 2
				s.MultipleOf = &m
			case "exclusiveMaximum":
				halfp(&s.XMax)
			case "exclusiveMinimum":
				halfp(&s.XMin)
			case "maximum":
				halfp(&s.Max)
			case "minimum":
				halfp(&s.Min)
			case "maxLength":
				intp(&s.MaxLength)
			case "minLength":
				intp(&s.MinLength)
			case "pattern":
				str, ok := v.(string)
				if !ok {
					err = fmt.Errorf("pattern: not a string")
					break
				}
				if _, e := regexp.Compile(str); e != nil {
					err = fmt.Errorf("pattern: %v", e)
					break
				}
				s.Pattern = &str
			case "maxProperties":
				intp(&s.MaxProps)
			case "minProperties":
				intp(&s.MinProps)
			case "maxItems":
				intp(&s.MaxItems)
			case "minItems":
				intp(&s.MinItems)
			case "maxContains":
				intp(&s.MaxContains)
			case "minContains":
				intp(&s.MinContains)
			case "uniqueItems":
				b, ok := v.(bool)
				if !ok {
					err = fmt.Errorf("uniqueItems: not a bool")
					break
				}
				s.Unique = &b
			case "required":
				a, ok := v.([]any)
				if !ok {
					err = fmt.Errorf("required: not an array")
					break
				}
				s.HasRequired = true
				for _, e := range a {
					str, ok := e.(string)
					if !ok {
						err = fmt.Errorf("required: not a string")
						break
					}
					s.Required = append(s.Required, str)
				}
			case "allOf":
				s.HasAllOf = true
				s.AllOf, err = c.list(v)
			case "anyOf":
				s.HasAnyOf = true
				s.AnyOf, err = c.list(v)
			case "oneOf":
				s.HasOneOf = true
				s.OneOf, err = c.list(v)
			case "prefixItems":
				s.HasPrefix = true
				s.Prefix, err = c.list(v)
			case "not":
				subp(&s.Not)
			case "if":
				subp(&s.If)
			case "then":
				subp(&s.Then)
			case "else":
				subp(&s.Else)
			case "propertyNames":
				subp(&s.PNames)
			case "contains":
				subp(&s.Contains)
			case "additionalProperties":
				subp(&s.Addl)
			case "items":
				subp(&s.Items)
			case "properties", "patternProperties":
				m, ok := v.(map[string]any)
				if !ok {
					err = fmt.Errorf("%s: not an object", k)
					break
				}
				names := make([]string, 0, len(m))
				for n := range m {
					names = append(names, n)
				}
				sort.Strings(names)
				var l []PS
				for _, n := range names {
					if k == "patternProperties" {
						if _, e := regexp.Compile(n); e != nil {
							err = fmt.Errorf("patternProperties: %v", e)
							break
						}
					}
					sub, e := c.schema(m[n], false)
					if e != nil {
						err = e
						break
					}
					l = append(l, PS{n, sub})
				}
				if k == "properties" {
					s.HasProps, s.Props = true, l
				} else {
					s.HasPProps, s.PProps = true, l
				}
			default:
				err = fmt.Errorf("keyword %q outside the subset", k)
			}
			if err != nil {
				return nil, err
			}
		}
		return s, nil
	}
	return nil, fmt.Errorf("schema is neither object nor boolean")
}

// convertSchema parses a JSON Schema document strictly.
func convertSchema(data []byte, annotations map[string]bool) (*S, error) {
	x, err := parseJSON(data)
	if err != nil {
		return nil, err
	}
	c := newConverter(x, annotations)
	return c.schema(x, true)
}
