package main

import (
	"archive/zip"
	"bytes"
	"fmt"
	"io"
	"io/fs"
	"os"
	"path/filepath"
	"sort"
	"strconv"
	"strings"
	"time"
	"unicode"
	"unicode/utf8"

	"cuelang.org/go/internal/verifharness/common"
	"cuelang.org/go/mod/modzip"
	"cuelang.org/go/mod/module"
)

var modVersion = module.MustNewVersion("example.com/m@v0", "v0.0.1")

const maxZipFile = 500 << 20

// ---------------------------------------------------------------- case data

type mfile struct {
	name string
	kind byte // r d s o
	size int64
	data []byte
}

type fcase struct{ files []mfile }

type zcase struct {
	czsize  int64 // size passed to CheckZip (0 = real size)
	pre     int   // state of the target directory before Unzip
	entries []zentry
}

// ---------------------------------------------------------------- unicode table

func foldMin(r rune) rune {
	for {
		r0 := r
		r = unicode.SimpleFold(r0)
		if r <= r0 {
			return r
		}
	}
}

func tableFor(names []string) string {
	seen := map[rune]bool{}
	var rs []rune
	for _, n := range names {
		for _, r := range n {
			if r >= utf8.RuneSelf && !seen[r] {
				seen[r] = true
				rs = append(rs, r)
			}
		}
	}
	if len(rs) == 0 {
		return "-"
	}
	sort.Slice(rs, func(i, j int) bool { return rs[i] < rs[j] })
	parts := make([]string, len(rs))
	for i, r := range rs {
		l := 0
		if unicode.IsLetter(r) {
			l = 1
		}
		parts[i] = fmt.Sprintf("%d:%d:%d", r, l, foldMin(r))
	}
	return strings.Join(parts, ",")
}

// ---------------------------------------------------------------- fake FileIO

type memIO struct{}

type memInfo struct{ f *mfile }

func (i memInfo) Name() string { return filepath.Base(i.f.name) }
func (i memInfo) Size() int64  { return i.f.size }
func (i memInfo) Mode() os.FileMode {
	switch i.f.kind {
	case 'd':
		return os.ModeDir | 0755
	case 's':
		return os.ModeSymlink | 0777
	case 'o':
		return os.ModeNamedPipe | 0644
	}
	return 0644
}
func (i memInfo) ModTime() time.Time { return time.Time{} }
func (i memInfo) IsDir() bool        { return i.f.kind == 'd' }
func (i memInfo) Sys() any           { return nil }

func (memIO) Path(f *mfile) string                 { return f.name }
func (memIO) Lstat(f *mfile) (os.FileInfo, error)  { return memInfo{f}, nil }
func (memIO) Open(f *mfile) (io.ReadCloser, error) { return io.NopCloser(bytes.NewReader(f.data)), nil }

// ---------------------------------------------------------------- formatting

func hx(s string) string { return common.Hex(s) }

func hexList(ss []string) string {
	out := make([]string, len(ss))
	for i, s := range ss {
		out[i] = hx(s)
	}
	return strings.Join(out, ",")
}

func errPaths(es []modzip.FileError) []string {
	out := make([]string, len(es))
	for i, e := range es {
		out[i] = e.Path
	}
	return out
}

func b2i(b bool) int {
	if b {
		return 1
	}
	return 0
}

func fmtChecked(cf modzip.CheckedFiles) string {
	return fmt.Sprintf("V=%s O=%s I=%s SE=%d NM=%d", hexList(cf.Valid), hexList(errPaths(cf.Omitted)),
		hexList(errPaths(cf.Invalid)), b2i(cf.SizeError != nil), b2i(cf.NoModError != nil))
}

func fmtZChecked(pfx string, cf modzip.CheckedFiles) string {
	return fmt.Sprintf("%sV=%s %sI=%s %sSE=%d %sNM=%d", pfx, hexList(cf.Valid), pfx, hexList(errPaths(cf.Invalid)),
		pfx, b2i(cf.SizeError != nil), pfx, b2i(cf.NoModError != nil))
}

// ---------------------------------------------------------------- scratch area

type scratch struct {
	root string
	n    int
}

// fresh returns (R, P, target): R contains only P; P contains `sentinel` and (maybe) t.
func (s *scratch) fresh(pre int) (string, string, string) {
	s.n++
	r := filepath.Join(s.root, fmt.Sprintf("r%d", s.n))
	p := filepath.Join(r, "P")
	must(os.MkdirAll(p, 0777))
	must(os.WriteFile(filepath.Join(p, "sentinel"), []byte("s"), 0644))
	t := filepath.Join(p, "t")
	switch pre {
	case 1:
		must(os.Mkdir(t, 0777))
	case 2:
		must(os.Mkdir(t, 0777))
		must(os.WriteFile(filepath.Join(t, "x"), []byte("x"), 0644))
	case 3:
		must(os.WriteFile(t, []byte("f"), 0644))
	}
	return r, p, t
}

func must(err error) {
	if err != nil {
		panic(err)
	}
}

// tree lists everything under P (and anything in R besides P) after an Unzip.
func tree(r, p string) string {
	var items []string
	ents, _ := os.ReadDir(r)
	for _, e := range ents {
		if e.Name() != "P" {
			items = append(items, "OUTSIDE"+hx("../"+e.Name()))
		}
	}
	filepath.WalkDir(p, func(path string, d fs.DirEntry, err error) error {
		if err != nil {
			items = append(items, "WALKERR"+hx(path))
			return nil
		}
		if path == p {
			return nil
		}
		rel, _ := filepath.Rel(p, path)
		info, err := os.Lstat(path)
		if err != nil {
			items = append(items, "STATERR"+hx(rel))
			return nil
		}
		pfx := ""
		if rel != "sentinel" && rel != "t" && !strings.HasPrefix(rel, "t/") {
			pfx = "OUTSIDE"
		}
		switch {
		case info.IsDir():
			items = append(items, pfx+hx(rel)+":D")
		case info.Mode().IsRegular():
			data, _ := os.ReadFile(path)
			items = append(items, pfx+hx(rel)+":F:"+hx(string(data)))
		case info.Mode()&os.ModeSymlink != 0:
			items = append(items, pfx+hx(rel)+":L")
		default:
			items = append(items, pfx+hx(rel)+":X")
		}
		return nil
	})
	sort.Strings(items)
	return strings.Join(items, ",")
}

func cleanup(r string) {
	filepath.WalkDir(r, func(path string, d fs.DirEntry, err error) error {
		if err == nil && d.IsDir() {
			os.Chmod(path, 0777)
		}
		return nil
	})
	os.RemoveAll(r)
}

func guard(f func() string) (out string) {
	defer func() {
		if e := recover(); e != nil {
			out = fmt.Sprintf("PANIC(%v)", e)
			out = strings.ReplaceAll(out, " ", "_")
		}
	}()
	return f()
}

// ---------------------------------------------------------------- P cases

func runP(name string) (string, string) {
	c := fmt.Sprintf("P | %s | %s", tableFor([]string{name}), hx(name))
	impl := guard(func() string {
		a, b := modzip.VerifSplitCUEMod(name)
		return fmt.Sprintf("ok=%d clean=%d fold=%s split=%s,%s", b2i(module.CheckFilePath(name) == nil),
			b2i(pathClean(name) == name), hx(modzip.VerifStrToFold(name)), hx(a), hx(b))
	})
	return c, impl
}

// ---------------------------------------------------------------- F cases

func fmtFile(f mfile) string {
	return fmt.Sprintf("%s:%c:%d:%s", hx(f.name), f.kind, f.size, hx(string(f.data)))
}

func runF(fc fcase, sc *scratch) (string, string) {
	names := make([]string, len(fc.files))
	parts := make([]string, len(fc.files))
	ptrs := make([]*mfile, len(fc.files))
	for i := range fc.files {
		names[i] = fc.files[i].name
		parts[i] = fmtFile(fc.files[i])
		ptrs[i] = &fc.files[i]
	}
	c := fmt.Sprintf("F | %s | %s", tableFor(names), strings.Join(parts, " "))
	s1 := guard(func() string {
		cf, _ := modzip.CheckFiles(ptrs, memIO{})
		return fmtChecked(cf)
	})
	s2 := guard(func() string {
		var es []zentry
		for _, f := range fc.files {
			if f.kind != 'r' {
				continue
			}
			d := uint64(0)
			if f.size > 0 {
				d = uint64(f.size)
			}
			es = append(es, zentry{name: f.name, declared: d, kind: 'r', data: f.data, crcOK: true, openOK: true})
		}
		raw := rawZip(es)
		_, _, cf, err := modzip.CheckZip(modVersion, bytes.NewReader(raw), int64(len(raw)))
		if err != nil && cf.Err() == nil {
			return "ZIPERR(" + strings.ReplaceAll(err.Error(), " ", "_") + ")"
		}
		return fmtZChecked("Z", cf)
	})
	var zipBytes []byte
	s3 := guard(func() string {
		var buf bytes.Buffer
		if err := modzip.Create(&buf, modVersion, ptrs, memIO{}); err != nil {
			return "C=ERR"
		}
		zipBytes = buf.Bytes()
		zr, err := zip.NewReader(bytes.NewReader(zipBytes), int64(len(zipBytes)))
		if err != nil {
			return "C=UNREADABLE"
		}
		var items []string
		for _, zf := range zr.File {
			rc, err := zf.Open()
			if err != nil {
				return "C=UNREADABLE"
			}
			data, err := io.ReadAll(rc)
			rc.Close()
			if err != nil {
				return "C=UNREADABLE"
			}
			items = append(items, hx(zf.Name)+":"+hx(string(data)))
		}
		return "C=OK:" + strings.Join(items, ",")
	})
	s4 := "U=na T="
	if zipBytes != nil {
		s4 = guard(func() string { return unzipInto(sc, zipBytes, 0) })
	}
	return c, s1 + " | " + s2 + " | " + s3 + " | " + s4
}

func unzipInto(sc *scratch, zipBytes []byte, pre int) string {
	r, p, t := sc.fresh(pre)
	defer cleanup(r)
	zf := filepath.Join(sc.root, "z"+strconv.Itoa(sc.n)+".zip")
	must(os.WriteFile(zf, zipBytes, 0644))
	defer os.Remove(zf)
	err := modzip.Unzip(t, modVersion, zf)
	res := "ok"
	if err != nil {
		res = "err"
	}
	return fmt.Sprintf("U=%s T=%s", res, tree(r, p))
}

// ---------------------------------------------------------------- Z cases

func fmtEntry(e zentry) string {
	return fmt.Sprintf("%s:%d:%c:%s:%d:%d:%d", hx(e.name), e.declared, e.kind, hx(string(e.data)), b2i(e.crcOK), b2i(e.openOK), e.method)
}

func runZ(zc zcase, sc *scratch) (string, string) {
	names := make([]string, len(zc.entries))
	parts := make([]string, len(zc.entries))
	for i, e := range zc.entries {
		names[i] = e.name
		parts[i] = fmtEntry(e)
	}
	raw := rawZip(zc.entries)
	czsize := int64(len(raw))
	if zc.czsize != 0 {
		czsize = zc.czsize
	}
	c := fmt.Sprintf("Z | %s | %d %d %d | %s", tableFor(names), czsize, len(raw), zc.pre, strings.Join(parts, " "))
	s1 := guard(func() string {
		var ra io.ReaderAt = bytes.NewReader(raw)
		if czsize != int64(len(raw)) {
			ra = &padReader{pad: czsize - int64(len(raw)), data: raw}
		}
		_, _, cf, err := modzip.CheckZip(modVersion, ra, czsize)
		if err != nil && cf.Err() == nil {
			return "ZIPERR(" + strings.ReplaceAll(err.Error(), " ", "_") + ")"
		}
		return fmtZChecked("", cf)
	})
	s2 := guard(func() string { return unzipInto(sc, raw, zc.pre) })
	return c, s1 + " | " + s2
}

// ---------------------------------------------------------------- D cases (CheckDir / CreateFromDir)

func fsOK(name string) bool {
	if name == "" || len(name) > 3000 || pathClean(name) != name || strings.HasPrefix(name, "/") {
		return false
	}
	for _, e := range strings.Split(name, "/") {
		if e == "" || e == "." || e == ".." || len(e) > 255 || strings.ContainsRune(e, 0) {
			return false
		}
	}
	return true
}

// treeOf keeps the files of fc that can coexist in one directory tree.
func treeOf(fc fcase) []mfile {
	var kept []mfile
	for _, f := range fc.files {
		if !fsOK(f.name) {
			continue
		}
		ok := true
		for _, k := range kept {
			if k.name == f.name {
				ok = false
			}
			if f.kind != 'd' && strings.HasPrefix(k.name, f.name+"/") {
				ok = false
			}
			if k.kind != 'd' && strings.HasPrefix(f.name, k.name+"/") {
				ok = false
			}
		}
		if ok {
			f.size = int64(len(f.data))
			kept = append(kept, f)
		}
	}
	return kept
}

func runD(files []mfile, sc *scratch) (string, string) {
	names := make([]string, len(files))
	parts := make([]string, len(files))
	for i, f := range files {
		names[i] = f.name
		parts[i] = fmtFile(f)
	}
	c := fmt.Sprintf("D | %s | %s", tableFor(names), strings.Join(parts, " "))
	sc.n++
	root := filepath.Join(sc.root, fmt.Sprintf("tree%d", sc.n))
	must(os.MkdirAll(root, 0777))
	defer cleanup(root)
	for _, f := range files {
		p := filepath.Join(root, filepath.FromSlash(f.name))
		if f.kind == 'd' {
			must(os.MkdirAll(p, 0777))
			continue
		}
		must(os.MkdirAll(filepath.Dir(p), 0777))
		switch f.kind {
		case 's':
			must(os.Symlink("target", p))
		case 'o':
			must(mkfifo(p))
		default:
			must(os.WriteFile(p, f.data, 0644))
		}
	}
	strip := func(ss []string) []string {
		out := make([]string, len(ss))
		for i, s := range ss {
			out[i] = filepath.ToSlash(strings.TrimPrefix(s, root+"/"))
		}
		return out
	}
	s1 := guard(func() string {
		cf, _ := modzip.CheckDir(root)
		return fmt.Sprintf("V=%s I=%s SE=%d NM=%d", hexList(strip(cf.Valid)), hexList(strip(errPaths(cf.Invalid))),
			b2i(cf.SizeError != nil), b2i(cf.NoModError != nil))
	})
	s2 := guard(func() string {
		var buf bytes.Buffer
		if err := modzip.CreateFromDir(&buf, modVersion, root); err != nil {
			return "C=ERR"
		}
		zr, err := zip.NewReader(bytes.NewReader(buf.Bytes()), int64(buf.Len()))
		if err != nil {
			return "C=UNREADABLE"
		}
		var items []string
		for _, zf := range zr.File {
			rc, err := zf.Open()
			if err != nil {
				return "C=UNREADABLE"
			}
			data, err := io.ReadAll(rc)
			rc.Close()
			if err != nil {
				return "C=UNREADABLE"
			}
			items = append(items, hx(zf.Name)+":"+hx(string(data)))
		}
		return "C=OK:" + strings.Join(items, ",")
	})
	return c, s1 + " | " + s2
}
