// C15 harness: runs module.CheckFilePath, modzip.CheckFiles/CheckZip/Create/Unzip of the
// working tree on generated names, file sets and hand-written zip archives, and prints the
// projected observables in the format of the extracted Coq model (ocaml/c15_driver.ml).
package main

import (
	"bufio"
	"fmt"
	"os"
	"strconv"
	"strings"

	"cuelang.org/go/internal/verifharness/common"
)

func unhexb(s string) []byte { return []byte(common.Unhex(s)) }

func parseCase(line string, sc *scratch) (string, string) {
	secs := strings.Split(line, " | ")
	switch secs[0] {
	case "P":
		return runP(common.Unhex(strings.TrimSpace(secs[2])))
	case "F":
		var fc fcase
		for _, w := range strings.Fields(secs[2]) {
			p := strings.Split(w, ":")
			sz, _ := strconv.ParseInt(p[2], 10, 64)
			fc.files = append(fc.files, mfile{name: common.Unhex(p[0]), kind: p[1][0], size: sz, data: unhexb(p[3])})
		}
		return runF(fc, sc)
	case "D":
		var fs []mfile
		for _, w := range strings.Fields(secs[2]) {
			p := strings.Split(w, ":")
			sz, _ := strconv.ParseInt(p[2], 10, 64)
			fs = append(fs, mfile{name: common.Unhex(p[0]), kind: p[1][0], size: sz, data: unhexb(p[3])})
		}
		return runD(fs, sc)
	case "Z":
		var zc zcase
		h := strings.Fields(secs[2])
		cz, _ := strconv.ParseInt(h[0], 10, 64)
		real, _ := strconv.ParseInt(h[1], 10, 64)
		if cz != real && cz != 0 {
			zc.czsize = cz
		}
		zc.pre = common.Atoi(h[2], 0)
		if len(secs) > 3 {
			for _, w := range strings.Fields(secs[3]) {
				p := strings.Split(w, ":")
				d, _ := strconv.ParseUint(p[1], 10, 64)
				zc.entries = append(zc.entries, zentry{name: common.Unhex(p[0]), declared: d, kind: p[2][0], data: unhexb(p[3]),
					crcOK: p[4] == "1", openOK: p[5] == "1", method: common.Atoi(p[6], 0)})
			}
		}
		return runZ(zc, sc)
	}
	return line, "BADCASE"
}

func main() {
	a := common.Args(os.Args[1:])
	seed := uint64(common.Atoi(a["--seed"], 1))
	outDir := a["--out"]
	out := common.NewOut(outDir)
	defer out.Close()
	scr := outDir
	if s := a["--scratch"]; s != "" {
		scr = s
	}
	root, err := os.MkdirTemp(scr, "c15scratch")
	must(err)
	defer os.RemoveAll(root)
	sc := &scratch{root: root}

	if f := a["--replay-cases"]; f != "" {
		fh, err := os.Open(f)
		must(err)
		s := bufio.NewScanner(fh)
		s.Buffer(make([]byte, 1<<20), 1<<26)
		for s.Scan() {
			if strings.TrimSpace(s.Text()) == "" {
				continue
			}
			out.Emit(parseCase(s.Text(), sc))
		}
		return
	}
	if f := a["--corpus"]; f != "" {
		if fh, err := os.Open(f); err == nil {
			s := bufio.NewScanner(fh)
			s.Buffer(make([]byte, 1<<20), 1<<26)
			for s.Scan() {
				if t := strings.TrimSpace(s.Text()); t != "" && !strings.HasPrefix(t, "#") {
					out.Emit(parseCase(s.Text(), sc))
				}
			}
			fh.Close()
		}
	}
	rng := common.NewRng(seed)
	np := common.Atoi(a["--np"], 1000)
	nf := common.Atoi(a["--nf"], 500)
	nz := common.Atoi(a["--nz"], 500)
	nd := common.Atoi(a["--nd"], 300)
	// every pool element once, alone and in a few positions (seed independent)
	for _, pool := range [][]string{elPlain, elSpecial, elCase, elWin, elDots, elBadASCII, elUnicode, elBadUTF8, elLong, elTooLong} {
		for _, e := range pool {
			out.Emit(runP(e))
			out.Emit(runP("sub/" + e))
			out.Emit(runP(e + "/x.cue"))
		}
	}
	for i := 0; i < np; i++ {
		h := []int{5, 30, 60, 90}[rng.Intn(4)]
		out.Emit(runP(genPath(rng, h)))
	}
	for i := 0; i < nf; i++ {
		out.Emit(runF(genFiles(rng), sc))
	}
	for i := 0; i < nz; i++ {
		out.Emit(runZ(genZip(rng), sc))
	}
	for i := 0; i < nd; i++ {
		t := treeOf(genFiles(rng))
		if len(t) == 0 {
			continue
		}
		out.Emit(runD(t, sc))
	}
	fmt.Fprintf(os.Stderr, "c15 harness: %d cases\n", out.N)
}
