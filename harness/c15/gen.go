package main

import (
	"path"
	"strings"

	"cuelang.org/go/internal/verifharness/common"
)

func pathClean(s string) string { return path.Clean(s) }

var (
	elPlain = []string{"a", "b", "c", "x", "y", "lib", "sub", "src", "deep", "README.md", "x.cue", "y.cue", "main.cue",
		"data.json", "a-b", "a_b", "a b", "v1.2", ".hidden", "a~1", "x+y", "@at", "#h", "{b}", "[s]", "k", "s", "i"}
	elSpecial = []string{"cue.mod", "module.cue", "LICENSE", "local-module.cue", "vendor", "usr", "gen", "pkg",
		".hg_archival.txt", ".git", ".hg", ".svn", ".bzr"}
	elCase = []string{"Cue.Mod", "CUE.MOD", "cue.Mod", "cue.moD", "Module.cue", "MODULE.CUE", "module.Cue", "License", "license",
		"LICENSE.txt", "A", "B", "X.CUE", "ReadMe.MD", "Sub", "SUB", "K", "S", "I", "Local-Module.cue", "Vendor"}
	elWin = append([]string{"LPT0", "com0", "conx", "con .txt", "Aux.tar.gz", "com¹", "a.con", "nul.", "COM10", "lpt", "co", "prn1"},
		winVariants()...)
	elDots = []string{".", "..", "...", "a.", "a..", "..a", ".a.", "", " ", "-", "-a"}
	elBadASCII = []string{"a\\b", "a:b", "a*b", "a?b", "a<b", "a>b", "a|b", "a\"b", "a'b", "a`b", "a;b", "\x00", "a\x00b",
		"a\x7fb", "a\tb", "a\nb", "C:", "\\", "..\\x", "a\\..\\b"}
	elUnicode = []string{"é", "É", "ё", "Ё", "straße", "STRASSE", "ß", "ẞ", "ſ", "K", "ǅ", "Ǆ", "ǆ", "σ", "ς", "Σ",
		"İ", "ı", "日本語", "á", "①", "٣", "_é", "\U0001d49c", "\U0001f600", "ﬁ", "µ", "μ", "Μ", "Å", "å", "Å",
		"cue.modK", "Kue.mod", "cue.modſ", "module.cueK", "licenſe", "LICENſE", "Kon", "�", "ⅰ", "Ⅰ"}
	elBadUTF8 = []string{"\xff", "a\x80", "\xc0\xaf", "\xed\xa0\x80", "\xf4\x90\x80\x80", "\xe2\x82", "\xc3", "\xc3/"}
	elLong = []string{strings.Repeat("a", 255), strings.Repeat("b", 200), strings.Repeat("é", 127)}
	// longer than NAME_MAX: only used where no file system is involved (P cases)
	elTooLong = []string{strings.Repeat("b", 300), strings.Repeat("é", 130), strings.Repeat("long/", 900) + "x"}
)

// every reserved Windows device name in three spellings
func winVariants() []string {
	var out []string
	for _, n := range []string{"CON", "PRN", "AUX", "NUL", "COM1", "COM2", "COM3", "COM4", "COM5", "COM6", "COM7", "COM8", "COM9",
		"LPT1", "LPT2", "LPT3", "LPT4", "LPT5", "LPT6", "LPT7", "LPT8", "LPT9"} {
		l := strings.ToLower(n)
		out = append(out, l, n+".txt", strings.ToUpper(l[:1])+l[1:]+".tar.gz")
	}
	return out
}

func genElem(r *common.Rng, hostile int) string {
	// hostile in 0..100: probability (percent) of drawing from the odd pools
	if r.Intn(100) >= hostile {
		if r.Chance(1, 5) {
			return common.Pick(r, elSpecial)
		}
		return common.Pick(r, elPlain)
	}
	switch r.Intn(9) {
	case 0:
		return common.Pick(r, elSpecial)
	case 1:
		return common.Pick(r, elCase)
	case 2:
		return common.Pick(r, elWin)
	case 3:
		return common.Pick(r, elDots)
	case 4:
		return common.Pick(r, elBadASCII)
	case 5, 6:
		return common.Pick(r, elUnicode)
	case 7:
		return common.Pick(r, elBadUTF8)
	default:
		if r.Chance(1, 4) {
			return common.Pick(r, elLong)
		}
		return flipCase(r, common.Pick(r, elPlain))
	}
}

func flipCase(r *common.Rng, s string) string {
	b := []byte(s)
	for i, c := range b {
		if r.Chance(1, 3) {
			if 'a' <= c && c <= 'z' {
				b[i] = c - 32
			} else if 'A' <= c && c <= 'Z' {
				b[i] = c + 32
			}
		}
	}
	return string(b)
}

func genPath(r *common.Rng, hostile int) string {
	n := 1 + r.Intn(4)
	if r.Chance(1, 30) {
		n = 5 + r.Intn(40)
	}
	es := make([]string, n)
	for i := range es {
		es[i] = genElem(r, hostile)
	}
	p := strings.Join(es, "/")
	if r.Intn(100) < hostile {
		switch r.Intn(8) {
		case 0:
			p = "/" + p
		case 1:
			p += "/"
		case 2:
			p = strings.Replace(p, "/", "//", 1)
		case 3:
			p = "./" + p
		case 4:
			p = "../" + p
		case 5:
			p += "/.."
		}
	}
	return p
}

func genData(r *common.Rng) []byte {
	n := r.Intn(24)
	if r.Chance(1, 6) {
		n = 0
	}
	b := make([]byte, n)
	for i := range b {
		b[i] = byte(r.Intn(256))
	}
	return b
}

var baseFiles = []string{"x.cue", "y.cue", "sub/y.cue", "sub/z.cue", "sub/deep/z.cue", "LICENSE", "README.md", "lib/a.cue",
	"lib/b/c.cue", "cue.mod/pkg/x.cue", "cue.mod/usr/u.cue", "cue.mod/gen/g.cue", "a b/c d.cue", "é/ё.cue", "k/s.cue"}

const (
	maxCUEMod  = 16 << 20
	maxLICENSE = 16 << 20
)

func genFiles(r *common.Rng) fcase {
	var fs []mfile
	add := func(name string) *mfile {
		d := genData(r)
		fs = append(fs, mfile{name: name, kind: 'r', size: int64(len(d)), data: d})
		return &fs[len(fs)-1]
	}
	if r.Intn(100) < 92 {
		add("cue.mod/module.cue")
	}
	n := 1 + r.Intn(6)
	used := map[string]bool{}
	for i := 0; i < n; i++ {
		nm := common.Pick(r, baseFiles)
		if r.Chance(1, 4) {
			nm = genPath(r, 5)
		}
		if used[nm] {
			continue
		}
		used[nm] = true
		add(nm)
	}
	spices := 0
	switch x := r.Intn(100); {
	case x < 35:
		spices = 0
	case x < 75:
		spices = 1
	case x < 92:
		spices = 2
	default:
		spices = 3 + r.Intn(3)
	}
	for s := 0; s < spices; s++ {
		pick := func() *mfile { return &fs[r.Intn(len(fs))] }
		switch r.Intn(24) {
		case 0:
			add(genPath(r, 60))
		case 1:
			add(flipCase(r, pick().name))
		case 2:
			add(pick().name)
		case 3: // a file that is also a directory of another file
			p := pick().name
			if i := strings.LastIndex(p, "/"); i > 0 {
				add(p[:i])
			} else {
				add(p + "/inner.cue")
			}
		case 4:
			add(common.Pick(r, []string{"sub/cue.mod/module.cue", "sub/cue.mod", "lib/b/cue.mod/x", "sub/Cue.Mod/module.cue", "sub/CUE.MOD", "lib/cue.mod/pkg/p.cue", "x/cue.mod/cue.mod/y"}))
		case 5:
			add("cue.mod")
		case 6:
			add("cue.mod/local-module.cue")
		case 7:
			add(common.Pick(r, []string{"cue.mod/vendor/x/y.cue", "cue.mod/vendor/v.cue", "cue.mod/vendor", "cue.mod/Vendor/x.cue", "cue.mod/vendorx/y"}))
		case 8:
			add(".hg_archival.txt")
		case 9:
			add(common.Pick(r, []string{"Cue.Mod/x.cue", "CUE.MOD/module.cue", "cue.mod/Module.cue", "cue.mod/MODULE.CUE", "Cue.Mod", "CUE.MOD", "cue.Mod/Module.Cue", "Cue.Mod/module.cue"}))
		case 10:
			pick().kind = common.Pick(r, []byte{'s', 'o', 'd'})
		case 11:
			f := pick()
			f.size = int64(len(f.data)) + int64(r.Intn(5)) - 2
		case 12:
			for i := range fs {
				if fs[i].name == "cue.mod/module.cue" {
					fs[i].size = maxCUEMod + int64(r.Intn(3)) - 1
				}
			}
		case 13:
			f := add("LICENSE")
			f.size = maxLICENSE + int64(r.Intn(3)) - 1
		case 14: // totals around MaxZipFile
			f := pick()
			g := add(genPath(r, 0))
			var rest int64
			for i := range fs {
				if &fs[i] != f && &fs[i] != g && fs[i].kind == 'r' && fs[i].size > 0 {
					rest += fs[i].size
				}
			}
			half := int64(maxZipFile / 2)
			f.size = half
			g.size = maxZipFile - half - rest + int64(r.Intn(3)) - 1
		case 15:
			pick().size = common.Pick(r, []int64{-1, -5, 1 << 62, maxZipFile, maxZipFile + 1, 1<<63 - 1})
		case 16:
			add(common.Pick(r, []string{"license", "License", "LICENSE.md", "sub/LICENSE"})).size = maxLICENSE + 1
		case 17:
			add(genPath(r, 30))
		case 18:
			add(common.Pick(r, elUnicode) + "/" + common.Pick(r, elUnicode))
		case 19:
			a := common.Pick(r, [][2]string{{"k", "K"}, {"s", "ſ"}, {"ß", "ẞ"}, {"σ", "ς"}, {"å", "Å"}, {"µ", "μ"}, {"ǅ", "ǆ"}, {"i", "İ"}, {"ı", "I"}, {"é", "é"}, {"straße", "strasse"}})
			add("u/" + a[0] + ".cue")
			add("u/" + a[1] + ".cue")
		case 20:
			add(common.Pick(r, elWin) + "/x.cue")
		case 21:
			add("sub/" + common.Pick(r, elDots))
		case 22:
			add(common.Pick(r, elLong) + "/" + common.Pick(r, elLong))
		default:
			add(genPath(r, 40))
		}
	}
	if r.Chance(2, 3) {
		common.Shuffle(r, fs)
	}
	return fcase{files: fs}
}

func genZip(r *common.Rng) zcase {
	fc := genFiles(r)
	var es []zentry
	for _, f := range fc.files {
		k := f.kind
		name := f.name
		if k == 'd' && r.Chance(2, 3) {
			name += "/"
		}
		d := uint64(len(f.data))
		if f.size != int64(len(f.data)) && f.size >= 0 && r.Chance(1, 2) {
			d = uint64(f.size)
		}
		m := 0
		if r.Chance(1, 3) {
			m = 8
		}
		es = append(es, zentry{name: name, declared: d, kind: k, data: f.data, crcOK: true, openOK: true, method: m})
	}
	zc := zcase{}
	spices := 0
	switch x := r.Intn(100); {
	case x < 40:
		spices = 0
	case x < 80:
		spices = 1
	default:
		spices = 2 + r.Intn(3)
	}
	for s := 0; s < spices; s++ {
		pick := func() *zentry { return &es[r.Intn(len(es))] }
		switch r.Intn(16) {
		case 0:
			es = append(es, zentry{name: genPath(r, 70), declared: 1, kind: 'r', data: []byte("h"), crcOK: true, openOK: true})
		case 1: // directory entries
			nm := common.Pick(r, []string{"sub/", "cue.mod/", "lib/", "lib/b/", "../", "/", "x.cue/", "cue.mod/module.cue/", "Sub/", "sub//", "a/./", "deep/cue.mod/"})
			e := zentry{name: nm, kind: 'd', crcOK: true, openOK: true}
			if r.Chance(1, 4) {
				e.declared = 3
				e.data = []byte("dir")
			}
			es = append(es, e)
		case 2:
			e := pick()
			e.declared = uint64(int64(len(e.data)) + int64(r.Intn(5)) - 2)
			if int64(len(e.data))+2 < 2 && e.declared > 1<<62 {
				e.declared = 0
			}
		case 3:
			pick().declared = common.Pick(r, []uint64{0xFFFFFFFE, 0xFFFFFFFF, 1 << 32, 1 << 62, 1 << 63, 1<<64 - 1, maxZipFile, maxZipFile + 1, maxCUEMod, maxCUEMod + 1})
		case 4:
			pick().crcOK = false
		case 5:
			pick().openOK = false
		case 6:
			pick().kind = common.Pick(r, []byte{'s', 'o', 'd'})
		case 7:
			es = append(es, *pick())
		case 8:
			e := *pick()
			e.name = flipCase(r, e.name)
			es = append(es, e)
		case 9:
			es = append(es, zentry{name: "", kind: 'r', crcOK: true, openOK: true})
		case 10:
			e := pick()
			e.kind = 's'
			e.data = []byte("../../sentinel")
			e.declared = uint64(len(e.data))
		case 11:
			for i := range es {
				if es[i].name == "cue.mod/module.cue" || es[i].name == "LICENSE" {
					es[i].declared = maxCUEMod + uint64(r.Intn(3)) - 1
				}
			}
		case 12: // totals around MaxZipFile (declared only; data stays small)
			var rest uint64
			e := pick()
			for i := range es {
				if &es[i] != e && !strings.HasSuffix(es[i].name, "/") && es[i].declared < maxZipFile {
					rest += es[i].declared
				}
			}
			if rest < maxZipFile {
				e.declared = maxZipFile - rest + uint64(r.Intn(3)) - 1
			}
		case 13:
			zc.pre = 1 + r.Intn(3)
		case 14:
			zc.czsize = common.Pick(r, []int64{maxZipFile, maxZipFile + 1, maxZipFile - 1})
		default:
			e := pick()
			e.name = genPath(r, 80)
		}
	}
	if len(es) == 0 {
		es = append(es, zentry{name: "cue.mod/module.cue", kind: 'r', crcOK: true, openOK: true})
	}
	if r.Chance(1, 4) {
		common.Shuffle(r, es)
	}
	zc.entries = es
	return zc
}
