package main

import "syscall"

func mkfifo(p string) error { return syscall.Mkfifo(p, 0644) }
