package main

import (
	"bytes"
	"compress/flate"
	"encoding/binary"
	"hash/crc32"
	"io"
)

// zentry is one zip.File to be written with fully controlled header fields.
type zentry struct {
	name     string
	declared uint64 // UncompressedSize64 in the headers
	kind     byte   // r d s o : unix mode bits in the external attributes
	data     []byte // what the decompressor will deliver
	crcOK    bool
	openOK   bool // false: unsupported compression method (zf.Open fails)
	method   int  // 0 store, 8 deflate
}

func modeBits(k byte) uint32 {
	switch k {
	case 'd':
		return 0040755
	case 's':
		return 0120777
	case 'o':
		return 0010644
	}
	return 0100644
}

// rawZip writes local headers, a central directory and the end record by hand.
// Declared sizes >= 0xFFFFFFFF use a zip64 extra field in the central directory.
func rawZip(es []zentry) []byte {
	var out bytes.Buffer
	type cd struct {
		off    uint32
		crc    uint32
		csize  uint32
		method uint16
	}
	cds := make([]cd, len(es))
	le := binary.LittleEndian
	w16 := func(b *bytes.Buffer, v uint16) { var x [2]byte; le.PutUint16(x[:], v); b.Write(x[:]) }
	w32 := func(b *bytes.Buffer, v uint32) { var x [4]byte; le.PutUint32(x[:], v); b.Write(x[:]) }
	w64 := func(b *bytes.Buffer, v uint64) { var x [8]byte; le.PutUint64(x[:], v); b.Write(x[:]) }
	for i, e := range es {
		body := e.data
		method := uint16(e.method)
		if method == 8 {
			var cb bytes.Buffer
			fw, _ := flate.NewWriter(&cb, flate.DefaultCompression)
			fw.Write(e.data)
			fw.Close()
			body = cb.Bytes()
		}
		if !e.openOK {
			method = 99
		}
		crc := crc32.ChecksumIEEE(e.data)
		if !e.crcOK {
			crc ^= 0x5a5a5a5a
			if crc == 0 {
				crc = 1
			}
		}
		u32 := uint32(0xFFFFFFFF)
		if e.declared < 0xFFFFFFFF {
			u32 = uint32(e.declared)
		}
		cds[i] = cd{off: uint32(out.Len()), crc: crc, csize: uint32(len(body)), method: method}
		w32(&out, 0x04034b50)
		w16(&out, 45)
		w16(&out, 0)
		w16(&out, method)
		w16(&out, 0)
		w16(&out, 0x21)
		w32(&out, crc)
		w32(&out, uint32(len(body)))
		w32(&out, u32)
		w16(&out, uint16(len(e.name)))
		w16(&out, 0)
		out.WriteString(e.name)
		out.Write(body)
	}
	cdStart := out.Len()
	for i, e := range es {
		var extra bytes.Buffer
		u32 := uint32(0xFFFFFFFF)
		if e.declared < 0xFFFFFFFF {
			u32 = uint32(e.declared)
		} else {
			w16(&extra, 1)
			w16(&extra, 8)
			w64(&extra, e.declared)
		}
		w32(&out, 0x02014b50)
		w16(&out, 3<<8|45)
		w16(&out, 45)
		w16(&out, 0)
		w16(&out, cds[i].method)
		w16(&out, 0)
		w16(&out, 0x21)
		w32(&out, cds[i].crc)
		w32(&out, cds[i].csize)
		w32(&out, u32)
		w16(&out, uint16(len(e.name)))
		w16(&out, uint16(extra.Len()))
		w16(&out, 0)
		w16(&out, 0)
		w16(&out, 0)
		w32(&out, modeBits(e.kind)<<16)
		w32(&out, cds[i].off)
		out.WriteString(e.name)
		out.Write(extra.Bytes())
	}
	cdSize := out.Len() - cdStart
	w32(&out, 0x06054b50)
	w16(&out, 0)
	w16(&out, 0)
	w16(&out, uint16(len(es)))
	w16(&out, uint16(len(es)))
	w32(&out, uint32(cdSize))
	w32(&out, uint32(cdStart))
	w16(&out, 0)
	return out.Bytes()
}

// padReader presents data preceded by `pad` zero bytes without materialising them.
type padReader struct {
	pad  int64
	data []byte
}

func (p *padReader) ReadAt(b []byte, off int64) (int, error) {
	n := 0
	for n < len(b) {
		pos := off + int64(n)
		if pos < p.pad {
			k := int64(len(b) - n)
			if p.pad-pos < k {
				k = p.pad - pos
			}
			clear(b[n : n+int(k)])
			n += int(k)
			continue
		}
		i := pos - p.pad
		if i >= int64(len(p.data)) {
			return n, io.EOF
		}
		c := copy(b[n:], p.data[i:])
		n += c
	}
	return n, nil
}
