(* Driver for the extracted C14 model: one case per input line, one result per
   output line.  Case formats (fields separated by single blanks):
     SV <hexv> <hexw>
        -> cmp=<-1|0|1> valid=<0|1>,<0|1> canon=<hex>,<hex> major=<hex>,<hex> max=<hex>
     MVS <targets> | <m> > <r1> <r2> .. | ..      nodes are path@version
        -> <p@v> <p@v> ...          (or FUEL)
     TR <targets> | <edges> | <S:node|R:node> ...
        -> ACCEPT <p@v> ...  |  REJECT
*)
open C14_model

let rec pos_of_int i = if i = 1 then XH else if i land 1 = 0 then XO (pos_of_int (i lsr 1)) else XI (pos_of_int (i lsr 1))
let n_of_int i = if i = 0 then N0 else Npos (pos_of_int i)
let rec int_of_pos = function XH -> 1 | XO p -> 2 * int_of_pos p | XI p -> 2 * int_of_pos p + 1
let int_of_n = function N0 -> 0 | Npos p -> int_of_pos p
let rec nat_of_int i = if i = 0 then O else S (nat_of_int (i - 1))

let str_of_string s = List.init (String.length s) (fun i -> n_of_int (Char.code s.[i]))
let string_of_str l = String.concat "" (List.map (fun c -> String.make 1 (Char.chr (int_of_n c))) l)

let unhex h =
  if h = "-" then "" else
  String.init (String.length h / 2) (fun i -> Char.chr (int_of_string ("0x" ^ String.sub h (2 * i) 2)))
let hex s = if s = "" then "-" else String.concat "" (List.init (String.length s) (fun i -> Printf.sprintf "%02x" (Char.code s.[i])))

let node_of_tok t =
  match String.index_opt t '@' with
  | None -> (str_of_string t, str_of_string "")
  | Some i -> (str_of_string (String.sub t 0 i), str_of_string (String.sub t (i + 1) (String.length t - i - 1)))
let tok_of_node (p, v) = string_of_str p ^ "@" ^ string_of_str v

let words s = List.filter (fun w -> w <> "") (String.split_on_char ' ' s)

let parse_edges s =
  (* "m > r1 r2 ; m2 > r3" *)
  List.filter_map (fun part ->
      match words part with
      | [] -> None
      | m :: ">" :: rs -> Some (node_of_tok m, List.map node_of_tok rs)
      | m :: [] -> Some (node_of_tok m, [])
      | _ -> failwith ("bad edge " ^ part))
    (String.split_on_char ';' s)

let int_of_cmp = function Eq -> 0 | Lt -> -1 | Gt -> 1
let b2i b = if b then 1 else 0

let handle line =
  match String.split_on_char '|' line with
  | [] -> ""
  | first :: rest ->
    (match words first with
     | "SV" :: hv :: hw :: [] ->
       let v = str_of_string (unhex hv) and w = str_of_string (unhex hw) in
       Printf.sprintf "cmp=%d valid=%d,%d canon=%s,%s major=%s,%s max=%s"
         (int_of_cmp (c14_compare v w)) (b2i (c14_is_valid v)) (b2i (c14_is_valid w))
         (hex (string_of_str (c14_canonical v))) (hex (string_of_str (c14_canonical w)))
         (hex (string_of_str (c14_major v))) (hex (string_of_str (c14_major w)))
         (hex (string_of_str (c14_vmax v w)))
     | "MVS" :: targets ->
       let tbl = parse_edges (List.nth rest 0) in
       (match c14_build_list (nat_of_int 100000) tbl (List.map node_of_tok targets) with
        | None -> "FUEL"
        | Some l -> String.concat " " (List.map tok_of_node l))
     | "TR" :: targets ->
       let tbl = parse_edges (List.nth rest 0) in
       let evs = List.map (fun w ->
           let n = node_of_tok (String.sub w 2 (String.length w - 2)) in
           if w.[0] = 'S' then EStart n else EReturn n) (words (List.nth rest 1)) in
       (match c14_accept (nat_of_int 100000) tbl (List.map node_of_tok targets) evs with
        | None -> "REJECT"
        | Some l -> "ACCEPT " ^ String.concat " " (List.map tok_of_node l))
     | _ -> "BADCASE")

let () =
  try
    while true do
      let line = input_line stdin in
      print_string (handle line); print_newline ()
    done
  with End_of_file -> ()
