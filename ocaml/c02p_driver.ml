(* Driver for the extracted parser-skeleton model (Robust/Parse.v): one case per line.
     PARSE <mx> <eofoff> <eofline> <tok> <tok> ...
        tok = kind:off:line:flag:errs      errs = "-" or off.line;off.line;...
     -> A <maxd> <sexpr>                          accepted, AST shape
      | R <maxd> <nerrs> <minoff> <bailed 0|1>    rejected
      | ESCAPED | FUEL *)
open C02p_model

let rec pos_of_int i = if i = 1 then XH else if i land 1 = 0 then XO (pos_of_int (i lsr 1)) else XI (pos_of_int (i lsr 1))
let n_of_int i = if i = 0 then N0 else Npos (pos_of_int i)
let z_of_int i = if i = 0 then Z0 else if i > 0 then Zpos (pos_of_int i) else Zneg (pos_of_int (-i))
let rec int_of_pos = function XH -> 1 | XO p -> 2 * int_of_pos p | XI p -> 2 * int_of_pos p + 1
let int_of_z = function Z0 -> 0 | Zpos p -> int_of_pos p | Zneg p -> - (int_of_pos p)
let int_of_n = function N0 -> 0 | Npos p -> int_of_pos p
let rec int_of_nat = function O -> 0 | S n -> 1 + int_of_nat n
let nat_of_int i = let r = ref O in for _ = 1 to i do r := S !r done; !r

let parse_errs s =
  if s = "-" then [] else
  List.map (fun w -> match String.split_on_char '.' w with
    | [a; b] -> (z_of_int (int_of_string a), z_of_int (int_of_string b))
    | _ -> failwith "bad err") (String.split_on_char ';' s)

let parse_tok w =
  match String.split_on_char ':' w with
  | [k; o; l; f; e] ->
    { kind = n_of_int (int_of_string k); toff = z_of_int (int_of_string o);
      tline = z_of_int (int_of_string l); flag = (f = "1"); serr = parse_errs e }
  | _ -> failwith ("bad token " ^ w)

let buf = Buffer.create 4096
let rec show x =
  let app = Buffer.add_string buf in
  let opt = function None -> app " nil" | Some e -> app " "; show e in
  match x with
  | ABad -> app "bad" | ABottom -> app "bottom" | AIdent _ -> app "id"
  | ALit k -> app ("lit" ^ string_of_int (int_of_n k))
  | AParen x -> app "(paren "; show x; app ")"
  | AUnary (op, x) -> app ("(un" ^ string_of_int (int_of_n op) ^ " "); show x; app ")"
  | ABinary (op, x, y) -> app ("(bin" ^ string_of_int (int_of_n op) ^ " "); show x; app " "; show y; app ")"
  | ASel x -> app "(sel "; show x; app ")"
  | AIndex (x, i) -> app "(index "; show x; opt i; app ")"
  | ASlice (x, lo, hi) -> app "(slice "; show x; opt lo; opt hi; app ")"
  | ACall (f, l) -> app "(call "; show f; List.iter (fun e -> app " "; show e) l; app ")"
  | AList l -> app "(list"; List.iter (fun e -> app " "; show e) l; app ")"
  | AEllipsis t -> app "(ellipsis"; opt t; app ")"
  | AAlias x -> app "(alias "; show x; app ")"
  | APostfix x -> app "(postfix "; show x; app ")"

let () =
  try
    while true do
      let line = input_line stdin in
      (match String.split_on_char ' ' (String.trim line) with
       | "PARSE" :: mx :: eo :: el :: toks ->
         let toks = List.filter (fun w -> w <> "") toks in
         let l = List.map parse_tok toks in
         let (v, d) = c02p_parse (nat_of_int (int_of_string mx)) l (z_of_int (int_of_string eo), z_of_int (int_of_string el)) in
         (match v with
          | Accept e -> Buffer.clear buf; show e; Printf.printf "A %d %s\n" (int_of_nat d) (Buffer.contents buf)
          | Reject (es, b) ->
            let offs = List.map (fun (o, _) -> int_of_z o) es in
            let mn = List.fold_left min max_int offs in
            Printf.printf "R %d %d %d %d\n" (int_of_nat d) (List.length es) mn (if b then 1 else 0)
          | Escaped -> print_string "ESCAPED\n"
          | OutOfFuel -> print_string "FUEL\n")
       | _ -> print_string "BADCASE\n");
      flush stdout
    done
  with End_of_file -> ()
