(* Driver for the extracted C19 models: one case per input line, one result per
   output line.  Strings are hex ("-" = empty); lists are comma separated.
     SEQ  <labels> | <map k:p,..> | <strings>          -> "<p> <p> ..."      sequential getKey on a table snapshot
     HIST <init labels> | <log>;<log>;.. | <final labels> | <final map>   (log = s:p,s:p,..)
                                                       -> ok | reject         check_history
     ONCE <execs k:tok,..> | <returns k:tok,..>        -> ok | reject         check_once (return tok "-" = no result; 0 is a token: thread 0 of the machine)
     RUN  <recheck 0|1> <nthreads> | <labels> | <map> | A:t:s B:t ..
                                                       -> "<labels> | <log>;<log>.." | NONE   the index machine on a schedule
     ORUN <use_lock 0|1> | C:t:k S:t ..                -> "<execs> | <returns>" | NONE         the Cache.Do machine
*)
open C19_model

let rec pos_of_int i = if i = 1 then XH else if i land 1 = 0 then XO (pos_of_int (i lsr 1)) else XI (pos_of_int (i lsr 1))
let n_of_int i = if i = 0 then N0 else Npos (pos_of_int i)
let rec int_of_pos = function XH -> 1 | XO p -> 2 * int_of_pos p | XI p -> 2 * int_of_pos p + 1
let int_of_n = function N0 -> 0 | Npos p -> int_of_pos p
let nat_of_int i = let rec go acc i = if i = 0 then acc else go (S acc) (i - 1) in go O i
let int_of_nat n = let rec go acc = function O -> acc | S m -> go (acc + 1) m in go 0 n

let str_of_string s = List.init (String.length s) (fun i -> n_of_int (Char.code s.[i]))
let string_of_str l = String.concat "" (List.map (fun c -> String.make 1 (Char.chr (int_of_n c))) l)

let unhex h =
  if h = "-" then "" else
  String.init (String.length h / 2) (fun i -> Char.chr (int_of_string ("0x" ^ String.sub h (2 * i) 2)))
let hex s = if s = "" then "-" else String.concat "" (List.init (String.length s) (fun i -> Printf.sprintf "%02x" (Char.code s.[i])))

let items sep s = List.filter (fun w -> w <> "") (String.split_on_char sep (String.trim s))
let strs s = List.map (fun h -> str_of_string (unhex h)) (items ',' s)
let pair e =
  match String.split_on_char ':' e with
  | [h; p] -> (str_of_string (unhex h), int_of_string p)
  | _ -> failwith ("bad pair " ^ e)
let pairs s = List.map (fun e -> let (k, p) = pair e in (k, nat_of_int p)) (items ',' s)
let opair e =
  match String.split_on_char ':' e with
  | [h; "-"] -> (str_of_string (unhex h), None)
  | [h; p] -> (str_of_string (unhex h), Some (nat_of_int (int_of_string p)))
  | _ -> failwith ("bad pair " ^ e)
let opairs s = List.map opair (items ',' s)
let logs s = List.map pairs (List.map String.trim (String.split_on_char ';' s))
let show_strs l = String.concat "," (List.map (fun s -> hex (string_of_str s)) l)
let show_pairs l = String.concat "," (List.map (fun (s, p) -> hex (string_of_str s) ^ ":" ^ string_of_int (int_of_nat p)) l)
let show_opairs l = String.concat "," (List.map (fun (s, p) -> hex (string_of_str s) ^ ":" ^ (match p with None -> "-" | Some n -> string_of_int (int_of_nat n))) l)

let handle line =
  let fields = List.map String.trim (String.split_on_char '|' line) in
  match fields with
  | [] -> ""
  | first :: rest ->
    let kind, arg0 =
      match String.index_opt first ' ' with
      | None -> (first, "")
      | Some i -> (String.sub first 0 i, String.trim (String.sub first i (String.length first - i))) in
    (match kind, rest with
     | "SEQ", [m; ss] ->
       String.concat " " (List.map (fun p -> string_of_int (int_of_nat p)) (c19_index_seq (strs arg0) (pairs m) (strs ss)))
     | "HIST", [lg; fin; fm] ->
       let lgs = if String.trim lg = "" then [] else logs lg in
       if c19_index_check (strs arg0) lgs (strs fin) (pairs fm) then "ok" else "reject"
     | "ONCE", [rets] ->
       if c19_once_check (pairs arg0) (opairs rets) then "ok" else "reject"
     | "RUN", [lbls; m; sched] ->
       (match items ' ' arg0 with
        | [rc; n] ->
          let sch = List.map (fun w ->
              match String.split_on_char ':' w with
              | ["A"; t; s] -> CallA (nat_of_int (int_of_string t), str_of_string (unhex s))
              | ["B"; t] -> SecB (nat_of_int (int_of_string t))
              | _ -> failwith ("bad label " ^ w)) (items ' ' sched) in
          (match c19_index_run (rc = "1") (strs lbls) (pairs m) (nat_of_int (int_of_string n)) sch with
           | None -> "NONE"
           | Some (l, lg) -> show_strs l ^ " | " ^ String.concat ";" (List.map show_pairs lg))
        | _ -> failwith "bad RUN header")
     | "ORUN", [sched] ->
       let sch = List.map (fun w ->
           match String.split_on_char ':' w with
           | ["C"; t; k] -> Call (nat_of_int (int_of_string t), str_of_string (unhex k))
           | ["S"; t] -> Step (nat_of_int (int_of_string t))
           | _ -> failwith ("bad label " ^ w)) (items ' ' sched) in
       (match c19_once_run (arg0 = "1") sch with
        | None -> "NONE"
        | Some (ex, rt) -> show_pairs ex ^ " | " ^ show_opairs rt)
     | _ -> "BADCASE")

let () =
  try
    while true do
      let line = input_line stdin in
      print_endline (try handle line with e -> "DRIVER-ERROR " ^ Printexc.to_string e)
    done
  with End_of_file -> ()
