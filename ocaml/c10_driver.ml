(* Driver for the extracted C10 model: one case per stdin line, one result per
   stdout line.  Bytes are hex ("-" = empty).
     DEC <hexdoc>      -> cue=<canon|REJECT> spec=<canon|REJECT> cls=<strict><cuemode><dup><range>|- re=<hex|->
     ENC <hexdoc> ..   -> spec=<canon|REJECT> cue=<canon|REJECT> re=<hex>  (model readings of bytes the implementation marshalled;
                          re = the model printer on the model reading)
     STR <hexlit>      -> cue=<ok:hex|err|panic|other> json=<ok:hex|err>
     NUM <hextext>     -> <ok:base:isint:num|err|other> rd=<isint:num|none>
     FMT <0|1> <coeffdigits> <exp>  -> <hex>
     ESC <hexbytes>    -> <hex>
   canon: n t f  #i<sign><coeff>e<exp> / #d...  s<hexutf8>  [a,b]  {k<hex>:v,...}  *)
open C10_model

let rec pos_of_int i = if i = 1 then XH else if i land 1 = 0 then XO (pos_of_int (i lsr 1)) else XI (pos_of_int (i lsr 1))
let n_of_int i = if i = 0 then N0 else Npos (pos_of_int i)
let rec int_of_pos = function XH -> 1 | XO p -> 2 * int_of_pos p | XI p -> 2 * int_of_pos p + 1
let int_of_n = function N0 -> 0 | Npos p -> int_of_pos p

let bytes_of_string s = List.init (String.length s) (fun i -> n_of_int (Char.code s.[i]))
let string_of_bytes l =
  let b = Buffer.create 64 in
  List.iter (fun c -> Buffer.add_char b (Char.chr (int_of_n c land 255))) l;
  Buffer.contents b

let hexv c = match c with
  | '0'..'9' -> Char.code c - 48 | 'a'..'f' -> Char.code c - 87 | 'A'..'F' -> Char.code c - 55
  | _ -> failwith "hex"
let unhex h =
  if h = "-" then "" else
  String.init (String.length h / 2) (fun i -> Char.chr (hexv h.[2*i] * 16 + hexv h.[2*i+1]))
let hex s =
  if s = "" then "-" else begin
    let b = Buffer.create (2 * String.length s) in
    String.iter (fun c -> Buffer.add_string b (Printf.sprintf "%02x" (Char.code c))) s;
    Buffer.contents b
  end

let z_of_string s =
  let neg = String.length s > 0 && s.[0] = '-' in
  let ds = if neg then String.sub s 1 (String.length s - 1) else s in
  match c10_digits_val (bytes_of_string ds) with
  | N0 -> Z0
  | Npos p -> if neg then Zneg p else Zpos p

let n_to_string n = string_of_bytes (c10_N_digits n)
let z_to_string = function
  | Z0 -> "0"
  | Zpos p -> n_to_string (Npos p)
  | Zneg p -> "-" ^ n_to_string (Npos p)

let num_canon isint (d : dec) =
  let zero = (d.dcoeff = N0) in
  Printf.sprintf "#%s%s%se%s" (if isint then "i" else "d")
    (if d.dneg && not zero then "-" else "") (n_to_string d.dcoeff) (z_to_string d.dexp)

let rec canon b (d : data) =
  match d with
  | DNull -> Buffer.add_char b 'n'
  | DBool true -> Buffer.add_char b 't'
  | DBool false -> Buffer.add_char b 'f'
  | DNum (i, x) -> Buffer.add_string b (num_canon i x)
  | DStr s -> Buffer.add_char b 's';
    let u = string_of_bytes (c10_utf8 s) in if u <> "" then Buffer.add_string b (hex u)
  | DList l ->
    Buffer.add_char b '[';
    List.iteri (fun i x -> if i > 0 then Buffer.add_char b ','; canon b x) l;
    Buffer.add_char b ']'
  | DObj l ->
    Buffer.add_char b '{';
    List.iteri (fun i (k, x) ->
        if i > 0 then Buffer.add_char b ',';
        Buffer.add_char b 'k';
        let u = string_of_bytes (c10_utf8 k) in if u <> "" then Buffer.add_string b (hex u);
        Buffer.add_char b ':'; canon b x) l;
    Buffer.add_char b '}'

let canon_opt = function
  | None -> "REJECT"
  | Some d -> let b = Buffer.create 256 in canon b d; Buffer.contents b

let b2c b = if b then '1' else '0'


(* a digit run longer than this is not evaluated (quadratic bignum arithmetic on Coq's N):
   no generated document has one; a marshalled number that has one is reported as TOOLONG *)
let max_digit_run = 3000
let long_digit_run (s : string) =
  let best = ref 0 and cur = ref 0 in
  String.iter (fun c -> if c >= '0' && c <= '9' then (incr cur; if !cur > !best then best := !cur) else cur := 0) s;
  !best > max_digit_run

let handle line =
  match String.split_on_char ' ' line with
  | ("DEC" | "ENC") :: h :: _ when long_digit_run (unhex h) ->
    "cue=TOOLONG spec=TOOLONG cls=- re=-"
  | "DEC" :: h :: _ ->
    let doc = bytes_of_string (unhex h) in
    let cue = canon_opt (c10_cue_decode doc) in
    let spec = canon_opt (c10_spec_decode doc) in
    let cls = match c10_classify doc with
      | None -> "-"
      | Some (((a, b), c), d) -> Printf.sprintf "%c%c%c%c" (b2c a) (b2c b) (b2c c) (b2c d) in
    let re = match c10_reprint doc with None -> "-" | Some p -> hex (string_of_bytes p) in
    Printf.sprintf "cue=%s spec=%s cls=%s re=%s" cue spec cls re
  | "ENC" :: h :: _ ->
    let doc = bytes_of_string (unhex h) in
    let re = match c10_reprint doc with None -> "-" | Some p -> hex (string_of_bytes p) in
    Printf.sprintf "spec=%s cue=%s re=%s" (canon_opt (c10_spec_decode doc)) (canon_opt (c10_cue_decode doc)) re
  | "STR" :: h :: _ ->
    let t = bytes_of_string (unhex h) in
    let cue = match c10_unquote t with
      | UOk v -> "ok:" ^ hex (string_of_bytes v)
      | UErr -> "err" | UPanic -> "panic" | UOther -> "other" in
    let js = match c10_unescape t with
      | Some v -> "ok:" ^ hex (string_of_bytes v)
      | None -> "err" in
    Printf.sprintf "cue=%s json=%s" cue js
  | "NUM" :: h :: _ ->
    let t = bytes_of_string (unhex h) in
    let a = match c10_parse_num t with
      | PNErr -> "err"
      | PNOther -> "other"
      | PNOk (base, isf, buf) ->
        if int_of_n base = 10 then
          (match c10_apd buf with
           | Some d -> Printf.sprintf "ok:10:%c:%s" (b2c (not isf)) (num_canon (not isf) d)
           | None -> "err")
        else Printf.sprintf "ok:%d:%c:-" (int_of_n base) (b2c (not isf)) in
    let rd = match c10_read_number t with
      | None -> "none"
      | Some (isint, d) -> num_canon isint d in
    Printf.sprintf "%s rd=%s" a rd
  | "FMT" :: neg :: coeff :: e :: _ ->
    let c = c10_digits_val (bytes_of_string coeff) in
    hex (string_of_bytes (c10_format_G (neg = "1") c (z_of_string e)))
  | "ESC" :: h :: _ ->
    hex (string_of_bytes (c10_go_string (bytes_of_string (unhex h))))
  | _ -> "BADCASE"

let () =
  try
    while true do
      let line = input_line stdin in
      print_string (handle line); print_newline ()
    done
  with End_of_file -> ()
