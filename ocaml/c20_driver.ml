(* Driver for the extracted C20 model.
   TRIM <labs> <atoms> | <decl> ; <decl> ... | <mask>
     decl = <file>:<path> <sexpr>     path = "-" or steps "r0=/r1?/h0!" (label, field kind)
     mask = one character per declaration, 1 = removed by the implementation
   -> <value of P> <value of P minus removed> <ACCEPT|REJECT> <mask the reference trimmer removes> <length of trim_model P>
   FP ...    (same syntax) -> the fingerprint (accept, trimmer mask, bits of both result trees) compared with vm_compute *)
open C20_model

let rec pos_of_int i = if i = 1 then XH else if i land 1 = 0 then XO (pos_of_int (i lsr 1)) else XI (pos_of_int (i lsr 1))
let n_of_int i = if i = 0 then N0 else Npos (pos_of_int i)
let z_of_int i = if i = 0 then Z0 else if i > 0 then Zpos (pos_of_int i) else Zneg (pos_of_int (-i))
let rec nat_of_int i = if i = 0 then O else S (nat_of_int (i - 1))

type sx = A of string | L of sx list

let tokenize s =
  let toks = ref [] and buf = Buffer.create 16 in
  let flush () = if Buffer.length buf > 0 then (toks := Buffer.contents buf :: !toks; Buffer.clear buf) in
  String.iter (fun c ->
      match c with
      | '(' | ')' -> flush (); toks := String.make 1 c :: !toks
      | ' ' | '\t' -> flush ()
      | c -> Buffer.add_char buf c) s;
  flush (); List.rev !toks

let rec parse_sx toks =
  match toks with
  | "(" :: r -> let (items, r') = parse_list r [] in (L items, r')
  | ")" :: _ -> failwith "unexpected )"
  | t :: r -> (A t, r)
  | [] -> failwith "eof"
and parse_list toks acc =
  match toks with
  | ")" :: r -> (List.rev acc, r)
  | [] -> failwith "eof in list"
  | _ -> let (x, r) = parse_sx toks in parse_list r (x :: acc)

let label_of s =
  let id = n_of_int (int_of_string (String.sub s 1 (String.length s - 1))) in
  match s.[0] with 'r' -> LReg id | 'h' -> LHid id | 'd' -> LDef id | _ -> failwith ("label " ^ s)

let atom_of s =
  match s.[0] with
  | 'i' -> AInt (z_of_int (int_of_string (String.sub s 1 (String.length s - 1))))
  | 's' -> AStr (n_of_int (int_of_string (String.sub s 1 (String.length s - 1))))
  | 'b' -> ABool (s = "b1")
  | 'n' -> ANull
  | _ -> failwith ("atom " ^ s)

let kind_of = function "int" -> KInt | "string" -> KStr | "bool" -> KBool | "null" -> KNull | k -> failwith ("kind " ^ k)
let fk_of = function "=" -> FRegular | "!" -> FRequired | "?" -> FOptional | k -> failwith ("fk " ^ k)
let zi s = z_of_int (int_of_string s)

let rec expr_of = function
  | A "T" -> ETop
  | A "B" -> EBot
  | L [A "a"; A x] -> EScalar (SAtom (atom_of x))
  | L [A "k"; A k] -> EScalar (SKind (kind_of k))
  | L [A "gt"; A z] -> EScalar (SGt (zi z))
  | L [A "ge"; A z] -> EScalar (SGe (zi z))
  | L [A "lt"; A z] -> EScalar (SLt (zi z))
  | L [A "le"; A z] -> EScalar (SLe (zi z))
  | L [A "ne"; A z] -> EScalar (SNe (zi z))
  | L [A "&"; a; b] -> EAnd (expr_of a, expr_of b)
  | L [A "c"; e] -> EClose (expr_of e)
  | L [A "r"; e] -> ERefDef (expr_of e)
  | L (A "s" :: ds) -> EStruct (List.map decl_of ds)
  | _ -> failwith "expr"
and decl_of = function
  | L [A "f"; A l; A k; e] -> (HField (label_of l, fk_of k), expr_of e)
  | L [A "p"; A ids; e] ->
    let ids = if ids = "-" then [] else List.map (fun x -> n_of_int (int_of_string x)) (String.split_on_char ',' ids) in
    (HPattern ids, expr_of e)
  | L [A "..."] -> (HEllipsis, ETop)
  | L [A "e"; e] -> (HEmbed, expr_of e)
  | _ -> failwith "decl"

let bits l = String.concat "" (List.map (fun b -> if b then "1" else "0") l)

let cur_labs : label list ref = ref []
let open_bits o =
  String.concat "" (List.map2 (fun l b -> match l with LReg _ -> if b then "1" else "0" | _ -> "1") !cur_labs o)

let rec show r =
  if c20_err r then "E" else
    match r with
    | RBot | RFuel -> "E"
    | RVal (k, a, p) -> "V" ^ bits k ^ ":" ^ bits a ^ ":" ^ bits p
    | RStruct (fs, o) ->
      "{" ^ String.concat "," (List.map (fun (p, r') ->
          match p with
          | PAbsent -> "-"
          | POptional -> "?" ^ show_nested r'
          | PRequired -> "!" ^ show_nested r'
          | PRegular -> "=" ^ show r') fs) ^ "|" ^ open_bits o ^ "}"
and show_nested r =
  if c20_err r then "E" else
    match r with
    | RVal (k, a, p) -> "V" ^ bits k ^ ":" ^ bits a ^ ":" ^ bits (List.map (fun _ -> false) p)
    | _ -> show r

let split_trim sep s = List.map String.trim (String.split_on_char sep s)

let path_of s =
  if s = "-" then [] else
    List.map (fun st ->
        let n = String.length st in
        (label_of (String.sub st 0 (n - 1)), fk_of (String.make 1 st.[n - 1]))) (String.split_on_char '/' s)

let decl_of_string s =
  (* "<file>:<path> <sexpr>" *)
  let sp = String.index s ' ' in
  let head = String.sub s 0 sp and body = String.sub s (sp + 1) (String.length s - sp - 1) in
  let colon = String.index head ':' in
  let file = int_of_string (String.sub head 0 colon) in
  let path = path_of (String.sub head (colon + 1) (String.length head - colon - 1)) in
  let (sx, _) = parse_sx (tokenize body) in
  { d_file = n_of_int file; d_path = path; d_val = expr_of sx }

let handle line =
  match split_trim '|' line with
  | [head; body; mask] ->
    (match List.filter (fun w -> w <> "") (String.split_on_char ' ' head) with
     | ["TRIM"; labs; atoms] ->
       let labs = List.map label_of (String.split_on_char ',' labs) in
       cur_labs := labs;
       let atoms = List.map atom_of (String.split_on_char ',' atoms) in
       let p = List.map decl_of_string (List.filter (fun s -> s <> "") (split_trim ';' body)) in
       let m = List.map (fun c -> c = '1') (List.init (String.length mask) (String.get mask)) in
       if List.length m <> List.length p then "BADMASK" else
         let fuel = nat_of_int 40 in
         let v0 = c20_final labs atoms fuel p in
         let v1 = c20_final labs atoms fuel (c20_keepm m p) in
         let acc = c20_accepts_mask m p in
         let mm = c20_trim_mask p in
         show v0 ^ " " ^ show v1 ^ " " ^ (if acc then "ACCEPT" else "REJECT") ^ " " ^ bits mm
         ^ " " ^ string_of_int (List.length (c20_trim_model p))
     | ["FP"; labs; atoms] ->
       let labs = List.map label_of (String.split_on_char ',' labs) in
       let atoms = List.map atom_of (String.split_on_char ',' atoms) in
       let p = List.map decl_of_string (List.filter (fun s -> s <> "") (split_trim ';' body)) in
       let m = List.map (fun c -> c = '1') (List.init (String.length mask) (String.get mask)) in
       let (((acc, mm), b0), b1) = c20_fingerprint labs atoms m p in
       (if acc then "1" else "0") ^ " " ^ bits mm ^ " " ^ bits b0 ^ " " ^ bits b1
     | _ -> "BADCASE")
  | _ -> "BADCASE"

let () =
  try
    while true do
      let line = input_line stdin in
      (try print_string (handle line) with Failure m -> print_string ("MODEL-FAIL " ^ m) | Not_found -> print_string "MODEL-FAIL parse");
      print_newline ()
    done
  with End_of_file -> ()
