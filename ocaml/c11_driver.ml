(* Driver for the extracted C11 model.  One case per line:
     D .. / J ..  (cases decided on the implementation alone) -> "-"
     P <ctx> <hex s> <hex text> np=<hexrune,..|-> f=<numT><numS><isnum><ts><litok> m=<0|1>
   -> style=<P|S|D|L> kind=<P|SC|SG|D|L> emit=<hex> read=<hex|NONE> quirk=<0..4>
   Strings are UTF-8 in hex; the model works on code points. *)
open C11_model

let rec pos_of_int i = if i = 1 then XH else if i land 1 = 0 then XO (pos_of_int (i lsr 1)) else XI (pos_of_int (i lsr 1))
let n_of_int i = if i = 0 then N0 else Npos (pos_of_int i)
let rec int_of_pos = function XH -> 1 | XO p -> 2 * int_of_pos p | XI p -> 2 * int_of_pos p + 1
let int_of_n = function N0 -> 0 | Npos p -> int_of_pos p
let rec nat_of_int i = if i = 0 then O else S (nat_of_int (i - 1))

let unhex h =
  if h = "-" then "" else
  String.init (String.length h / 2) (fun i -> Char.chr (int_of_string ("0x" ^ String.sub h (2 * i) 2)))
let hex s = if s = "" then "-" else String.concat "" (List.init (String.length s) (fun i -> Printf.sprintf "%02x" (Char.code s.[i])))

(* UTF-8 -> code points (the harness only produces valid UTF-8) *)
let decode_utf8 s =
  let n = String.length s in
  let rec go i acc =
    if i >= n then List.rev acc else
    let c = Char.code s.[i] in
    if c < 0x80 then go (i + 1) (c :: acc)
    else if c < 0xE0 && i + 1 < n then go (i + 2) ((((c land 0x1F) lsl 6) lor (Char.code s.[i+1] land 0x3F)) :: acc)
    else if c < 0xF0 && i + 2 < n then go (i + 3) ((((c land 0x0F) lsl 12) lor ((Char.code s.[i+1] land 0x3F) lsl 6) lor (Char.code s.[i+2] land 0x3F)) :: acc)
    else if i + 3 < n then go (i + 4) ((((c land 0x07) lsl 18) lor ((Char.code s.[i+1] land 0x3F) lsl 12) lor ((Char.code s.[i+2] land 0x3F) lsl 6) lor (Char.code s.[i+3] land 0x3F)) :: acc)
    else go (i + 1) (0xFFFD :: acc) in
  go 0 []
let encode_utf8 cs =
  let b = Buffer.create 16 in
  List.iter (fun c ->
      if c < 0x80 then Buffer.add_char b (Char.chr c)
      else if c < 0x800 then (Buffer.add_char b (Char.chr (0xC0 lor (c lsr 6))); Buffer.add_char b (Char.chr (0x80 lor (c land 0x3F))))
      else if c < 0x10000 then (Buffer.add_char b (Char.chr (0xE0 lor (c lsr 12))); Buffer.add_char b (Char.chr (0x80 lor ((c lsr 6) land 0x3F))); Buffer.add_char b (Char.chr (0x80 lor (c land 0x3F))))
      else (Buffer.add_char b (Char.chr (0xF0 lor ((c lsr 18) land 7))); Buffer.add_char b (Char.chr (0x80 lor ((c lsr 12) land 0x3F))); Buffer.add_char b (Char.chr (0x80 lor ((c lsr 6) land 0x3F))); Buffer.add_char b (Char.chr (0x80 lor (c land 0x3F))))) cs;
  Buffer.contents b

let str_of_string s = List.map n_of_int (decode_utf8 s)
let string_of_str l = encode_utf8 (List.map int_of_n l)

let words s = List.filter (fun w -> w <> "") (String.split_on_char ' ' s)
let after_eq w = let i = String.index w '=' in String.sub w (i + 1) (String.length w - i - 1)

(* ctx -> is_key, col0, root, p, n, suffix, followed *)
let ctx_info = function
  | "R" -> (false, true, true, 0, 2, "\n", false)
  | "V" -> (false, false, false, 0, 2, "\n", false)
  | "K" -> (true, true, false, 0, 2, ": 1\n", true)
  | "E" -> (false, false, false, 0, 2, "\n", false)
  | "NV" -> (false, false, false, 2, 4, "\n", false)
  | "NK" -> (true, false, false, 2, 4, ": 1\n", true)
  | "NE" -> (false, false, false, 2, 4, "\n", false)
  | "VF" -> (false, false, false, 0, 2, "\n", true)
  | "EF" -> (false, false, false, 0, 2, "\n", true)
  | "NVF" -> (false, false, false, 2, 4, "\n", true)
  | "NEF" -> (false, false, false, 2, 4, "\n", true)
  | c -> failwith ("bad ctx " ^ c)

(* ---- whole documents: W / Z lm=<0|1> <tree> <hex text> np=.. o=<hex>:<abc>;.. ---- *)
let parse_tree s : data =
  let n = String.length s in
  let pos = ref 0 in
  let peek () = if !pos < n then s.[!pos] else '\000' in
  let upto stops =
    let st = !pos in
    while !pos < n && not (String.contains stops s.[!pos]) do incr pos done;
    String.sub s st (!pos - st) in
  let rec node () =
    match peek () with
    | '[' ->
      incr pos;
      let items = ref [] in
      while peek () <> ']' do
        items := node () :: !items;
        if peek () = ',' then incr pos else failwith "expected ,"
      done;
      incr pos; DSeq (List.rev !items)
    | '{' ->
      incr pos;
      let items = ref [] in
      while peek () <> '}' do
        let k = upto "=" in
        incr pos;
        let v = node () in
        items := (str_of_string (unhex k), v) :: !items;
        if peek () = ',' then incr pos else failwith "expected ,"
      done;
      incr pos; DMap (List.rev !items)
    | 'n' -> incr pos; DNull
    | c ->
      pos := !pos + 2;
      let body = upto ",]}" in
      (match c with
       | 's' -> DStr (str_of_string (unhex body))
       | 'y' -> DBytes (str_of_string (unhex body))
       | 'i' -> DInt (str_of_string body)
       | 'f' -> DFloat (str_of_string body)
       | 'b' -> DBool (body = "1")
       | _ -> failwith "bad scalar") in
  let d = node () in
  if !pos <> n then failwith "trailing"; d

let rec print_tree (d : data) =
  match d with
  | DNull -> "n"
  | DBool b -> if b then "b:1" else "b:0"
  | DInt t -> "i:" ^ string_of_str t
  | DFloat t -> "f:" ^ string_of_str t
  | DStr s -> "s:" ^ hex (string_of_str s)
  | DBytes b -> "y:" ^ hex (string_of_str b)
  | DSeq l -> "[" ^ String.concat "" (List.map (fun e -> print_tree e ^ ",") l) ^ "]"
  | DMap l -> "{" ^ String.concat "" (List.map (fun (k, v) -> hex (string_of_str k) ^ "=" ^ print_tree v ^ ",") l) ^ "}"

let handle_doc stream lm tree text np o =
  let np = after_eq np and o = after_eq o and lm = after_eq lm in
  let npl = if np = "-" then [] else List.map (fun h -> n_of_int (int_of_string ("0x" ^ h))) (String.split_on_char ',' np) in
  let tbl = if o = "" then [] else
      List.map (fun e ->
          let i = String.index e ':' in
          let h = String.sub e 0 i and f = String.sub e (i + 1) 3 in
          (str_of_string (unhex h), (f.[0] = '1', (f.[1] = '1', f.[2] = '1')))) (String.split_on_char ';' o) in
  let d = parse_tree tree in
  let ((em, rd), (risky, unmod)) = c11_doc npl tbl (lm = "1") stream d (str_of_string (unhex text)) in
  Printf.sprintf "emit=%s read=%s risky=%d unmod=%d" (hex (string_of_str em))
    (match rd with None -> "NONE" | Some v -> print_tree v) (if risky then 1 else 0) (if unmod then 1 else 0)

let handle line =
  match words line with
  | ("W" | "Z" as k) :: lm :: tree :: text :: np :: o :: [] -> handle_doc (k = "Z") lm tree text np o
  | "P" :: ctx :: hs :: ht :: np :: f :: m :: [] ->
    let (is_key, col0, root, p, n, suffix, followed) = ctx_info ctx in
    let s = str_of_string (unhex hs) and text = str_of_string (unhex ht) in
    let np = after_eq np and f = after_eq f and m = after_eq m in
    let npl = if np = "-" then [] else List.map (fun h -> n_of_int (int_of_string ("0x" ^ h))) (String.split_on_char ',' np) in
    let bit i = f.[i] = '1' in
    let (((st, em), rd), q) = c11_probe npl (bit 0) (bit 1) (bit 2) (bit 3) (bit 4) is_key (m = "1") col0 root followed
        (nat_of_int p) (nat_of_int n) (str_of_string suffix) s text in
    let kind = match int_of_n st with 0 -> "P" | 1 -> "SC" | 2 -> "SG" | 3 -> "D" | _ -> "L" in
    let style = match kind with "SC" | "SG" -> "S" | k -> k in
    (* the emitted text is followed by the suffix, except for literal blocks *)
    let em = string_of_str em ^ (if kind = "L" then "" else suffix) in
    Printf.sprintf "style=%s kind=%s emit=%s read=%s quirk=%d" style kind (hex em)
      (match rd with None -> "NONE" | Some v -> hex (string_of_str v)) (int_of_n q)
  | ("D" | "J" | "B") :: _ -> "-"
  | _ -> "BADCASE"

let () =
  try
    while true do
      let line = input_line stdin in
      print_string (handle line); print_newline ()
    done
  with End_of_file -> ()
