(* Driver for the extracted C02 sub-models (errors.Sanitize, toposort).
   One case per stdin line, one result per stdout line.

   SAN <group> <Z|S|L> <rec> <rec> ...
       rec  = <pos>;<path>;<msg>;<aux>
       pos  = N (NoPos) | P<hexname>:<offset>:<bits>      (hexname may be empty)
       path = _ (no elements) | <hex>,<hex>,...            (- = empty string)
       msg  = <hex> (- = empty);  aux = decimal id of the Go error value
     -> Z | S <aux> | L <aux> <aux> ...   followed by " | coh=<p><r> printed=<aux>,..."
        p = position-coherent, r = record-coherent (1/0)
   TOPO <label> ... | <a>><b> ...        label = i<dec> | s<hex>
     -> <label> ...  | STUCK
   ORD <label> ... | <label> ... | ...          x: {..} & {..} (explicit unification of literals)
     -> <label> ...  | STUCK
   ORDX <shape> | <label> ... | <label> ...     refs: s0: {..} s1: {..} x: s0 & s1   (merge_orders)
                                                implicit / embed / refs-implicit      (implicit_orders)
     -> <label> ...  | STUCK
*)
open C02s_model

let rec pos_of_int i = if i = 1 then XH else if i land 1 = 0 then XO (pos_of_int (i lsr 1)) else XI (pos_of_int (i lsr 1))
let n_of_int i = if i = 0 then N0 else Npos (pos_of_int i)
let rec int_of_pos = function XH -> 1 | XO p -> 2 * int_of_pos p | XI p -> 2 * int_of_pos p + 1
let int_of_n = function N0 -> 0 | Npos p -> int_of_pos p

let str_of_string s = List.init (String.length s) (fun i -> n_of_int (Char.code s.[i]))
let string_of_str l = String.concat "" (List.map (fun c -> String.make 1 (Char.chr (int_of_n c))) l)
let unhex h =
  if h = "-" || h = "" then "" else
  String.init (String.length h / 2) (fun i -> Char.chr (int_of_string ("0x" ^ String.sub h (2 * i) 2)))
let hex s = if s = "" then "-" else String.concat "" (List.init (String.length s) (fun i -> Printf.sprintf "%02x" (Char.code s.[i])))
let words s = List.filter (fun w -> w <> "") (String.split_on_char ' ' s)

let parse_pos s =
  if s = "N" then NoPos else
  match String.split_on_char ':' (String.sub s 1 (String.length s - 1)) with
  | [f; o; b] -> Pos (str_of_string (unhex f), n_of_int (int_of_string o), n_of_int (int_of_string b))
  | _ -> failwith ("bad pos " ^ s)

let parse_path s =
  if s = "_" then [] else List.map (fun h -> str_of_string (unhex h)) (String.split_on_char ',' s)

let parse_rec s =
  match String.split_on_char ';' s with
  | [p; pa; m; a] -> { e_pos = parse_pos p; e_path = parse_path pa; e_msg = str_of_string (unhex m); e_aux = n_of_int (int_of_string a) }
  | _ -> failwith ("bad rec " ^ s)

let aux e = string_of_int (int_of_n e.e_aux)

let label_of_tok t =
  if t.[0] = 'i' then LInt (n_of_int (int_of_string (String.sub t 1 (String.length t - 1))))
  else LStr (str_of_string (unhex (String.sub t 1 (String.length t - 1))))
let tok_of_label = function
  | LInt i -> "i" ^ string_of_int (int_of_n i)
  | LStr s -> "s" ^ hex (string_of_str s)

let show_topo = function
  | None -> "STUCK"
  | Some l -> String.concat " " (List.map tok_of_label l)

let b2s b = if b then "1" else "0"

let handle line =
  match words line with
  | "SAN" :: _g :: shape :: recs ->
    let es = List.map parse_rec recs in
    let inp = (match shape with
        | "Z" -> CNil
        | "S" -> CSingle (List.hd es)
        | "L" -> CList es
        | _ -> failwith "bad shape") in
    let out = (match c02s_sanitize inp with
        | CNil -> "Z"
        | CSingle e -> "S " ^ aux e
        | CList l -> String.concat " " ("L" :: List.map aux l)) in
    let (p, r) = c02s_coherent es in
    Printf.sprintf "%s | coh=%s%s printed=%s" out (b2s p) (b2s r)
      (String.concat "," (List.map aux (c02s_printed inp)))
  | "TOPO" :: _ ->
    (match String.split_on_char '|' line with
     | [ns; es] ->
       let nodes = List.map label_of_tok (List.tl (words ns)) in
       let edges = List.map (fun w ->
           match String.split_on_char '>' w with
           | [a; b] -> (label_of_tok a, label_of_tok b)
           | _ -> failwith ("bad edge " ^ w)) (words es) in
       show_topo (c02s_topo nodes edges)
     | _ -> "BADCASE")
  | "ORDX" :: shape :: _ ->
    (match String.split_on_char '|' line with
     | _ :: parts ->
       let os = List.map (fun p -> List.map label_of_tok (words p)) parts in
       show_topo (if shape = "refs" then c02s_merge os else c02s_implicit os)
     | _ -> "BADCASE")
  | "ORD" :: _ ->
    let parts = String.split_on_char '|' (String.sub line 3 (String.length line - 3)) in
    let os = List.map (fun p -> List.map label_of_tok (words p)) parts in
    show_topo (c02s_merge os)
  | _ -> "BADCASE"

let () =
  try
    while true do
      let line = input_line stdin in
      print_string (try handle line with Failure m -> "BADCASE " ^ m); print_newline ()
    done
  with End_of_file -> ()
