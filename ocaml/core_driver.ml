(* Driver for the extracted CoreCUE model.
   EVAL <labs> <atoms> | <sexpr> ; <sexpr> ...     -> canonical form of evalNode
   Each conjunct may be prefixed with "1:" (inside a definition) - default 0. *)
open Core_model

let rec pos_of_int i = if i = 1 then XH else if i land 1 = 0 then XO (pos_of_int (i lsr 1)) else XI (pos_of_int (i lsr 1))
let n_of_int i = if i = 0 then N0 else Npos (pos_of_int i)
let z_of_int i = if i = 0 then Z0 else if i > 0 then Zpos (pos_of_int i) else Zneg (pos_of_int (-i))
let rec nat_of_int i = if i = 0 then O else S (nat_of_int (i - 1))

(* ---- s-expressions ---- *)
type sx = A of string | L of sx list

let tokenize s =
  let toks = ref [] and buf = Buffer.create 16 in
  let flush () = if Buffer.length buf > 0 then (toks := Buffer.contents buf :: !toks; Buffer.clear buf) in
  String.iter (fun c ->
      match c with
      | '(' | ')' -> flush (); toks := String.make 1 c :: !toks
      | ' ' | '\t' -> flush ()
      | c -> Buffer.add_char buf c) s;
  flush (); List.rev !toks

let rec parse_sx toks =
  match toks with
  | "(" :: r -> let (items, r') = parse_list r [] in (L items, r')
  | ")" :: _ -> failwith "unexpected )"
  | t :: r -> (A t, r)
  | [] -> failwith "eof"
and parse_list toks acc =
  match toks with
  | ")" :: r -> (List.rev acc, r)
  | [] -> failwith "eof in list"
  | _ -> let (x, r) = parse_sx toks in parse_list r (x :: acc)

let label_of s =
  let id = n_of_int (int_of_string (String.sub s 1 (String.length s - 1))) in
  match s.[0] with 'r' -> LReg id | 'h' -> LHid id | 'd' -> LDef id | _ -> failwith ("label " ^ s)

let atom_of s =
  match s.[0] with
  | 'i' -> AInt (z_of_int (int_of_string (String.sub s 1 (String.length s - 1))))
  | 's' -> AStr (n_of_int (int_of_string (String.sub s 1 (String.length s - 1))))
  | 'b' -> ABool (s = "b1")
  | 'n' -> ANull
  | _ -> failwith ("atom " ^ s)

let kind_of = function "int" -> KInt | "string" -> KStr | "bool" -> KBool | "null" -> KNull | k -> failwith ("kind " ^ k)
let fk_of = function "=" -> FRegular | "!" -> FRequired | "?" -> FOptional | k -> failwith ("fk " ^ k)
let zi s = z_of_int (int_of_string s)

let rec expr_of = function
  | A "T" -> ETop
  | A "B" -> EBot
  | L [A "a"; A x] -> EScalar (SAtom (atom_of x))
  | L [A "k"; A k] -> EScalar (SKind (kind_of k))
  | L [A "gt"; A z] -> EScalar (SGt (zi z))
  | L [A "ge"; A z] -> EScalar (SGe (zi z))
  | L [A "lt"; A z] -> EScalar (SLt (zi z))
  | L [A "le"; A z] -> EScalar (SLe (zi z))
  | L [A "ne"; A z] -> EScalar (SNe (zi z))
  | L [A "&"; a; b] -> EAnd (expr_of a, expr_of b)
  | L [A "c"; e] -> EClose (expr_of e)
  | L [A "r"; e] -> ERefDef (expr_of e)
  | L (A "s" :: ds) -> EStruct (List.map decl_of ds)
  | _ -> failwith "expr"
and decl_of = function
  | L [A "f"; A l; A k; e] -> (HField (label_of l, fk_of k), expr_of e)
  | L [A "p"; A ids; e] ->
    let ids = if ids = "-" then [] else List.map (fun x -> n_of_int (int_of_string x)) (String.split_on_char ',' ids) in
    (HPattern ids, expr_of e)
  | L [A "..."] -> (HEllipsis, ETop)
  | L [A "e"; e] -> (HEmbed, expr_of e)
  | _ -> failwith "decl"

(* ---- printing ---- *)
let bits l = String.concat "" (List.map (fun b -> if b then "1" else "0") l)

let no_open = ref false
let cur_labs : label list ref = ref []
let open_bits o =
  (* hidden/definition labels are never probed by the harness: always 1 *)
  String.concat "" (List.map2 (fun l b -> match l with LReg _ -> if b then "1" else "0" | _ -> "1") !cur_labs o)

let rec show r =
  if core_err r then "E" else
    match r with
    | RBot | RFuel -> "E"
    | RVal (k, a, p) -> "V" ^ bits k ^ ":" ^ bits a ^ ":" ^ bits p
    | RStruct (fs, o) ->
      "{" ^ String.concat "," (List.map (fun (p, r') ->
          match p with
          | PAbsent -> "-"
          | POptional -> "?" ^ show_nested r'
          | PRequired -> "!" ^ show_nested r'
          | PRegular -> "=" ^ show r') fs) ^ (if !no_open then "" else "|" ^ open_bits o) ^ "}"
and show_nested r =
  (* the API does not report values of optional/required fields as concrete: mask the pin bits *)
  if core_err r then "E" else
    match r with
    | RVal (k, a, p) -> "V" ^ bits k ^ ":" ^ bits a ^ ":" ^ bits (List.map (fun _ -> false) p)
    | _ -> show r

let split_on_string sep s =
  (* split on " ; " / " | " style separators given as a single char surrounded by blanks *)
  List.map String.trim (String.split_on_char sep s)

let parse_disj s =
  (* "*sexpr , sexpr , ..." *)
  List.map (fun d ->
      let d = String.trim d in
      let (m, d) = if String.length d > 0 && d.[0] = '*' then (true, String.sub d 1 (String.length d - 1)) else (false, d) in
      let (sx, _) = parse_sx (tokenize d) in
      (m, expr_of sx)) (List.filter (fun x -> String.trim x <> "") (String.split_on_char ',' s))


(* ---- NEST: struct-level disjunctions whose fields hold disjunctions (Core/Nest.v) ----
   NEST <labs> <atoms> | term ; term ... | (or (m term ...) (u term ...)) ; ...
   term ::= (lit (f <label> item ...) ...) | (sc <scalar sexpr>) | (bot)
   item ::= <expr sexpr> | (or (m <expr>) (u <expr>) ...)                                  *)
let alt_of f = function
  | L (A "m" :: xs) -> (true, f xs)
  | L (A "u" :: xs) -> (false, f xs)
  | _ -> failwith "alt"

let fval_of items =
  let plain = ref [] and ds = ref [] in
  List.iter (function
      | L (A "or" :: alts) ->
        ds := List.map (alt_of (function [e] -> expr_of e | _ -> failwith "field alt")) alts :: !ds
      | e -> plain := expr_of e :: !plain) items;
  { fv_plain = List.rev !plain; fv_disjs = List.rev !ds }

let term_of = function
  | L (A "lit" :: fs) ->
    TLit (List.map (function L (A "f" :: A l :: items) -> (label_of l, fval_of items) | _ -> failwith "lit field") fs)
  | L [A "sc"; e] -> (match expr_of e with EScalar c -> TScalar c | _ -> failwith "sc")
  | L [A "bot"] -> TBot
  | _ -> failwith "term"

let show_fout (r, acc) =
  (match r with Chosen v -> "C" ^ show v | Ambiguous -> "A" | NoValue -> "N") ^ "/" ^ bits acc

let show_aval = function
  | AErr -> "E"
  | AScal r -> show r
  | AStruct fs -> "{" ^ String.concat "," (List.map (fun (p, o) -> if p then "=" ^ show_fout o else "-") fs) ^ "}"

let sx_list s =
  let rec go toks acc = match toks with [] -> List.rev acc | _ -> let (x, r) = parse_sx toks in go r (x :: acc) in
  go (tokenize s) []

let handle_nest labs atoms plain disjs =
  let labs = List.map label_of (String.split_on_char ',' labs) in
  let atoms = List.map atom_of (String.split_on_char ',' atoms) in
  cur_labs := labs; no_open := true;
  let plain = List.concat_map (fun s -> List.map term_of (sx_list s)) (split_on_string ';' plain) in
  let ds = List.concat_map (fun s -> List.map (function
      | L (A "or" :: alts) -> List.map (alt_of (List.map term_of)) alts
      | _ -> failwith "sdisj") (sx_list s)) (split_on_string ';' disjs) in
  let ((((r, acc), sens), nv), twins) = core_eval_nest labs atoms (nat_of_int 40) plain ds in
  let rec int_of_nat = function O -> 0 | S n -> 1 + int_of_nat n in
  let out = (match r with
      | GChosen v -> "CHOSEN " ^ show_aval v
      | GAmbiguous -> "AMBIG " ^ string_of_int (int_of_nat nv)
      | GNoValue -> "NOVALUE -") ^ " " ^ bits acc ^ (if twins then " TWINS" else "") ^ (if sens then " SENS" else "") in
  no_open := false; out

let handle_disj head plain disjs =
  match List.filter (fun w -> w <> "") (String.split_on_char ' ' head) with
  | ["DISJ"; labs; atoms] ->
    let labs = List.map label_of (String.split_on_char ',' labs) in
    let atoms = List.map atom_of (String.split_on_char ',' atoms) in
    cur_labs := labs; no_open := true;
    let plain = List.map (fun s -> let (sx, _) = parse_sx (tokenize s) in expr_of sx)
        (List.filter (fun s -> s <> "") (split_on_string ';' plain)) in
    let ds = List.map parse_disj (List.filter (fun s -> s <> "") (split_on_string ';' disjs)) in
    let (((r, acc), late), vals) = core_eval_disj labs atoms (nat_of_int 40) plain ds in
    let out = (match r with
        | Chosen v -> "CHOSEN " ^ show v
        | Ambiguous -> "AMBIG -"
        | NoValue -> "NOVALUE -") ^ " " ^ bits acc ^ (if late then " LATE " ^ String.concat ";" (List.map show vals) else "") in
    no_open := false; out
  | ["NEST"; labs; atoms] -> handle_nest labs atoms plain disjs
  | _ -> "BADCASE"

let handle line =
  match split_on_string '|' line with
  | [head; plain; disjs] -> handle_disj head plain disjs
  | [head; body] ->
    (match List.filter (fun w -> w <> "") (String.split_on_char ' ' head) with
     | [("EVAL" | "ADMIT") as mode; labs; atoms] ->
       let labs = List.map label_of (String.split_on_char ',' labs) in
       cur_labs := labs;
       let atoms = List.map atom_of (String.split_on_char ',' atoms) in
       let conjs = List.filter (fun s -> s <> "") (split_on_string ';' body) in
       let cs = List.map (fun s ->
           let (r, s) = if String.length s > 2 && s.[1] = ':' then (s.[0] = '1', String.sub s 2 (String.length s - 2)) else (false, s) in
           let (sx, _) = parse_sx (tokenize s) in
           { c_rec = r; c_exprs = [expr_of sx] }) conjs in
       let r = core_eval labs atoms (nat_of_int 40) cs in
       if mode = "ADMIT" then
         (if (not (core_err r)) && core_concrete r then "OK " else "NO ") ^ show r
       else show r
     | _ -> "BADCASE")
  | _ -> "BADCASE"

let () =
  try
    while true do
      let line = input_line stdin in
      (try print_string (handle line) with Failure m -> print_string ("MODEL-FAIL " ^ m));
      print_newline ()
    done
  with End_of_file -> ()
