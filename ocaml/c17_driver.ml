(* Driver for the extracted C17 model.  One case per line (format: see
   harness/c17/case.go), one result per line:
     T=<res> ; TT=<res> ; CK=<chk> ; CK0=<chk>
   res = OK <base>@<ver>[*] ..  |  ERR:<m><a><f> (error-class bits)  |  MULTI  |  FUEL
   chk = ACCEPT | REJECT | ERR:<m><a><f> | MULTI | FUEL
   The set of path elements without a dot (standard-library roots) is passed as u_std. *)
open C17_model
type string = Stdlib.String.t   (* the extracted model now contains Coq.Strings.String.string *)

let rec pos_of_int i = if i = 1 then XH else if i land 1 = 0 then XO (pos_of_int (i lsr 1)) else XI (pos_of_int (i lsr 1))
let n_of_int i = if i = 0 then N0 else Npos (pos_of_int i)
let rec int_of_pos = function XH -> 1 | XO p -> 2 * int_of_pos p | XI p -> 2 * int_of_pos p + 1
let int_of_n = function N0 -> 0 | Npos p -> int_of_pos p
let rec nat_of_int i = if i = 0 then O else S (nat_of_int (i - 1))

let words s = List.filter (fun w -> w <> "") (String.split_on_char ' ' s)

(* interning of path elements *)
let tbl : (string, int) Hashtbl.t = Hashtbl.create 64
let rev : (int, string) Hashtbl.t = Hashtbl.create 64
let intern s =
  match Hashtbl.find_opt tbl s with
  | Some i -> i
  | None -> let i = Hashtbl.length tbl + 1 in Hashtbl.add tbl s i; Hashtbl.add rev i s; i
let path_of_string s = if s = "." then [] else List.map (fun e -> n_of_int (intern e)) (String.split_on_char '/' s)
let string_of_path p = String.concat "/" (List.map (fun e -> Hashtbl.find rev (int_of_n e)) p)

let ver_of_string s =
  (* vA.B.C or vA.B.C-pre *)
  let s = String.sub s 1 (String.length s - 1) in
  let core, pre = match String.index_opt s '-' with
    | None -> s, false
    | Some i -> String.sub s 0 i, true in
  match List.map int_of_string (String.split_on_char '.' core) with
  | [a; b; c] -> (((n_of_int a, n_of_int b), n_of_int c), pre)
  | _ -> failwith ("bad version " ^ s)
let string_of_ver (((a, b), c), pre) =
  Printf.sprintf "v%d.%d.%d%s" (int_of_n a) (int_of_n b) (int_of_n c) (if pre then "-pre" else "")

let cut_last c s =
  match String.rindex_opt s c with
  | None -> failwith ("no " ^ String.make 1 c ^ " in " ^ s)
  | Some i -> String.sub s 0 i, String.sub s (i + 1) (String.length s - i - 1)

let node_of_string s = let b, v = cut_last '@' s in (path_of_string b, ver_of_string v)
let dep_of_string s =
  let n = String.length s in
  if n > 0 && s.[n - 1] = '*' then (node_of_string (String.sub s 0 (n - 1)), true) else (node_of_string s, false)
let string_of_dep ((b, v), d) = string_of_path b ^ "@" ^ string_of_ver v ^ (if d then "*" else "")

let is_std s =
  let first = match String.index_opt s '/' with None -> s | Some i -> String.sub s 0 i in
  let first = match String.index_opt first '@' with None -> first | Some i -> String.sub first 0 i in
  not (String.contains first '.')
(* import path: base[@vN][:qualifier]; the qualifier is not modelled *)
let import_of_string s =
  let s = match String.rindex_opt s ':' with
    | Some i when not (String.contains (String.sub s i (String.length s - i)) '/') -> String.sub s 0 i
    | _ -> s in
  match String.index_opt s '@' with
  | None -> (path_of_string s, None)
  | Some i ->
    let m = String.sub s (i + 2) (String.length s - i - 2) in
    (path_of_string (String.sub s 0 i), Some (n_of_int (int_of_string m)))

let cut c s =
  match String.index_opt s c with
  | None -> failwith ("no " ^ String.make 1 c ^ " in " ^ s)
  | Some i -> String.sub s 0 i, String.sub s (i + 1) (String.length s - i - 1)

let fuel = nat_of_int 64
let ifuel = nat_of_int 4000

(* printing of cases as Coq terms: a sub-sample is re-evaluated by vm_compute inside Coq *)
let coq_out : out_channel option ref = ref None
let coq_every = ref 0
let coq_count = ref 0
let lineno = ref 0
let c_n n = Printf.sprintf "%d%%N" (int_of_n n)
let c_list f l = "[" ^ String.concat "; " (List.map f l) ^ "]"
let c_pair f g (a, b) = "(" ^ f a ^ ", " ^ g b ^ ")"
let c_bool b = if b then "true" else "false"
let c_path p = c_list c_n p
let c_ver (((a, b), c), pre) = Printf.sprintf "(%s, %s, %s, %s)" (c_n a) (c_n b) (c_n c) (c_bool pre)
let c_node n = c_pair c_path c_ver n
let c_dep d = c_pair c_node c_bool d
let c_import (p, m) = "(" ^ c_path p ^ ", " ^ (match m with None -> "None" | Some m -> "Some " ^ c_n m) ^ ")"
let c_tres = function
  | TOk ds -> "TOk " ^ c_list c_dep ds
  | TErr (m, a, f) -> Printf.sprintf "TErr %s %s %s" (c_bool m) (c_bool a) (c_bool f)
  | TMulti -> "TMulti" | TFuel -> "TFuel" | TIFuel -> "TIFuel"
let c_cres = function
  | CAccept -> "CAccept" | CReject -> "CReject"
  | CErr (m, a, f) -> Printf.sprintf "CErr %s %s %s" (c_bool m) (c_bool a) (c_bool f)
  | CMulti -> "CMulti" | CFuel -> "CFuel"

let bits m a f = (if m then "m" else "-") ^ (if a then "a" else "-") ^ (if f then "f" else "-")
let string_of_tres = function
  | TOk ds -> String.trim ("OK " ^ String.concat " " (List.map string_of_dep ds))
  | TErr (m, a, f) -> "ERR:" ^ bits m a f
  | TMulti -> "MULTI"
  | TFuel -> "FUEL"
  | TIFuel -> "IFUEL"
let string_of_cres = function
  | CAccept -> "ACCEPT" | CReject -> "REJECT"
  | CErr (m, a, f) -> "ERR:" ^ bits m a f
  | CMulti -> "MULTI" | CFuel -> "FUEL"

let handle line =
  Hashtbl.reset tbl; Hashtbl.reset rev;
  match String.split_on_char '|' line with
  | [head; s1; s2; s3; s4; s5; s6; s7] ->
    let main = match words head with
      | ["U"; m] -> let _, m = cut '=' m in let b, mj = cut_last '@' m in
        (path_of_string b, n_of_int (int_of_string (String.sub mj 1 (String.length mj - 1))))
      | _ -> failwith "bad head" in
    let deps0 = List.map dep_of_string (words s1) in
    let mdirs = List.map path_of_string (words s2) in
    let mimps = List.map import_of_string (words s3) in
    let mods = List.map node_of_string (words s4) in
    let deps = List.map (fun w -> let a, b = cut '>' w in (node_of_string a, dep_of_string b)) (words s5) in
    let pkgs = List.map (fun w -> let a, d = cut_last ':' w in (node_of_string a, path_of_string d)) (words s6) in
    let imps = List.map (fun w ->
        let a, i = cut '>' w in
        let m, d = cut_last ':' a in ((node_of_string m, path_of_string d), import_of_string i)) (words s7) in
    let std = Hashtbl.fold (fun s i acc -> if String.contains s '.' then acc else n_of_int i :: acc) tbl [] in
    let u = c17_mkU mods deps pkgs imps std in
    let mm = c17_mkM (fst main) (snd main) mdirs mimps in
    let t = c17_tidy fuel ifuel u mm deps0 in
    (match !coq_out with
     | Some oc when !coq_every > 0 && !lineno mod !coq_every = 0 ->
       Printf.fprintf oc "Example xc_%d :\n  let u := mkU %s\n    %s\n    %s\n    %s\n    %s in\n  let m := mkM %s %s %s\n    %s in\n  let ds := %s in\n  (tidy_model 64 4000 u m ds, check_model 4000 u m ds) = (%s, %s).\nProof. vm_compute. reflexivity. Qed.\n\n"
         !lineno (c_list c_node mods) (c_list (c_pair c_node c_dep) deps) (c_list (c_pair c_node c_path) pkgs)
         (c_list (c_pair (c_pair c_node c_path) c_import) imps) (c_list c_n std)
         (c_path (fst main)) (c_n (snd main)) (c_list c_path mdirs) (c_list c_import mimps) (c_list c_dep deps0)
         (c_tres t) (c_cres (c17_check ifuel u mm deps0));
       incr coq_count
     | _ -> ());
    let tt, ck = match t with
      | TOk f -> string_of_tres (c17_tidy fuel ifuel u mm f), string_of_cres (c17_check ifuel u mm f)
      | _ -> "-", "-" in
    Printf.sprintf "T=%s ; TT=%s ; CK=%s ; CK0=%s" (string_of_tres t) tt ck (string_of_cres (c17_check ifuel u mm deps0))
  | _ -> "BADCASE"

(* ---- module file codec cases:  MC <hex cur> <tokens>  (format: harness/c17/mc.go) ---- *)
let hexval c = match c with '0'..'9' -> Char.code c - 48 | 'a'..'f' -> Char.code c - 87 | _ -> failwith "hex"
let unhex s =
  if s = "-" then "" else
  String.init (String.length s / 2) (fun i -> Char.chr (16 * hexval s.[2*i] + hexval s.[2*i+1]))
let hex s = if s = "" then "-" else String.concat "" (List.map (fun c -> Printf.sprintf "%02x" (Char.code c)) (List.init (String.length s) (String.get s)))
let str_of_string s = List.init (String.length s) (fun i -> n_of_int (Char.code s.[i]))
let string_of_str l = String.concat "" (List.map (fun n -> String.make 1 (Char.chr (int_of_n n))) l)
let z_of_int i = if i = 0 then Z0 else if i > 0 then Zpos (pos_of_int i) else Zneg (pos_of_int (-i))
let int_of_z = function Z0 -> 0 | Zpos p -> int_of_pos p | Zneg p -> - (int_of_pos p)

let rec parse_val toks =
  match toks with
  | [] -> failwith "tokens"
  | t :: rest ->
    (match t.[0] with
     | 's' -> VStr (str_of_string (unhex (String.sub t 1 (String.length t - 1)))), rest
     | 't' -> VBool true, rest
     | 'f' -> VBool false, rest
     | 'n' -> VNull, rest
     | 'i' -> VInt (z_of_int (int_of_string (String.sub t 1 (String.length t - 1)))), rest
     | '{' -> let rec fields acc toks = (match toks with
         | "}" :: rest -> VStruct (List.rev acc), rest
         | k :: rest -> let v, rest = parse_val rest in
           fields ((str_of_string (unhex (String.sub k 1 (String.length k - 1))), v) :: acc) rest
         | [] -> failwith "unterminated struct") in fields [] rest
     | '[' -> let rec elems acc toks = (match toks with
         | "]" :: rest -> VList (List.rev acc), rest
         | _ -> let v, rest = parse_val toks in elems (v :: acc) rest) in elems [] rest
     | _ -> failwith ("bad token " ^ t))

let sort_fields l = List.stable_sort (fun (a, _) (b, _) -> Stdlib.compare (string_of_str a) (string_of_str b)) l
(* maps are printed sorted by key, like the Go side: [deps] one level, [custom] recursively *)
let rec sort_deep v = match v with
  | VStruct l -> VStruct (sort_fields (List.map (fun (k, x) -> (k, sort_deep x)) l))
  | VList l -> VList (List.map sort_deep l)
  | _ -> v
let norm_top l = List.map (fun (k, v) ->
    match string_of_str k, v with
    | "deps", VStruct d -> (k, VStruct (sort_fields d))
    | "custom", _ -> (k, sort_deep v)
    | _ -> (k, v)) l
let rec tokens v = match v with
  | VStr s -> "s" ^ hex (string_of_str s)
  | VBool true -> "t" | VBool false -> "f" | VNull -> "n"
  | VInt z -> "i" ^ string_of_int (int_of_z z)
  | VStruct l -> "{" ^ String.concat "" (List.map (fun (k, x) -> " k" ^ hex (string_of_str k) ^ " " ^ tokens x) l) ^ " }"
  | VList l -> "[" ^ String.concat "" (List.map (fun x -> " " ^ tokens x) l) ^ " ]"
let class_of = function
  | ENoLang -> "NOLANG" | ELangDecode -> "LANGDECODE" | EBadLang -> "BADLANG" | ETooNew -> "TOONEW"
  | ENoSchema -> "NOSCHEMA" | ESchema -> "SCHEMA" | EDecode -> "DECODE" | EInit -> "INIT"
let pairs l = String.concat " " (List.sort Stdlib.compare (List.map (fun (a, b) -> string_of_str a ^ "=" ^ string_of_str b) l))
let view_string = function
  | PErr e -> class_of e
  | POk (t, w) -> String.trim ("OK " ^ tokens (VStruct (norm_top t)) ^ " DV " ^ pairs w.w_versions ^ " DM " ^ pairs w.w_defaults)

let handle_mc line =
  match words line with
  | "MC" :: cur :: toks ->
    let cur = unhex (String.sub cur 1 (String.length cur - 1)) in
    let t = match parse_val toks with VStruct l, [] -> l | _ -> failwith "top level" in
    let (((p, n), l), f) = c17_mc (str_of_string cur) t in
    let fs, ft = match f with
      | None -> "-", "-"
      | Some (fo, dr) ->
        (match fo with None -> "ERR" | Some t -> "OK " ^ tokens (VStruct (norm_top t))),
        (if dr = [] then "none" else String.concat " " (List.map (fun k -> "k" ^ hex (string_of_str k)) dr)) in
    Printf.sprintf "CUR=s%s ; P=%s ; N=%s ; L=%s ; F=%s ; FT=%s" (hex cur) (view_string p) (view_string n)
      (match l with None -> "ERR" | Some s -> "OK s" ^ hex (string_of_str s)) fs ft
  | _ -> "BADCASE"

let () =
  (* modelrun [--coq FILE EVERY] *)
  (match Array.to_list Sys.argv with
   | _ :: "--coq" :: file :: every :: _ ->
     let oc = open_out file in
     output_string oc "From Verif Require Import Tidy.Model.\nFrom Coq Require Import List NArith.\nImport ListNotations.\n\n";
     coq_out := Some oc; coq_every := int_of_string every
   | _ -> ());
  try
    while true do
      let line = input_line stdin in
      incr lineno;
      (if String.length line > 1 && line.[0] = 'U' then
         print_string (try handle line with Failure m -> "BADCASE " ^ m)
       else if String.length line > 2 && String.sub line 0 3 = "MC " then
         print_string (try handle_mc line with Failure m -> "BADCASE " ^ m)
       else print_string "-");
      print_newline ()
    done
  with End_of_file -> (match !coq_out with Some oc -> close_out oc | None -> ())
