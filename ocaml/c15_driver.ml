(* Driver for the extracted C15 model.  One case per line, sections separated by " | ":
     P | <tbl> | <hexname>
        -> ok=<0|1> clean=<0|1> fold=<hex> split=<hex>,<hex>
     F | <tbl> | <file> ...            file  = hexname:k:size:hexdata        (k in r d s o)
        -> V=.. O=.. I=.. SE=b NM=b | ZV=.. ZI=.. ZSE=b ZNM=b | C=ERR|OK:name:data,.. | U=ok|err|na T=tree | FV=<verdicts> ZVV=<verdicts>
     D | <tbl> | <file> ...            a directory tree given by its leaves (size = length of data)
        -> V=.. I=.. SE=b NM=b | C=ERR|OK:name:data,..         (CheckDir, CreateFromDir)
     Z | <tbl> | <czsize> <uzsize> <pre> | <entry> ...
                                       entry = hexname:declared:k:hexdata:crcok:openok:method
        -> V=.. I=.. SE=b NM=b | U=ok|err T=tree
   tbl = r:letter:foldmin,...  or "-" ; hex of the empty string is "-". *)
open C15_model

let rec pos_of_int i = if i = 1 then XH else if i land 1 = 0 then XO (pos_of_int (i lsr 1)) else XI (pos_of_int (i lsr 1))
let n_of_int i = if i = 0 then N0 else Npos (pos_of_int i)
let rec int_of_pos = function XH -> 1 | XO p -> 2 * int_of_pos p | XI p -> 2 * int_of_pos p + 1
let int_of_n = function N0 -> 0 | Npos p -> int_of_pos p
let rec nat_of_int i = if i = 0 then O else S (nat_of_int (i - 1))

(* arbitrary-size decimal -> N, using the extracted arithmetic *)
let n_of_dec s =
  let ten = n_of_int 10 in
  let acc = ref N0 in
  String.iter (fun c -> acc := N.add (N.mul !acc ten) (n_of_int (Char.code c - 48))) s;
  !acc
let z_of_dec s =
  if String.length s > 0 && s.[0] = '-' then
    (match n_of_dec (String.sub s 1 (String.length s - 1)) with N0 -> Z0 | Npos p -> Zneg p)
  else Z.of_N (n_of_dec s)

let str_of_string s = List.init (String.length s) (fun i -> n_of_int (Char.code s.[i]))
let string_of_str l = String.concat "" (List.map (fun c -> String.make 1 (Char.chr (int_of_n c land 255))) l)
let unhex h =
  if h = "-" then "" else
  String.init (String.length h / 2) (fun i -> Char.chr (int_of_string ("0x" ^ String.sub h (2 * i) 2)))
let hex s = if s = "" then "-" else String.concat "" (List.init (String.length s) (fun i -> Printf.sprintf "%02x" (Char.code s.[i])))
let hs l = hex (string_of_str l)
let uh h = str_of_string (unhex h)

let words s = List.filter (fun w -> w <> "") (String.split_on_char ' ' s)
let b2i b = if b then 1 else 0

let split_sections line =
  (* split on " | " *)
  let parts = ref [] and cur = Buffer.create 64 in
  let n = String.length line in
  let i = ref 0 in
  while !i < n do
    if !i + 2 < n && line.[!i] = ' ' && line.[!i+1] = '|' && line.[!i+2] = ' ' then begin
      parts := Buffer.contents cur :: !parts; Buffer.clear cur; i := !i + 3 end
    else begin Buffer.add_char cur line.[!i]; incr i end
  done;
  parts := Buffer.contents cur :: !parts;
  List.rev !parts

let parse_tbl s =
  let s = String.trim s in
  if s = "-" || s = "" then [] else
  List.map (fun t ->
      match String.split_on_char ':' t with
      | [r; l; m] -> (n_of_int (int_of_string r), (l = "1", n_of_int (int_of_string m)))
      | _ -> failwith "bad tbl") (String.split_on_char ',' s)

let kind_of = function "r" -> KRegular | "d" -> KDir | "s" -> KSymlink | _ -> KOther

let parse_file t =
  match String.split_on_char ':' t with
  | [nm; k; sz; data] -> { f_name = uh nm; f_kind = kind_of k; f_size = z_of_dec sz; f_data = uh data }
  | _ -> failwith ("bad file " ^ t)

let parse_entry t =
  match String.split_on_char ':' t with
  | nm :: decl :: k :: data :: crc :: op :: meth :: _ ->
    { e_name = uh nm; e_declared = n_of_dec decl; e_kind = kind_of k; e_data = uh data;
      e_crc_ok = (crc = "1"); e_open_ok = (op = "1"); e_deflate = (meth = "8") }
  | _ -> failwith ("bad entry " ^ t)

let names l = String.concat "," (List.map hs l)
let vchar = function VValid -> "V" | VOmitted -> "O" | VInvalid -> "I" | VSkipped -> "S"

let p_elems = [str_of_string "P"]
let t_dir = [str_of_string "P"; str_of_string "t"]

let initial_fs pre =
  let base = [ (p_elems, NDir); (p_elems @ [str_of_string "sentinel"], NFile (str_of_string "s")) ] in
  match pre with
  | 1 -> (t_dir, NDir) :: base
  | 2 -> (t_dir @ [str_of_string "x"], NFile (str_of_string "x")) :: (t_dir, NDir) :: base
  | 3 -> (t_dir, NFile (str_of_string "f")) :: base
  | _ -> base

let show_tree fs =
  let items = List.filter_map (fun (p, nd) ->
      let ps = List.map string_of_str p in
      let tail = match nd with NDir -> ":D" | NFile c -> ":F:" ^ hs c in
      match ps with
      | ["P"] -> None
      | "P" :: rest -> Some (hex (String.concat "/" rest) ^ tail)
      | _ -> Some ("OUTSIDE" ^ hex (String.concat "/" ps) ^ tail)) fs in
  String.concat "," (List.sort compare items)

let show_checked c =
  Printf.sprintf "V=%s O=%s I=%s SE=%d NM=%d" (names c.c_valid) (names c.c_omitted) (names c.c_invalid)
    (b2i c.c_size_err) (b2i c.c_nomod)
let show_zchecked pfx c =
  Printf.sprintf "%sV=%s %sI=%s %sSE=%d %sNM=%d" pfx (names c.c_valid) pfx (names c.c_invalid)
    pfx (b2i c.c_size_err) pfx (b2i c.c_nomod)

let two63 = n_of_dec "9223372036854775808"

let handle line =
  match split_sections line with
  | ["P"; tb; nm] ->
    let t = parse_tbl tb and p = uh (String.trim nm) in
    let (a, b) = c15_split_cue_mod p in
    Printf.sprintf "ok=%d clean=%d fold=%s split=%s,%s" (b2i (c15_check_path t p)) (b2i (c15_is_clean p))
      (hs (c15_fold t p)) (hs a) (hs b)
  | ["F"; tb; fl] ->
    let t = parse_tbl tb in
    let files = List.map parse_file (words fl) in
    let cf = c15_check_files t files in
    (* the same regular files as zip entries (declared = size); only sizes >= 0 are expressible *)
    let regs = List.filter (fun f -> f.f_kind = KRegular) files in
    let ents = List.map (fun f ->
        let d = match f.f_size with Zpos p -> Npos p | _ -> N0 in
        { e_name = f.f_name; e_declared = d; e_kind = KRegular; e_data = f.f_data; e_crc_ok = true; e_open_ok = true; e_deflate = false }) regs in
    let cz = c15_check_zip t Z0 ents in
    let created = c15_create t files in
    let cs, us = match created with
      | None -> "C=ERR", "U=na T="
      | Some es ->
        let c = "C=OK:" ^ String.concat "," (List.map (fun e -> hs e.e_name ^ ":" ^ hs e.e_data) es) in
        let (fs, r) = c15_unzip t t_dir (initial_fs 0) Z0 es in
        c, Printf.sprintf "U=%s T=%s" (match r with UOk -> "ok" | UErr -> "err") (show_tree fs) in
    let fv = String.concat "" (List.map vchar (c15_files_verdicts t files)) in
    let zv = String.concat "" (List.map vchar (c15_zip_verdicts t ents)) in
    Printf.sprintf "%s | %s | %s | %s | FV=%s ZVV=%s" (show_checked cf) (show_zchecked "Z" cz) cs us fv zv
  | ["D"; tb; fl] ->
    let t = parse_tbl tb in
    let files = List.map parse_file (words fl) in
    let cd = c15_check_dir t files in
    let cs = match c15_create_from_dir t files with
      | None -> "C=ERR"
      | Some es -> "C=OK:" ^ String.concat "," (List.map (fun e -> hs e.e_name ^ ":" ^ hs e.e_data) es) in
    Printf.sprintf "%s | %s" (show_zchecked "" cd) cs
  | ["Z"; tb; hdr; el] ->
    let t = parse_tbl tb in
    (match words hdr with
     | [czs; uzs; pre] ->
       let ents = List.map parse_entry (words el) in
       let cz = c15_check_zip t (z_of_dec czs) ents in
       let (fs, r) = c15_unzip t t_dir (initial_fs (int_of_string pre)) (z_of_dec uzs) ents in
       Printf.sprintf "%s | U=%s T=%s" (show_zchecked "" cz) (match r with UOk -> "ok" | UErr -> "err") (show_tree fs)
     | _ -> "BADCASE")
  | _ -> "BADCASE"

let () =
  try
    while true do
      let line = input_line stdin in
      print_string (try handle line with e -> "EXC " ^ Printexc.to_string e); print_newline ()
    done
  with End_of_file -> ()
