(* Driver for the extracted C03 model: one case per input line, one result per
   output line.

   Tokens (no blanks inside):
     atom   n | b0 | b1 | i<signed decimal> | f<+|-><coef>e<exp> | s<hex> | y<hex>   ("-" = empty hex)
     op     lt le gt ge ne ma nm
     constr A<atom> | T<null|bool|int|float|number|string|bytes> | B<op>,<atom> | R<name>
   Cases:
     SB <k> <op> <atom> <op> <atom> [| <hexpat>:<hexsubj>:<0|1> ...]
        -> X | Y | N | B                       (what SimplifyBounds returns)
     EV <constr> ... | <atom> ... [| regexp table]
        -> <verdict expr> <spec bits> <all_safe 0|1> <verdict expr&a1> <verdict expr&a2> ...
           verdict: B (bottom) | I (incomplete) | =<atom token>
           spec bits: one 0/1 per probe atom, sat_all
*)
open C03_model

let rec pos_of_int i = if i = 1 then XH else if i land 1 = 0 then XO (pos_of_int (i lsr 1)) else XI (pos_of_int (i lsr 1))
let n_of_int i = if i = 0 then N0 else Npos (pos_of_int i)
let z_of_int i = if i = 0 then Z0 else if i > 0 then Zpos (pos_of_int i) else Zneg (pos_of_int (-i))

let z_of_string s =
  let neg = String.length s > 0 && s.[0] = '-' in
  let start = if neg || (String.length s > 0 && s.[0] = '+') then 1 else 0 in
  let acc = ref Z0 in
  for i = start to String.length s - 1 do
    let c = s.[i] in
    if c < '0' || c > '9' then failwith ("bad number " ^ s);
    acc := c03_zpush !acc (z_of_int (Char.code c - 48))
  done;
  if neg then c03_zneg !acc else !acc

let str_of_string s = List.init (String.length s) (fun i -> n_of_int (Char.code s.[i]))
let unhex h =
  if h = "-" then "" else
  String.init (String.length h / 2) (fun i -> Char.chr (int_of_string ("0x" ^ String.sub h (2 * i) 2)))

let rest s i = String.sub s i (String.length s - i)

let atom_of_tok t =
  match t.[0] with
  | 'n' -> ANull
  | 'b' -> ABool (t.[1] = '1')
  | 'i' -> AInt (z_of_string (rest t 1))
  | 'f' ->
    let neg = t.[1] = '-' in
    let body = rest t 2 in
    let e = String.index body 'e' in
    let coef = z_of_string (String.sub body 0 e) in
    let exp = z_of_string (rest body (e + 1)) in
    AFloat { dneg = neg; dcoef = c03_z_to_n coef; dexp = exp }
  | 's' -> AStr (str_of_string (unhex (rest t 1)))
  | 'y' -> ABytes (str_of_string (unhex (rest t 1)))
  | _ -> failwith ("bad atom " ^ t)

let op_of_tok = function
  | "lt" -> OLt | "le" -> OLe | "gt" -> OGt | "ge" -> OGe | "ne" -> ONe | "ma" -> OMatch | "nm" -> ONMatch
  | s -> failwith ("bad op " ^ s)

let type_of_tok = function
  | "null" -> TNull | "bool" -> TBool | "int" -> TInt | "float" -> TFloat | "number" -> TNumber
  | "string" -> TString | "bytes" -> TBytes | s -> failwith ("bad type " ^ s)

let range_of_tok = function
  | "uint" -> RUint | "uint8" -> RUint8 | "int8" -> RInt8 | "uint16" -> RUint16 | "int16" -> RInt16
  | "rune" -> RRune | "uint32" -> RUint32 | "int32" -> RInt32 | "uint64" -> RUint64 | "int64" -> RInt64
  | "uint128" -> RUint128 | "int128" -> RInt128 | "float32" -> RFloat32 | "float64" -> RFloat64
  | s -> failwith ("bad range " ^ s)

(* every atom token seen in the case, so that a result atom prints as its token *)
let seen : (atom * string) list ref = ref []
let atom t = let a = atom_of_tok t in seen := (a, t) :: !seen; a

let constr_of_tok t =
  match t.[0] with
  | 'A' -> CElem (KAtom (atom (rest t 1)))
  | 'T' -> CElem (KType (type_of_tok (rest t 1)))
  | 'B' ->
    let body = rest t 1 in
    let c = String.index body ',' in
    CElem (KBound (op_of_tok (String.sub body 0 c), atom (rest body (c + 1))))
  | 'R' -> CRange (range_of_tok (rest t 1))
  | _ -> failwith ("bad constraint " ^ t)

let words s = List.filter (fun w -> w <> "") (String.split_on_char ' ' s)

let re_of_table s =
  let tbl = Hashtbl.create 16 in
  List.iter (fun w ->
      match String.split_on_char ':' w with
      | [p; q; v] -> Hashtbl.replace tbl (unhex p, unhex q) (v = "1")
      | _ -> failwith ("bad regexp entry " ^ w)) (words s);
  let to_s l = String.concat "" (List.map (fun c ->
      let rec ip = function XH -> 1 | XO p -> 2 * ip p | XI p -> 2 * ip p + 1 in
      String.make 1 (Char.chr (match c with N0 -> 0 | Npos p -> ip p))) l) in
  fun p q ->
    match Hashtbl.find_opt tbl (to_s p, to_s q) with
    | Some b -> b
    | None -> failwith "regexp verdict missing from the case table"

let verdict_tok = function
  | RBottom -> "B"
  | RIncomplete -> "I"
  | RAtom ANull -> "=n"
  | RAtom a ->
    (* the result is one of the case's atoms (the first scalar inserted) *)
    let rec find = function
      | [] -> "=?"
      | (b, t) :: r -> if b = a then "=" ^ t else find r in
    find (List.rev !seen)

let handle line =
  seen := [];
  let parts = String.split_on_char '|' line in
  match parts with
  | [] -> ""
  | first :: more ->
    (match words first with
     | "SB" :: k :: o1 :: a1 :: o2 :: a2 :: [] ->
       let re = re_of_table (match more with t :: _ -> t | [] -> "") in
       let x = { b_op = op_of_tok o1; b_val = atom a1 } in
       let y = { b_op = op_of_tok o2; b_val = atom a2 } in
       (match c03_simplify re (c03_z_to_n (z_of_string k)) x y with
        | SKeepX -> "X" | SKeepY -> "Y" | SNone -> "N" | SBottom -> "B")
     | "EV" :: cs ->
       let probes, tbl = match more with
         | p :: t :: _ -> p, t
         | p :: [] -> p, ""
         | [] -> "", "" in
       let re = re_of_table tbl in
       let cs = List.map constr_of_tok cs in
       let ps = List.map atom (words probes) in
       let e = verdict_tok (c03_run re cs) in
       let bits = String.concat "" (List.map (fun a -> if c03_sat_all re a cs then "1" else "0") ps) in
       let per = List.map (fun a -> verdict_tok (c03_run_with re cs a)) ps in
       let safe = if c03_all_safe cs then "1" else "0" in
       String.concat " " (e :: (if bits = "" then "-" else bits) :: safe :: per)
     | _ -> "BADCASE")

let () =
  try
    while true do
      let line = input_line stdin in
      (try print_string (handle line) with Failure m -> print_string ("ERROR " ^ m));
      print_newline ()
    done
  with End_of_file -> ()
