(* Driver for the extracted C18 model: one case per input line, one result per
   output line.

     FLOW <n> | i:deps:trig;...  | D3 C3+ C2- X ...
          deps = '-' or comma list of d or d@p ; trig = '-' or p
        -> U:0=R[],1=W[0] D0:[] C0+ U:... END:<class> RES:<ids> VAL:eq
           (or ... REJECT when a label is not enabled in the model)
     CYC <n> | i:deps;...
        -> cyc=0|1   (or FUEL)
     WFQ <n> | specs                 -> known=b trig=b closed=b acyclic=b  (hypotheses of the theorems)
     ACC <n> | specs | labels        -> acc=0|1   (used by the vm_compute cross-check)
     FLOWC <n> | path:guard:kind:refs;... | labels
          the task-graph CONFIGURATION (Flow/Discover.v) instead of a dependency graph:
          path = dotted field numbers, guard = '-' or g, kind = T<id> or R,
          refs = '-' or comma list of dotted paths; same result line as FLOW, the
          dependency sets and the appearance of tasks are discovered by the model
     DISC <n> | config | res         -> t=[impl deps]/[spec deps],...  for the tasks of that configuration
*)
open C18_model

let rec nat_of_int i = if i <= 0 then O else S (nat_of_int (i - 1))
let rec int_of_nat = function O -> 0 | S n -> 1 + int_of_nat n

let words s = List.filter (fun w -> w <> "") (String.split_on_char ' ' s)
let split_nonempty c s = List.filter (fun w -> w <> "") (String.split_on_char c (String.trim s))

let parse_dep tok =
  match String.index_opt tok '@' with
  | None -> (nat_of_int (int_of_string tok), None)
  | Some i ->
    (nat_of_int (int_of_string (String.sub tok 0 i)),
     Some (nat_of_int (int_of_string (String.sub tok (i + 1) (String.length tok - i - 1)))))

(* "0:-:-;1:0,2@0:-;2:-:0" ; entries must be in index order *)
let parse_wf s : workflow =
  List.mapi (fun i ent ->
      match String.split_on_char ':' (String.trim ent) with
      | [idx; ds; tr] ->
        if int_of_string idx <> i then failwith "task index out of order";
        let deps = if ds = "-" || ds = "" then [] else List.map parse_dep (String.split_on_char ',' ds) in
        let trig = if tr = "-" || tr = "" then None else Some (nat_of_int (int_of_string tr)) in
        { t_deps = deps; t_trig = trig }
      | _ -> failwith ("bad task " ^ ent))
    (split_nonempty ';' s)

let parse_path s : nat list =
  if s = "" || s = "." then [] else List.map (fun x -> nat_of_int (int_of_string x)) (String.split_on_char '.' s)

let parse_refs s = if s = "-" || s = "" then [] else List.map parse_path (String.split_on_char ',' s)

let parse_cfg s : config =
  List.map (fun ent ->
      match String.split_on_char ':' (String.trim ent) with
      | [p; g; k; rs] ->
        let guard = if g = "-" || g = "" then None else Some (nat_of_int (int_of_string g)) in
        let refs = parse_refs rs in
        let item =
          if k = "R" then IRef refs
          else if String.length k > 1 && k.[0] = 'T' then
            ITask (nat_of_int (int_of_string (String.sub k 1 (String.length k - 1))), refs)
          else failwith ("bad item " ^ k) in
        { e_path = parse_path p; e_guard = guard; e_item = item }
      | _ -> failwith ("bad entry " ^ ent))
    (split_nonempty ';' s)

let parse_label tok =
  let n = String.length tok in
  if tok = "X" then Cancel
  else if tok.[0] = 'D' then Dispatch (nat_of_int (int_of_string (String.sub tok 1 (n - 1))))
  else if tok.[0] = 'C' then
    Complete (nat_of_int (int_of_string (String.sub tok 1 (n - 2))), tok.[n - 1] = '+')
  else failwith ("bad label " ^ tok)

let ints l = String.concat "," (List.map string_of_int l)
let sort_uniq_ints l = List.sort_uniq compare (List.map int_of_nat l)

let state_letter = function Waiting -> "W" | Ready -> "R" | Running -> "r" | Terminated _ -> "T"

let show_obs = function
  | OSnap l ->
    let ents = List.sort compare (List.map (fun (t, (st, ds)) -> (int_of_nat t, state_letter st, sort_uniq_ints ds)) l) in
    "U:" ^ String.concat "," (List.map (fun (t, st, ds) -> Printf.sprintf "%d=%s[%s]" t st (ints ds)) ents)
  | ODisp (t, miss) -> Printf.sprintf "D%d:[%s]" (int_of_nat t) (ints (sort_uniq_ints miss))
  | OComp (t, ok) -> Printf.sprintf "C%d%s" (int_of_nat t) (if ok then "+" else "-")
  | OCancel -> "X"
  | OReject -> "REJECT"

let outcome_name = function
  | OutOk -> "ok" | OutFailed -> "fail" | OutCancelled -> "cancel" | OutCycle -> "cycle"
  | OutDeadlock -> "deadlock" | OutUnfinished -> "unfinished"

let parse_tbl n s =
  let tbl = Array.make n [] in
  List.iter (fun ent ->
      match String.split_on_char ':' (String.trim ent) with
      | [idx; ds] ->
        tbl.(int_of_string idx) <-
          (if ds = "" then [] else List.map (fun d -> nat_of_int (int_of_string d)) (String.split_on_char ',' ds))
      | _ -> failwith ("bad cyc entry " ^ ent))
    (split_nonempty ';' s);
  Array.to_list tbl

let handle line =
  match String.split_on_char '|' line with
  | [] -> ""
  | first :: rest ->
    (match words first with
     | ["FLOW"; _] ->
       let w = parse_wf (List.nth rest 0) in
       let ls = List.map parse_label (words (List.nth rest 1)) in
       let (os, fin) = c18_observe w ls in
       let body = String.concat " " (List.map show_obs os) in
       (match fin with
        | None -> body
        | Some (oc, res) ->
          Printf.sprintf "%s END:%s RES:%s VAL:eq" body (outcome_name oc) (ints (List.map int_of_nat res)))
     | ["FLOWC"; _] | ["FLOWX"; _] ->
       let cfg = parse_cfg (List.nth rest 0) in
       let ls = List.map parse_label (words (List.nth rest 1)) in
       let (os, fin) = c18_observe_cfg cfg ls in
       let body = String.concat " " (List.map show_obs os) in
       (match fin with
        | None -> body
        | Some (oc, res) ->
          Printf.sprintf "%s END:%s RES:%s VAL:eq" body (outcome_name oc) (ints (List.map int_of_nat res)))
     | ["DISC"; _] ->
       let cfg = parse_cfg (List.nth rest 0) in
       let r = String.trim (List.nth rest 1) in
       let res = if r = "-" || r = "" then [] else List.map (fun x -> nat_of_int (int_of_string x)) (String.split_on_char ',' r) in
       let ents = List.sort compare (List.map (fun (t, (a, b)) -> (int_of_nat t, sort_uniq_ints a, sort_uniq_ints b)) (c18_discover cfg res)) in
       String.concat "," (List.map (fun (t, a, b) -> Printf.sprintf "%d=[%s]/[%s]" t (ints a) (ints b)) ents)
     | ["WFQ"; _] ->
       let w = parse_wf (List.nth rest 0) in
       let (((k, t), c), a) = c18_hyps w in
       let b x = if x then 1 else 0 in
       Printf.sprintf "known=%d trig=%d closed=%d acyclic=%d" (b k) (b t) (b c) (b a)
     | ["ACC"; _] ->
       let w = parse_wf (List.nth rest 0) in
       let ls = List.map parse_label (words (List.nth rest 1)) in
       if c18_accepts w ls then "acc=1" else "acc=0"
     | ["CYC"; n] ->
       let n = int_of_string n in
       (match c18_check_cycle (nat_of_int n) (parse_tbl n (List.nth rest 0)) with
        | None -> "FUEL"
        | Some true -> "cyc=1"
        | Some false -> "cyc=0")
     | ["SKIP"] -> "skipped"
     | _ -> "BADCASE")

let () =
  try
    while true do
      let line = input_line stdin in
      print_string (try handle line with e -> "DRIVER-ERROR " ^ Printexc.to_string e);
      print_newline ()
    done
  with End_of_file -> ()
