(* Driver for the extracted C08 model (Syn/Lex, Syn/Expr): one case per input
   line, one result per output line.

   token words : i:<name> n:<digits> f:<spelling> s:<id> BOT, operator names
                 (ADD SUB ...), punctuation names (LPAREN RPAREN LBRACK RBRACK
                 COMMA PERIOD COLON OPTION ELLIPSIS)
   trees       : prefix form  A tok | B op x y | U op x | S x tok | I x i |
                 C <n> f a1 .. an | P x
   cases
     PR <tree>    -> <marks1> ; <rescan1> ; <reread1> ; <same1> ; <marks2> ; <rescan2> ; <reread2> ; <same2> ; <class>
     PA <tokens>  -> <tree|ERR> ; <marks1> ; <rescan1> ; <reread1> ; <coll1> ; <marks2> ; <rescan2> ; <reread2> ; <coll2>
     SC <codes>   -> <tokens> | NONE
   marks: each token prefixed by
     ~ printed without a blank, safe        ! printed without a blank, scanner needs one
     _ blank, not needed                    = blank, needed
     ? layout dependent, safe either way    # layout dependent but needed (never, by theorem)
   rescan = scan (render printed) as tokens, or NONE
   reread = parse (scan (render printed)) as a tree, or ERR
   class  = c (right-nested | & chain), or -
   same   = 1 iff unparen reread = unparen input;  coll = 1 iff reread = collapse tree *)
open C08_model

let rec pos_of_int i = if i = 1 then XH else if i land 1 = 0 then XO (pos_of_int (i lsr 1)) else XI (pos_of_int (i lsr 1))
let n_of_int i = if i = 0 then N0 else Npos (pos_of_int i)
let rec int_of_pos = function XH -> 1 | XO p -> 2 * int_of_pos p | XI p -> 2 * int_of_pos p + 1
let int_of_n = function N0 -> 0 | Npos p -> int_of_pos p

let codes_of_string s = List.init (String.length s) (fun i -> n_of_int (Char.code s.[i]))
let string_of_codes l = String.concat "" (List.map (fun c -> let i = int_of_n c in if i < 256 then String.make 1 (Char.chr i) else Printf.sprintf "<%d>" i) l)

let ops = [ "ADD", ADD; "SUB", SUB; "MUL", MUL; "QUO", QUO; "AND", AND; "OR", OR; "LAND", LAND; "LOR", LOR;
            "EQL", EQL; "NEQ", NEQ; "LSS", LSS; "LEQ", LEQ; "GTR", GTR; "GEQ", GEQ; "MAT", MAT; "NMAT", NMAT;
            "NOT", NOT; "ARROW", ARROW; "BIND", BIND; "TILDE", TILDE ]
let puncts = [ "LPAREN", LPAREN; "RPAREN", RPAREN; "LBRACK", LBRACK; "RBRACK", RBRACK; "COMMA", COMMA;
               "PERIOD", PERIOD; "COLON", COLON; "OPTION", OPTION; "ELLIPSIS", ELLIPSIS ]

let op_of_word w = List.assoc w ops
let word_of_op o = fst (List.find (fun (_, o') -> o' = o) ops)
let word_of_punct p = fst (List.find (fun (_, p') -> p' = p) puncts)

let tok_of_word w =
  let n = String.length w in
  if n >= 2 && w.[1] = ':' then begin
    let body = String.sub w 2 (n - 2) in
    match w.[0] with
    | 'i' -> TIdent (codes_of_string body)
    | 'n' -> TInt (codes_of_string body)
    | 'f' -> TFloat (codes_of_string body)
    | 's' -> TLit (n_of_int (int_of_string body))
    | _ -> failwith ("bad token " ^ w)
  end else if w = "BOT" then TBottom
  else match List.assoc_opt w ops with
    | Some o -> TOp o
    | None -> (match List.assoc_opt w puncts with Some p -> TP p | None -> failwith ("bad token " ^ w))

let word_of_tok = function
  | TIdent s -> "i:" ^ string_of_codes s
  | TInt s -> "n:" ^ string_of_codes s
  | TFloat s -> "f:" ^ string_of_codes s
  | TLit id -> "s:" ^ string_of_int (int_of_n id)
  | TBottom -> "BOT"
  | TOp o -> word_of_op o
  | TP p -> word_of_punct p

let rec parse_tree ws =
  match ws with
  | "A" :: t :: r -> (EAtom (tok_of_word t), r)
  | "B" :: o :: r -> let (x, r) = parse_tree r in let (y, r) = parse_tree r in (EBin (op_of_word o, x, y), r)
  | "U" :: o :: r -> let (x, r) = parse_tree r in (EUn (op_of_word o, x), r)
  | "S" :: r -> let (x, r) = parse_tree r in (match r with t :: r -> (ESel (x, tok_of_word t), r) | [] -> failwith "S")
  | "I" :: r -> let (x, r) = parse_tree r in let (i, r) = parse_tree r in (EIdx (x, i), r)
  | "C" :: n :: r ->
    let (f, r) = parse_tree r in
    let rec go k r acc = if k = 0 then (List.rev acc, r) else let (a, r) = parse_tree r in go (k - 1) r (a :: acc) in
    let (args, r) = go (int_of_string n) r [] in
    (ECall (f, args), r)
  | "P" :: r -> let (x, r) = parse_tree r in (EParen x, r)
  | _ -> failwith "bad tree"

let rec tree_words e acc =
  match e with
  | EAtom t -> "A" :: word_of_tok t :: acc
  | EBin (o, x, y) -> "B" :: word_of_op o :: tree_words x (tree_words y acc)
  | EUn (o, x) -> "U" :: word_of_op o :: tree_words x acc
  | ESel (x, t) -> "S" :: tree_words x (word_of_tok t :: acc)
  | EIdx (x, i) -> "I" :: tree_words x (tree_words i acc)
  | ECall (f, args) -> "C" :: string_of_int (List.length args) :: tree_words f (List.fold_right tree_words args acc)
  | EParen x -> "P" :: tree_words x acc

let string_of_tree e = String.concat " " (tree_words e [])
let string_of_otree = function Some e -> string_of_tree e | None -> "ERR"

let mark_char (s, need) =
  match s, need with
  | Glue, false -> '~' | Glue, true -> '!'
  | Blank, false -> '_' | Blank, true -> '='
  | Layout, false -> '?' | Layout, true -> '#'

let string_of_marks l =
  String.concat " " (List.map (fun (m, t) -> String.make 1 (mark_char m) ^ word_of_tok t) l)

let string_of_otoks = function
  | None -> "NONE"
  | Some ts -> if ts = [] then "-" else String.concat " " (List.map word_of_tok ts)

let words s = List.filter (fun w -> w <> "") (String.split_on_char ' ' s)
let b2s b = if b then "1" else "0"

let handle line =
  match words line with
  | "PR" :: ws ->
    let (e, _) = parse_tree ws in
    let u = c08_unparen e in
    let r1 = c08_reread1 e and r2 = c08_reread2 e in
    let same r = match r with Some x -> c08_unparen x = u | None -> false in
    let cls = if c08_right_nested_chain e then "c" else "" in
    Printf.sprintf "%s ; %s ; %s ; %s ; %s ; %s ; %s ; %s ; %s"
      (string_of_marks (c08_sp1 e)) (string_of_otoks (c08_rescan1 e)) (string_of_otree r1) (b2s (same r1))
      (string_of_marks (c08_sp2 e)) (string_of_otoks (c08_rescan2 e)) (string_of_otree r2) (b2s (same r2))
      (if cls = "" then "-" else cls)
  | "PA" :: ws ->
    let ts = List.map tok_of_word ws in
    (match c08_parse ts with
     | None -> "ERR ; - ; - ; - ; - ; - ; - ; - ; -"
     | Some e ->
       let c = c08_collapse e in
       let r1 = c08_reread1 e and r2 = c08_reread2 e in
       let coll r = match r with Some x -> x = c | None -> false in
       Printf.sprintf "%s ; %s ; %s ; %s ; %s ; %s ; %s ; %s ; %s" (string_of_tree e)
         (string_of_marks (c08_sp1 e)) (string_of_otoks (c08_rescan1 e)) (string_of_otree r1) (b2s (coll r1))
         (string_of_marks (c08_sp2 e)) (string_of_otoks (c08_rescan2 e)) (string_of_otree r2) (b2s (coll r2)))
  | "SC" :: ws ->
    let cs = List.map (fun w -> n_of_int (int_of_string w)) ws in
    (match c08_scan cs with
     | None -> "NONE"
     | Some ts -> String.concat " " (List.map word_of_tok ts))
  | _ -> "BADCASE"

let () =
  try
    while true do
      let line = input_line stdin in
      print_string (try handle line with Failure m -> "BADCASE " ^ m | Not_found -> "BADCASE notfound");
      print_newline ()
    done
  with End_of_file -> ()
