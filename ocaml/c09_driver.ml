(* Driver for the extracted C09 model: one case per input line, one result per
   output line.  Fields are separated by single blanks; byte strings are hex
   ("-" = empty).
     Q <form> <hex s> <tbl>   form = K:ml:auto:ah:ascii:gr:indent  (K = s|b)
                              tbl  = "-" | rune.pg,rune.pg,...  (hex rune, IsPrint/IsGraphic bits)
        -> <hex quote> <unquote_impl(quote)> <unquote_int32(quote)>
     U <hex literal>
        -> <unquote_impl> <unquote_int32>   (int32: the regression layer, see Lit/Unquote.v)
     I <hex literal> <n>      literal.IndentTabs(literal, n), n any integer
        -> ok:<hex result> <unquote_impl(result)> <unquote_impl(literal)> | panic - <unquote_impl(literal)>
     J <form> <hex s> <tbl> <n>
        -> <hex quote f s> <hex indent_tabs (quote f s) n> <hex quote (set_indent f n) s> <unquote_impl of the second>
     D <hex bytes>  -> <rune> <width> <lastrune> <lastwidth>     (decimal)
     E <hex rune>   -> <hex bytes>
     S <hex bytes>  -> <hex sanitized>
     H <K> <hex s>  -> <requiredHashCount>
   results: ok:<hex> | err:<class> | panic | fuel *)
open C09_model

let rec pos_of_int i = if i = 1 then XH else if i land 1 = 0 then XO (pos_of_int (i lsr 1)) else XI (pos_of_int (i lsr 1))
let n_of_int i = if i = 0 then N0 else Npos (pos_of_int i)
let rec int_of_pos = function XH -> 1 | XO p -> 2 * int_of_pos p | XI p -> 2 * int_of_pos p + 1
let int_of_n = function N0 -> 0 | Npos p -> int_of_pos p
let z_of_int i = if i = 0 then Z0 else if i > 0 then Zpos (pos_of_int i) else Zneg (pos_of_int (- i))
let rec nat_of_int i = if i = 0 then O else S (nat_of_int (i - 1))
let int_of_nat n = let rec go acc = function O -> acc | S m -> go (acc + 1) m in go 0 n

(* small-N cache: bytes *)
let byte_tab = Array.init 256 n_of_int

let str_of_string s = List.init (String.length s) (fun i -> byte_tab.(Char.code s.[i]))
let string_of_str l =
  let b = Buffer.create 64 in
  List.iter (fun c -> Buffer.add_char b (Char.chr ((int_of_n c) land 255))) l;
  Buffer.contents b

let unhex h =
  if h = "-" then "" else
  String.init (String.length h / 2) (fun i -> Char.chr (int_of_string ("0x" ^ String.sub h (2 * i) 2)))
let hex s =
  if s = "" then "-" else begin
    let b = Buffer.create (2 * String.length s) in
    String.iter (fun c -> Buffer.add_string b (Printf.sprintf "%02x" (Char.code c))) s;
    Buffer.contents b
  end

let err_name = function
  | ESyntax -> "syntax"
  | EMissingOpeningNewline -> "opening-newline"
  | EMissingClosingNewline -> "closing-newline"
  | EUnmatchedQuote -> "unmatched-quote"
  | ESurrogate -> "surrogate"
  | EInvalidUTF8 -> "invalid-utf8"
  | EEscapedLastNewline -> "escaped-last-newline"
  | EInvalidWhitespace -> "whitespace"

let show_outcome = function
  | Ok s -> "ok:" ^ hex (string_of_str s)
  | Err e -> "err:" ^ err_name e
  | Panic -> "panic"
  | OutOfFuel -> "fuel"

let parse_form f =
  match String.split_on_char ':' f with
  | [k; ml; auto; ah; ascii; gr; ind] ->
    let b x = x = "1" in
    c09_mk_form (k = "s") (b ml) (b auto) (b ah) (b ascii) (b gr) (nat_of_int (int_of_string ind))
  | _ -> failwith ("bad form " ^ f)

let parse_tbl t =
  if t = "-" then [] else
  List.map (fun e ->
      match String.split_on_char '.' e with
      | [r; pg] -> (n_of_int (int_of_string ("0x" ^ r)), (pg.[0] = '1', pg.[1] = '1'))
      | _ -> failwith ("bad tbl " ^ e))
    (String.split_on_char ',' t)

let handle line =
  match String.split_on_char ' ' line with
  | ["Q"; f; hs; t] ->
    let q = c09_quote (parse_tbl t) (parse_form f) (str_of_string (unhex hs)) in
    Printf.sprintf "%s %s %s" (hex (string_of_str q)) (show_outcome (c09_unquote_impl q)) (show_outcome (c09_unquote_int32 q))
  | ["U"; hl] ->
    let l = str_of_string (unhex hl) in
    Printf.sprintf "%s %s" (show_outcome (c09_unquote_impl l)) (show_outcome (c09_unquote_int32 l))
  | ["I"; hl; n] ->
    let l = str_of_string (unhex hl) in
    (match c09_indent_tabs l (z_of_int (int_of_string n)) with
     | Ok r -> Printf.sprintf "ok:%s %s %s" (hex (string_of_str r)) (show_outcome (c09_unquote_impl r)) (show_outcome (c09_unquote_impl l))
     | _ -> Printf.sprintf "panic - %s" (show_outcome (c09_unquote_impl l)))
  | ["J"; f; hs; t; n] ->
    let tb = parse_tbl t and fm = parse_form f and s = str_of_string (unhex hs) in
    let n = int_of_string n in
    let q = c09_quote tb fm s in
    (match c09_indent_tabs q (z_of_int n) with
     | Ok r ->
       let q2 = c09_quote tb (c09_set_indent fm (nat_of_int n)) s in
       Printf.sprintf "%s %s %s %s" (hex (string_of_str q)) (hex (string_of_str r)) (hex (string_of_str q2)) (show_outcome (c09_unquote_impl r))
     | _ -> "panic")
  | ["D"; hs] ->
    let s = str_of_string (unhex hs) in
    let (r, w) = c09_decode s in
    let (r2, w2) = c09_decode_last s in
    Printf.sprintf "%d %d %d %d" (int_of_n r) (int_of_nat w) (int_of_n r2) (int_of_nat w2)
  | ["E"; hr] -> hex (string_of_str (c09_encode (n_of_int (int_of_string ("0x" ^ hr)))))
  | ["S"; hs] -> hex (string_of_str (c09_sanitize (str_of_string (unhex hs))))
  | ["H"; k; hs] -> string_of_int (int_of_nat (c09_required_hash_count (k = "s") (str_of_string (unhex hs))))
  | _ -> "BADCASE"

let () =
  try
    while true do
      let line = input_line stdin in
      print_string (handle line); print_newline ()
    done
  with End_of_file -> ()
