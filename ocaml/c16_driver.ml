(* C16 driver: one observed history per line
     H <id> <zsize> <msize> <f0,f1,...> <npids> | <label> <label> ...
   labels: S:<pid>:<F|C|M>  X:<pid>  E:<thread>:<Eff>[:a[:b]]
   The acceptance loop, the settling of internal steps, the recovery run and the canonical
   summary are all computed by the extracted Coq function c16_run; this file only parses and prints:
     <store> | <results> | <gz> | skipped=.. complete=.. recover=.. sum=<summary as nested lists>
   alternatives (nondeterministic internal events) are separated by " || ";
   REJECT@<k> <label> when the model's step function cannot take the k-th label. *)
open C16_model

let nat_of_int n = let rec go acc k = if k <= 0 then acc else go (S acc) (k - 1) in go O n
let int_of_nat n = let rec go acc = function O -> acc | S m -> go (acc + 1) m in go 0 n

let split_on c s = String.split_on_char c s |> List.filter (fun x -> x <> "")

let parse_eff (parts : string list) : eff =
  let n k = nat_of_int (int_of_string (List.nth parts k)) in
  let b k = List.nth parts k = "1" in
  match List.hd parts with
  | "StatDir" -> StatDir (b 1) | "StatMarker" -> StatMarker (b 1) | "StatZip" -> StatZip (b 1)
  | "OpenMod" -> OpenMod (b 1) | "LockAcq" -> LockAcq | "LockRel" -> LockRel
  | "UnlinkZTmp" -> UnlinkZTmp (n 1) | "CreateZTmp" -> CreateZTmp (n 1)
  | "WriteZTmp" -> WriteZTmp (n 1, n 2) | "CloseZTmp" -> CloseZTmp (n 1) | "RenameZip" -> RenameZip (n 1)
  | "CreateMTmp" -> CreateMTmp (n 1) | "WriteMTmp" -> WriteMTmp (n 1, n 2)
  | "CloseMTmp" -> CloseMTmp (n 1) | "RenameMod" -> RenameMod (n 1)
  | "UnlinkFile" -> UnlinkFile (n 1) | "RmdirDir" -> RmdirDir | "CreateMarker" -> CreateMarker
  | "MkdirDir" -> MkdirDir | "CreateFile" -> CreateFile (n 1) | "WriteFile" -> WriteFile (n 1, n 2)
  | "CloseFile" -> CloseFile (n 1) | "UnlinkMarker" -> UnlinkMarker
  | s -> failwith ("unknown effect " ^ s)

let parse_label (s : string) : label * bool =
  match String.split_on_char ':' s with
  | "S" :: p :: k :: _ ->
    let kd = (match k with "F" -> KFetch | "C" -> KFromCache | "M" -> KModFile | _ -> failwith "kind") in
    (Spawn (nat_of_int (int_of_string p), kd), false)
  | "X" :: p :: _ -> (Crash (nat_of_int (int_of_string p)), false)
  | "E" :: i :: rest ->
    let e = parse_eff rest in
    let optional = (match e with StatDir _ | StatMarker _ | StatZip _ | OpenMod _ -> true | _ -> false) in
    (Eff (nat_of_int (int_of_string i), e), optional)
  | _ -> failwith ("bad label " ^ s)

let rec pairs = function a :: b :: r -> Printf.sprintf "%d:%d" a b :: pairs r | _ -> []
let opt = function [] -> "-" | n :: _ -> string_of_int n

let show (sum : int list list) (skipped : int) : string =
  match sum with
  | [zip; ztmp; modf; mtmp; [marker]; dir; res; gz; [complete; recov]] ->
    let d = (match dir with 0 :: _ -> "-" | _ :: l -> "[" ^ String.concat "," (pairs l) ^ "]" | [] -> "?") in
    let r = List.map (function 0 -> "ok" | 1 -> "err" | 2 -> "notfound" | 3 -> "dead" | _ -> "live") res in
    Printf.sprintf "zip=%s ztmp=[%s] modf=%s mtmp=[%s] marker=%d dir=%s | %s | %s | skipped=%d complete=%b recover=%s sum=[%s]"
      (opt zip) (String.concat "," (pairs ztmp)) (opt modf) (String.concat "," (pairs mtmp)) marker d
      (String.concat " " r) (String.concat " " (List.map string_of_int gz)) skipped (complete = 1)
      (match recov with 0 -> "skip" | 1 -> "ok" | 2 -> "bad" | _ -> "stuck")
      (String.concat "," (List.map (fun l -> "[" ^ String.concat "," (List.map string_of_int l) ^ "]") sum))
  | _ -> "DRIVER-ERROR malformed summary"

let () =
  try
    while true do
      let line = input_line stdin in
      (try
        let bar = String.index line '|' in
        let head = split_on ' ' (String.sub line 0 bar) in
        let labels = split_on ' ' (String.sub line (bar + 1) (String.length line - bar - 1)) in
        let z = int_of_string (List.nth head 2) and m = int_of_string (List.nth head 3) in
        let fs = List.map (fun x -> nat_of_int (int_of_string x)) (split_on ',' (List.nth head 4)) in
        let npids = int_of_string (List.nth head 5) in
        let c = c16_cfg (nat_of_int z) (nat_of_int m) fs in
        (match c16_run c (List.map parse_label labels) (nat_of_int npids) with
         | Inr k -> let k = int_of_nat k in Printf.printf "REJECT@%d %s\n" k (List.nth labels k)
         | Inl (sums, skipped) ->
           let outs = List.map (fun s -> show (List.map (List.map int_of_nat) s) (int_of_nat skipped)) sums in
           print_endline (String.concat " || " (List.sort_uniq compare outs)))
      with e -> Printf.printf "DRIVER-ERROR %s\n" (Printexc.to_string e));
      flush stdout
    done
  with End_of_file -> ()
