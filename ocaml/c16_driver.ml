(* C16 driver: one observed history per line
     H <id> <zsize> <msize> <f0,f1,...> <npids> | <label> <label> ...
   labels: S:<pid>:<F|C|M>  X:<pid>  E:<thread>:<Eff>[:a[:b]]
   prints the model's final abstract store, thread results and GetZip counts,
   or REJECT@<k> <label> when the model's step function cannot take the k-th label. *)
open C16_model

let rec nat_of_int n = let rec go acc k = if k <= 0 then acc else go (S acc) (k - 1) in go O n
let rec int_of_nat = function O -> 0 | S n -> 1 + int_of_nat n
let int_of_nat n = let rec go acc = function O -> acc | S m -> go (acc + 1) m in go 0 n

let split_on c s = String.split_on_char c s |> List.filter (fun x -> x <> "")

let parse_eff (parts : string list) : eff =
  let n k = nat_of_int (int_of_string (List.nth parts k)) in
  let b k = List.nth parts k = "1" in
  match List.hd parts with
  | "StatDir" -> StatDir (b 1) | "StatMarker" -> StatMarker (b 1) | "StatZip" -> StatZip (b 1)
  | "OpenMod" -> OpenMod (b 1) | "LockAcq" -> LockAcq | "LockRel" -> LockRel
  | "UnlinkZTmp" -> UnlinkZTmp (n 1) | "CreateZTmp" -> CreateZTmp (n 1)
  | "WriteZTmp" -> WriteZTmp (n 1, n 2) | "CloseZTmp" -> CloseZTmp (n 1) | "RenameZip" -> RenameZip (n 1)
  | "CreateMTmp" -> CreateMTmp (n 1) | "WriteMTmp" -> WriteMTmp (n 1, n 2)
  | "CloseMTmp" -> CloseMTmp (n 1) | "RenameMod" -> RenameMod (n 1)
  | "UnlinkFile" -> UnlinkFile (n 1) | "RmdirDir" -> RmdirDir | "CreateMarker" -> CreateMarker
  | "MkdirDir" -> MkdirDir | "CreateFile" -> CreateFile (n 1) | "WriteFile" -> WriteFile (n 1, n 2)
  | "CloseFile" -> CloseFile (n 1) | "UnlinkMarker" -> UnlinkMarker
  | s -> failwith ("unknown effect " ^ s)

let parse_label (s : string) : label * bool =
  match String.split_on_char ':' s with
  | "S" :: p :: k :: _ ->
    let kd = (match k with "F" -> KFetch | "C" -> KFromCache | "M" -> KModFile | _ -> failwith "kind") in
    (Spawn (nat_of_int (int_of_string p), kd), false)
  | "X" :: p :: _ -> (Crash (nat_of_int (int_of_string p)), false)
  | "E" :: i :: rest ->
    let e = parse_eff rest in
    let optional = (match e with StatDir _ | StatMarker _ | StatZip _ | OpenMod _ -> true | _ -> false) in
    (Eff (nat_of_int (int_of_string i), e), optional)
  | _ -> failwith ("bad label " ^ s)

let pairs l = String.concat "," (List.map (fun (a, b) -> Printf.sprintf "%d:%d" (int_of_nat a) (int_of_nat b))
  (List.sort compare (List.map (fun (a, b) -> (int_of_nat a, int_of_nat b)) l |> List.map (fun (a,b) -> (a,b)))
   |> List.map (fun (a, b) -> (nat_of_int a, nat_of_int b))))
let opt = function None -> "-" | Some n -> string_of_int (int_of_nat n)

let show_store (s : store) =
  Printf.sprintf "zip=%s ztmp=[%s] modf=%s mtmp=[%s] marker=%d dir=%s"
    (opt s.zip) (pairs s.ztmp) (opt s.modf) (pairs s.mtmp) (if s.marker then 1 else 0)
    (match s.dir with None -> "-" | Some l -> "[" ^ pairs l ^ "]")

let () =
  try
    while true do
      let line = input_line stdin in
      (try
        let bar = String.index line '|' in
        let head = split_on ' ' (String.sub line 0 bar) in
        let labels = split_on ' ' (String.sub line (bar + 1) (String.length line - bar - 1)) in
        let z = int_of_string (List.nth head 2) and m = int_of_string (List.nth head 3) in
        let fs = List.map (fun x -> nat_of_int (int_of_string x)) (split_on ',' (List.nth head 4)) in
        let npids = int_of_string (List.nth head 5) in
        let c = c16_cfg (nat_of_int z) (nat_of_int m) fs in
        let ws = ref [c16_world0] and k = ref 0 and rej = ref None and skipped = ref 0 in
        let rec take n = function [] -> [] | x :: r -> if n = 0 then [] else x :: take (n - 1) r in
        List.iter (fun s ->
          if !rej = None then begin
            let (l, optional) = parse_label s in
            (match take 8 (List.concat_map (fun w -> c16_accept1 c w l) !ws) with
             | [] -> if optional then incr skipped else rej := Some (!k, s)
             | ws' -> ws := ws');
            incr k
          end) labels;
        (match !rej with
         | Some (k, s) -> Printf.printf "REJECT@%d %s\n" k s
         | None ->
           let outs = List.map (fun w0 ->
             let w = ref w0 in
             let n = int_of_nat (c16_nthreads !w) in
             for i = 0 to n - 1 do w := c16_settle c (S (S (S O))) !w (nat_of_int i) done;
             let res = List.init n (fun i -> match int_of_nat (c16_result !w (nat_of_int i)) with
               | 0 -> "ok" | 1 -> "err" | 2 -> "notfound" | 3 -> "dead" | _ -> "live") in
             let gz = List.init npids (fun p -> string_of_int (int_of_nat (c16_gz !w (nat_of_int p)))) in
             let quiet = List.for_all (fun r -> r <> "live") res in
             let rec_ok = if not quiet then "skip" else
               (match c16_recover c !w (nat_of_int (npids + 1)) with
                | Some w' -> if c16_completeb c (c16_store w') && int_of_nat (c16_result w' (nat_of_int n)) = 0 then "ok" else "bad"
                | None -> "stuck") in
             Printf.sprintf "%s | %s | %s | skipped=%d complete=%b recover=%s" (show_store (c16_store !w))
               (String.concat " " res) (String.concat " " gz) !skipped (c16_completeb c (c16_store !w)) rec_ok) !ws in
           print_endline (String.concat " || " (List.sort_uniq compare outs)))
      with e -> Printf.printf "DRIVER-ERROR %s\n" (Printexc.to_string e));
      flush stdout
    done
  with End_of_file -> ()
