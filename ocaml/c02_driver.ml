(* Driver for the extracted C02 scanner model: one case per input line, one
   result per output line.
     SCAN <flags> <hexsrc> <letters> <digits> <ops>
        flags   : subset of "c" (ScanComments) "n" (DontInsertCommas), or "-"
        letters : comma separated runes >= 0x80 with unicode.IsLetter, or "-"
        digits  : same for unicode.IsDigit
        ops     : string over S (Scan) / R (ResumeInterpolation), or "-"
        -> <obs> <obs> ... <OK|MISUSE|PANIC|FUEL>
           obs = T:<token>:<start>:<end>:<errors>:<depth>[:e]   (e = inserted comma)
               | R:<end>:<errors>:<depth>
     TOK <flags> <hexsrc> <letters> <digits>
        -> same observations for Init + Scan until EOF, computed by [tokenize]
           (only token, start and the inserted flag): t:<token>:<start>[:e] ... OK
*)
open C02_model

let rec pos_of_int i = if i = 1 then XH else if i land 1 = 0 then XO (pos_of_int (i lsr 1)) else XI (pos_of_int (i lsr 1))
let n_of_int i = if i = 0 then N0 else Npos (pos_of_int i)
let z_of_int i = if i = 0 then Z0 else if i > 0 then Zpos (pos_of_int i) else Zneg (pos_of_int (-i))
let rec int_of_pos = function XH -> 1 | XO p -> 2 * int_of_pos p | XI p -> 2 * int_of_pos p + 1
let int_of_z = function Z0 -> 0 | Zpos p -> int_of_pos p | Zneg p -> - (int_of_pos p)
let rec int_of_nat = function O -> 0 | S n -> 1 + int_of_nat n

let unhex h =
  if h = "-" then "" else
  String.init (String.length h / 2) (fun i -> Char.chr (int_of_string ("0x" ^ String.sub h (2 * i) 2)))
let bytes_of_string s = List.init (String.length s) (fun i -> n_of_int (Char.code s.[i]))

let table s =
  if s = "-" then [] else List.map (fun w -> z_of_int (int_of_string w)) (String.split_on_char ',' s)

let tok_name = function
  | ILLEGAL -> "ILLEGAL" | EOF -> "EOF" | COMMENT -> "COMMENT" | ATTRIBUTE -> "ATTRIBUTE"
  | IDENT -> "IDENT" | INT -> "INT" | FLOAT -> "FLOAT" | STRING -> "STRING"
  | INTERPOLATION -> "INTERPOLATION" | BOTTOM -> "_|_"
  | ADD -> "+" | SUB -> "-" | MUL -> "*" | QUO -> "/" | AND -> "&" | OR -> "|"
  | LAND -> "&&" | LOR -> "||" | BIND -> "=" | EQL -> "==" | LSS -> "<" | GTR -> ">"
  | NOT -> "!" | ARROW -> "<-" | NEQ -> "!=" | LEQ -> "<=" | GEQ -> ">=" | MAT -> "=~"
  | NMAT -> "!~" | LPAREN -> "(" | LBRACK -> "[" | LBRACE -> "{" | COMMA -> ","
  | PERIOD -> "." | ELLIPSIS -> "..." | RPAREN -> ")" | RBRACK -> "]" | RBRACE -> "}"
  | SEMICOLON -> ";" | COLON -> ":" | OPTION -> "?" | TILDE -> "~"
  | IF -> "if" | ELSE -> "else" | FOR -> "for" | IN -> "in" | LET -> "let" | TRY -> "try"
  | FALLBACK -> "fallback" | OTHERWISE -> "otherwise" | FUNC -> "func"
  | TRUE -> "true" | FALSE -> "false" | NULL -> "null"

let show_obs = function
  | ObsTok (r, e, n, d) ->
    Printf.sprintf "T:%s:%d:%d:%d:%d%s" (tok_name r.r_tok) (int_of_z r.r_start) (int_of_z e) (int_of_z n)
      (int_of_nat d) (if r.r_elided then ":e" else "")
  | ObsResume (e, n, d) -> Printf.sprintf "R:%d:%d:%d" (int_of_z e) (int_of_z n) (int_of_nat d)

let flags f = (String.contains f 'c', String.contains f 'n')

(* Coq syntax of a result, for the vm_compute cross-check of the extraction *)
let tok_coq = function
  | ILLEGAL -> "ILLEGAL" | EOF -> "EOF" | COMMENT -> "COMMENT" | ATTRIBUTE -> "ATTRIBUTE"
  | IDENT -> "IDENT" | INT -> "INT" | FLOAT -> "FLOAT" | STRING -> "STRING"
  | INTERPOLATION -> "INTERPOLATION" | BOTTOM -> "BOTTOM"
  | ADD -> "ADD" | SUB -> "SUB" | MUL -> "MUL" | QUO -> "QUO" | AND -> "AND" | OR -> "OR"
  | LAND -> "LAND" | LOR -> "LOR" | BIND -> "BIND" | EQL -> "EQL" | LSS -> "LSS" | GTR -> "GTR"
  | NOT -> "NOT" | ARROW -> "ARROW" | NEQ -> "NEQ" | LEQ -> "LEQ" | GEQ -> "GEQ" | MAT -> "MAT"
  | NMAT -> "NMAT" | LPAREN -> "LPAREN" | LBRACK -> "LBRACK" | LBRACE -> "LBRACE" | COMMA -> "COMMA"
  | PERIOD -> "PERIOD" | ELLIPSIS -> "ELLIPSIS" | RPAREN -> "RPAREN" | RBRACK -> "RBRACK" | RBRACE -> "RBRACE"
  | SEMICOLON -> "SEMICOLON" | COLON -> "COLON" | OPTION -> "OPTION" | TILDE -> "TILDE"
  | IF -> "IF" | ELSE -> "ELSE" | FOR -> "FOR" | IN -> "IN" | LET -> "LET" | TRY -> "TRY"
  | FALLBACK -> "FALLBACK" | OTHERWISE -> "OTHERWISE" | FUNC -> "FUNC"
  | TRUE -> "TRUE" | FALSE -> "FALSE" | NULL -> "NULL"
let zc i = if i < 0 then Printf.sprintf "(%d)" i else string_of_int i
let obs_coq = function
  | ObsTok (r, e, n, d) ->
    Printf.sprintf "ObsTok (mkRes %s %s %b) %s %s %d" (tok_coq r.r_tok) (zc (int_of_z r.r_start)) r.r_elided
      (zc (int_of_z e)) (zc (int_of_z n)) (int_of_nat d)
  | ObsResume (e, n, d) -> Printf.sprintf "ObsResume %s %s %d" (zc (int_of_z e)) (zc (int_of_z n)) (int_of_nat d)

let handle line =
  match String.split_on_char ' ' line with
  | ["SCAN"; fl; hsrc; letters; digits; ops] ->
    let (c, n) = flags fl in
    let ops = if ops = "-" then [] else
        List.init (String.length ops) (fun i -> if ops.[i] = 'R' then OResume else OScan) in
    let r = c02_run (bytes_of_string (unhex hsrc)) (table letters) (table digits) c n ops in
    let (l, st) = match r with
      | RunOk l -> (l, "OK") | RunMisuse l -> (l, "MISUSE") | RunPanic l -> (l, "PANIC") | RunFuel l -> (l, "FUEL") in
    String.concat " " (List.map show_obs l @ [st])
  | ["VSCAN"; fl; hsrc; letters; digits; ops] ->
    (* the same run, printed as a Coq proposition to be checked by vm_compute *)
    let (c, n) = flags fl in
    let src = unhex hsrc in
    let opl = if ops = "-" then [] else
        List.init (String.length ops) (fun i -> if ops.[i] = 'R' then OResume else OScan) in
    let r = c02_run (bytes_of_string src) (table letters) (table digits) c n opl in
    let (l, st) = match r with
      | RunOk l -> (l, "RunOk") | RunMisuse l -> (l, "RunMisuse") | RunPanic l -> (l, "RunPanic") | RunFuel l -> (l, "RunFuel") in
    let nl xs = "[" ^ String.concat "; " xs ^ "]" in
    let ztab t = nl (List.map (fun z -> zc (int_of_z z)) (table t)) in
    Printf.sprintf "c02_run (%s%%N) %s %s %b %b %s = %s %s"
      (nl (List.init (String.length src) (fun i -> string_of_int (Char.code src.[i]))))
      (ztab letters) (ztab digits) c n
      (nl (List.map (function OScan -> "OScan" | OResume -> "OResume") opl))
      st (nl (List.map obs_coq l))
  | ["TOK"; fl; hsrc; letters; digits] ->
    let (c, n) = flags fl in
    (match c02_tokenize (bytes_of_string (unhex hsrc)) (table letters) (table digits) c n with
     | Ok l ->
       String.concat " " (List.map (fun r ->
           Printf.sprintf "t:%s:%d%s" (tok_name r.r_tok) (int_of_z r.r_start) (if r.r_elided then ":e" else "")) l @ ["OK"])
     | Panic -> "PANIC"
     | Fuel -> "FUEL")
  | _ -> "BADCASE"

let () =
  try
    while true do
      let line = input_line stdin in
      print_string (handle line); print_newline ()
    done
  with End_of_file -> ()
