(* Driver for the extracted C06 model: one case per input line, one result per
   output line.  Coefficients travel as lower-case hex (linear conversion to the
   Coq positive datatype), exponents as decimal ints.

   E <prefix expression>
        tokens: + - * / neg == != < <= > >= div mod quo rem
                bnd!= bnd< bnd<= bnd> bnd>=   (a & <b: validation of a against a bound)
                i<hex>            int literal (exponent 0)
                f<hex>^<int>      float literal coefficient * 10^exp
        -> <res> # same            implementation layer = specification layer
           <res> # DIFF <specres>  the exact layer gives another result (F1 class)
        res: n <i|f> <+|-> <hex> <exp>  |  b <0|1>  |  err
   L <hex bytes of a literal> | LV <hex bytes>
        -> num <i|f> <+|-> <hex> <exp> | nan <i|f> | err
           followed by  # same | nospec | ROUNDED | REJECTED  (NumLitSpec.classify)
   S <op> <s|b> <hex> <hex>   bytewise comparison of strings / bytes  -> b <0|1>
*)
open C06_model

let rec pos_of_hex_bits (bits : bool list) : positive =
  (* bits: least significant first, last one is true *)
  match bits with
  | [] -> failwith "pos_of_bits"
  | [true] -> XH
  | b :: r -> if b then XI (pos_of_hex_bits r) else XO (pos_of_hex_bits r)

let hexval c =
  match c with
  | '0' .. '9' -> Char.code c - 48
  | 'a' .. 'f' -> Char.code c - 87
  | 'A' .. 'F' -> Char.code c - 55
  | _ -> failwith "hexval"

let n_of_hex (s : string) : n =
  (* lsb-first bit list *)
  let bits = ref [] in
  String.iter (fun c ->
      let v = hexval c in
      (* msb first within the string: prepend so that the final list is lsb-first *)
      bits := ((v land 1) = 1) :: ((v land 2) = 2) :: ((v land 4) = 4) :: ((v land 8) = 8) :: !bits) s;
  (* drop leading zeros = trailing falses of the lsb-first list *)
  let rec strip_rev l = match l with false :: r -> strip_rev r | _ -> l in
  let l = List.rev (strip_rev (List.rev !bits)) in
  match l with [] -> N0 | _ -> Npos (pos_of_hex_bits l)

let hex_of_n (x : n) : string =
  match x with
  | N0 -> "0"
  | Npos p ->
    let rec bits p acc = match p with
      | XH -> true :: acc
      | XO q -> bits q (false :: acc)
      | XI q -> bits q (true :: acc) in
    (* msb first *)
    let rec lsb p = match p with XH -> [true] | XO q -> false :: lsb q | XI q -> true :: lsb q in
    ignore bits;
    let l = Array.of_list (lsb p) in
    let nb = Array.length l in
    let nh = (nb + 3) / 4 in
    let b = Bytes.create nh in
    for i = 0 to nh - 1 do
      let v = ref 0 in
      for j = 3 downto 0 do
        let k = 4 * i + j in
        v := 2 * !v + (if k < nb && l.(k) then 1 else 0)
      done;
      Bytes.set b (nh - 1 - i) "0123456789abcdef".[!v]
    done;
    Bytes.to_string b

let rec pos_of_int i = if i = 1 then XH else if i land 1 = 0 then XO (pos_of_int (i lsr 1)) else XI (pos_of_int (i lsr 1))
let n_of_int i = if i = 0 then N0 else Npos (pos_of_int i)
let z_of_int i = if i = 0 then Z0 else if i > 0 then Zpos (pos_of_int i) else Zneg (pos_of_int (- i))
let rec int_of_pos = function XH -> 1 | XO p -> 2 * int_of_pos p | XI p -> 2 * int_of_pos p + 1
let int_of_z = function Z0 -> 0 | Zpos p -> int_of_pos p | Zneg p -> - (int_of_pos p)

let unhex h =
  if h = "-" then "" else
  String.init (String.length h / 2) (fun i -> Char.chr (16 * hexval h.[2 * i] + hexval h.[2 * i + 1]))
let bytes_of_string s = List.init (String.length s) (fun i -> n_of_int (Char.code s.[i]))

let words s = List.filter (fun w -> w <> "") (String.split_on_char ' ' s)

let lit_of_tok t =
  if t.[0] = 'i' then
    ELit { nk = KInt; nd = { neg = false; coeff = n_of_hex (String.sub t 1 (String.length t - 1)); exp = Z0 } }
  else begin
    let i = String.index t '^' in
    let c = n_of_hex (String.sub t 1 (i - 1)) in
    let e = int_of_string (String.sub t (i + 1) (String.length t - i - 1)) in
    ELit { nk = KFloat; nd = { neg = false; coeff = c; exp = z_of_int e } }
  end

let rec parse_expr toks =
  match toks with
  | [] -> failwith "empty expression"
  | t :: r ->
    let bin mk = let a, r1 = parse_expr r in let b, r2 = parse_expr r1 in (mk a b, r2) in
    (match t with
     | "+" -> bin (fun a b -> EArith (OpAdd, a, b))
     | "-" -> bin (fun a b -> EArith (OpSub, a, b))
     | "*" -> bin (fun a b -> EArith (OpMul, a, b))
     | "/" -> bin (fun a b -> EArith (OpQuo, a, b))
     | "neg" -> let a, r1 = parse_expr r in (ENeg a, r1)
     | "==" -> bin (fun a b -> ECmp (CEq, a, b))
     | "!=" -> bin (fun a b -> ECmp (CNe, a, b))
     | "<" -> bin (fun a b -> ECmp (CLt, a, b))
     | "<=" -> bin (fun a b -> ECmp (CLe, a, b))
     | ">" -> bin (fun a b -> ECmp (CGt, a, b))
     | ">=" -> bin (fun a b -> ECmp (CGe, a, b))
     | "div" -> bin (fun a b -> ECall (FDiv, a, b))
     | "mod" -> bin (fun a b -> ECall (FMod, a, b))
     | "quo" -> bin (fun a b -> ECall (FQuo, a, b))
     | "rem" -> bin (fun a b -> ECall (FRem, a, b))
     | "bnd!=" -> bin (fun a b -> EBound (CNe, a, b))
     | "bnd<" -> bin (fun a b -> EBound (CLt, a, b))
     | "bnd<=" -> bin (fun a b -> EBound (CLe, a, b))
     | "bnd>" -> bin (fun a b -> EBound (CGt, a, b))
     | "bnd>=" -> bin (fun a b -> EBound (CGe, a, b))
     | _ -> (lit_of_tok t, r))

let show_num (x : num) =
  Printf.sprintf "%s %s %s %d" (match x.nk with KInt -> "i" | KFloat -> "f")
    (if x.nd.neg then "-" else "+") (hex_of_n x.nd.coeff) (int_of_z x.nd.exp)

let show_res = function
  | Err -> "err"
  | Ok (VBool b) -> if b then "b 1" else "b 0"
  | Ok (VNum x) -> "n " ^ show_num x

let cmp_of = function
  | "==" -> CEq | "!=" -> CNe | "<" -> CLt | "<=" -> CLe | ">" -> CGt | ">=" -> CGe
  | _ -> failwith "cmp op"

let handle line =
  match words line with
  | "E" :: toks ->
    let e, rest = parse_expr toks in
    if rest <> [] then "BADCASE" else
    let ((i, s), same) = c06_eval e in
    if same then show_res i ^ " # same" else show_res i ^ " # DIFF " ^ show_res s
  | ("L" | "LV") :: h :: [] ->
    let (r, cl) = c06_lit (bytes_of_string (unhex h)) in
    (match r with
     | LErr -> "err"
     | LNaN k -> "nan " ^ (match k with KInt -> "i" | KFloat -> "f")
     | LNum x -> "num " ^ show_num x)
    ^ " # " ^ (match cl with LcSame -> "same" | LcNoSpec -> "nospec" | LcRounded -> "ROUNDED"
                           | LcRejected -> "REJECTED")
  | "S" :: op :: _ :: a :: b :: [] ->
    if c06_bytes_cmp (cmp_of op) (bytes_of_string (unhex a)) (bytes_of_string (unhex b)) then "b 1" else "b 0"
  | _ -> "BADCASE"

let () =
  try
    while true do
      let line = input_line stdin in
      print_string (try handle line with Failure m -> "BADCASE " ^ m | Not_found -> "BADCASE nf");
      print_newline ()
    done
  with End_of_file -> ()
