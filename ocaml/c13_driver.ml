(* Driver for the extracted C13 model.  One case per input line, one result per
   output line.  A line has three tab-separated fields:

     <tag> <schema>  TAB  <regex table>  TAB  <instance> ; <instance> ; ...

   Tokens are separated by single blanks.
   JSON:    n | t | f | #<halves> | DQUOTE<cp>.<cp>... | [ json* ] | { (string json)* }
            (#3 is 1.5; a string token is a double quote followed by its code
            points in hex joined by dots; the empty string is a lone double quote)
   Schema:  T | F | ( entry* )   with entries
            type [ name* ] | enum [ json* ] | const json | multipleOf int
            | xmax #h | xmin #h | max #h | min #h
            | maxLength n | minLength n | pattern p<id> | maxProps n | minProps n
            | maxItems n | minItems n | unique t/f | maxContains n | minContains n
            | required [ string* ]
            | ref S (inline target) | ref @<i> (entry i of the defs table) | allOf [ S* ] | anyOf [ S* ] | oneOf [ S* ] | not S | if S | then S | else S
            | props { (string S)* } | pprops { (p<id> S)* } | pnames S | prefix [ S* ]
            | contains S | addl S | items S
            after the root schema optionally:  defs [ S* ]   (the table of named definitions; a line
            uses either inline or named references).  The schema is parsed into Refs.rschema, checked
            with doc_ok and inlined by the extracted resolve_doc; valid_r (following references) is
            cross-checked against valid of the inlined schema on every instance.
   Table:   p<id>:<string>:<0|1> ...
   Tags:    F forward case, O the same schema written with permuted keys, R schema generated back,
            T test-suite case
   Output:  U                      the model says the import fails (tags F and O only)
            C <valid bits> <encode bits>   as S, and the model says the generated file is an error
                                   value as a whole (compile error, every instance rejected)
            S <valid bits> <encode bits> <dev>   (dev: "-" or the deviation classes of Schema/Encode.v used
                                   by the schema, e.g. "1,5"; "-" means inside the fragment of encode_correct)
*)
open C13_model

let rec pos_of_int i = if i = 1 then XH else if i land 1 = 0 then XO (pos_of_int (i lsr 1)) else XI (pos_of_int (i lsr 1))
let n_of_int i = if i = 0 then N0 else Npos (pos_of_int i)
let z_of_int i = if i = 0 then Z0 else if i > 0 then Zpos (pos_of_int i) else Zneg (pos_of_int (-i))

let str_of_tok t =
  (* t starts with a double quote *)
  let body = String.sub t 1 (String.length t - 1) in
  if body = "" then [] else
  List.map (fun h -> n_of_int (int_of_string ("0x" ^ h))) (String.split_on_char '.' body)

type stream = { mutable toks : string list }
let peek s = match s.toks with [] -> failwith "unexpected end" | t :: _ -> t
let next s = match s.toks with [] -> failwith "unexpected end" | t :: r -> s.toks <- r; t
let expect s t = let x = next s in if x <> t then failwith ("expected " ^ t ^ " got " ^ x)

let rec many s close f =
  if peek s = close then (ignore (next s); []) else let x = f s in x :: many s close f

let rec p_json s =
  let t = next s in
  match t.[0] with
  | 'n' -> JNull
  | 't' -> JBool true
  | 'f' -> JBool false
  | '#' -> JNum (z_of_int (int_of_string (String.sub t 1 (String.length t - 1))))
  | '"' -> JStr (str_of_tok t)
  | '[' -> JArr (many s "]" p_json)
  | '{' -> JObj (many s "}" (fun s -> let k = str_of_tok (next s) in let v = p_json s in (k, v)))
  | _ -> failwith ("bad json token " ^ t)

let p_nat s = n_of_int (int_of_string (next s))
let p_half s = let t = next s in z_of_int (int_of_string (String.sub t 1 (String.length t - 1)))
let p_pat s = let t = next s in n_of_int (int_of_string (String.sub t 1 (String.length t - 1)))
let p_ty s = match next s with
  | "null" -> TyNull | "boolean" -> TyBoolean | "integer" -> TyInteger | "number" -> TyNumber
  | "string" -> TyString | "array" -> TyArray | "object" -> TyObject | t -> failwith ("bad type " ^ t)

let rec nat_of_int i = if i <= 0 then O else S (nat_of_int (i - 1))
let inline_defs : (int, rschema) Hashtbl.t = Hashtbl.create 16
let inline_count = ref 0

let rec p_schema s =
  match next s with
  | "T" -> RBool true
  | "F" -> RBool false
  | "(" ->
    let a = ref no_assertions and rf = ref None and p = ref (no_applic : rschema applic) in
    let rec loop () =
      match next s with
      | ")" -> ()
      | kw ->
        (match kw with
         | "type" -> expect s "["; let l = many s "]" p_ty in a := { !a with a_type = Some l }
         | "enum" -> expect s "["; let l = many s "]" p_json in a := { !a with a_enum = Some l }
         | "const" -> let j = p_json s in a := { !a with a_const = Some j }
         | "multipleOf" -> let k = z_of_int (int_of_string (next s)) in a := { !a with a_multipleOf = Some k }
         | "xmax" -> let h = p_half s in a := { !a with a_xmax = Some h }
         | "xmin" -> let h = p_half s in a := { !a with a_xmin = Some h }
         | "max" -> let h = p_half s in a := { !a with a_max = Some h }
         | "min" -> let h = p_half s in a := { !a with a_min = Some h }
         | "maxLength" -> let n = p_nat s in a := { !a with a_maxLength = Some n }
         | "minLength" -> let n = p_nat s in a := { !a with a_minLength = Some n }
         | "pattern" -> let q = p_pat s in a := { !a with a_pattern = Some q }
         | "maxProps" -> let n = p_nat s in a := { !a with a_maxProps = Some n }
         | "minProps" -> let n = p_nat s in a := { !a with a_minProps = Some n }
         | "maxItems" -> let n = p_nat s in a := { !a with a_maxItems = Some n }
         | "minItems" -> let n = p_nat s in a := { !a with a_minItems = Some n }
         | "unique" -> let b = (next s = "t") in a := { !a with a_unique = Some b }
         | "maxContains" -> let n = p_nat s in a := { !a with a_maxContains = Some n }
         | "minContains" -> let n = p_nat s in a := { !a with a_minContains = Some n }
         | "required" -> expect s "["; let l = many s "]" (fun s -> str_of_tok (next s)) in a := { !a with a_required = Some l }
         | "ref" ->
           let t = peek s in
           if String.length t > 1 && t.[0] = '@' then begin
             ignore (next s);
             rf := Some (nat_of_int (int_of_string (String.sub t 1 (String.length t - 1))))
           end else begin
             let idx = !inline_count in
             incr inline_count;
             let x = p_schema s in
             Hashtbl.replace inline_defs idx x;
             rf := Some (nat_of_int idx)
           end
         | "allOf" -> expect s "["; let l = many s "]" p_schema in p := { !p with ap_allOf = Some l }
         | "anyOf" -> expect s "["; let l = many s "]" p_schema in p := { !p with ap_anyOf = Some l }
         | "oneOf" -> expect s "["; let l = many s "]" p_schema in p := { !p with ap_oneOf = Some l }
         | "not" -> let x = p_schema s in p := { !p with ap_not = Some x }
         | "if" -> let x = p_schema s in p := { !p with ap_if = Some x }
         | "then" -> let x = p_schema s in p := { !p with ap_then = Some x }
         | "else" -> let x = p_schema s in p := { !p with ap_else = Some x }
         | "props" -> expect s "{";
           let l = many s "}" (fun s -> let k = str_of_tok (next s) in let x = p_schema s in (k, x)) in
           p := { !p with ap_props = Some l }
         | "pprops" -> expect s "{";
           let l = many s "}" (fun s -> let k = p_pat s in let x = p_schema s in (k, x)) in
           p := { !p with ap_pprops = Some l }
         | "pnames" -> let x = p_schema s in p := { !p with ap_pnames = Some x }
         | "prefix" -> expect s "["; let l = many s "]" p_schema in p := { !p with ap_prefix = Some l }
         | "contains" -> let x = p_schema s in p := { !p with ap_contains = Some x }
         | "addl" -> let x = p_schema s in p := { !p with ap_addl = Some x }
         | "items" -> let x = p_schema s in p := { !p with ap_items = Some x }
         | _ -> failwith ("bad keyword " ^ kw));
        loop ()
    in
    loop ();
    RObj (!a, !rf, !p)
  | t -> failwith ("bad schema token " ^ t)

let words s = List.filter (fun w -> w <> "") (String.split_on_char ' ' s)

let p_table f =
  List.map (fun w ->
      match String.split_on_char ':' w with
      | [p; str; b] ->
        ((n_of_int (int_of_string (String.sub p 1 (String.length p - 1))), str_of_tok str), b = "1")
      | _ -> failwith ("bad table entry " ^ w))
    (words f)

let rec int_of_nat = function O -> 0 | S n -> 1 + int_of_nat n
let dev_string l =
  match List.sort_uniq compare (List.map int_of_nat l) with
  | [] -> "-"
  | l -> String.concat "," (List.map string_of_int l)

let handle line =
  match String.split_on_char '\t' line with
  | [sf; tf; inf] ->
    let st = { toks = words sf } in
    let tag = next st in
    Hashtbl.reset inline_defs; inline_count := 0;
    let rsch = p_schema st in
    let named = match st.toks with
      | "defs" :: _ -> ignore (next st); expect st "["; Some (many st "]" p_schema)
      | [] -> None
      | t :: _ -> failwith ("trailing token " ^ t) in
    let defs = match named with
      | Some l -> if !inline_count > 0 then failwith "inline and named references mixed" else l
      | None -> List.init !inline_count (fun i -> Hashtbl.find inline_defs i) in
    let tbl = p_table tf in
    let insts = List.filter_map (fun part ->
        match words part with
        | [] -> None
        | ws -> Some (p_json { toks = ws })) (String.split_on_char ';' inf) in
    let fwd = (tag = "F" || tag = "O") in
    if not (c13_doc_ok defs rsch) then (if fwd then "U" else failwith "references do not resolve")
    else
    let sch = c13_resolve_doc defs rsch in
    List.iter (fun j -> if c13_valid_r tbl defs rsch j <> c13_valid tbl sch j then failwith "valid_r differs from valid of the inlined schema") insts;
    if fwd && c13_unsupported tbl sch then "U"
    else begin
      let b x = if x then "1" else "0" in
      let v = String.concat "" (List.map (fun j -> b (c13_valid tbl sch j)) insts) in
      let r = c13_enc tbl sch in
      let e = String.concat "" (List.map (fun j -> b (c13_enc_ev r j)) insts) in
      (if fwd && c13_poisoned tbl sch then "C " else "S ") ^ v ^ " " ^ e ^ " " ^ dev_string (c13_dev r)
    end
  | _ -> "BADCASE"

let () =
  try
    while true do
      let line = input_line stdin in
      (try print_string (handle line) with Failure m -> print_string ("BADCASE " ^ m));
      print_newline ()
    done
  with End_of_file -> ()
