(* Driver for the extracted C12 model.  One case per line:
     E <event>;<event>;... | L0=<canon> L1=<canon> ... | <hex toml>
       event: K <path> <value> | T <path> | A <path>
       path : hex key segments joined by '.'   ("-" = empty key)
       value: L<id> | [v,v,...] | {path=v,...}
   -> ok <canon> | conflict | err dup | err arr_as_table | err as_array
     other case kinds (decided on the implementation alone) -> "-" *)
open C12_model

let rec pos_of_int i = if i = 1 then XH else if i land 1 = 0 then XO (pos_of_int (i lsr 1)) else XI (pos_of_int (i lsr 1))
let n_of_int i = if i = 0 then N0 else Npos (pos_of_int i)
let rec int_of_pos = function XH -> 1 | XO p -> 2 * int_of_pos p | XI p -> 2 * int_of_pos p + 1
let int_of_n = function N0 -> 0 | Npos p -> int_of_pos p
let rec nat_of_int i = if i = 0 then O else S (nat_of_int (i - 1))

let unhex h =
  if h = "-" then "" else
  String.init (String.length h / 2) (fun i -> Char.chr (int_of_string ("0x" ^ String.sub h (2 * i) 2)))
let hex s = if s = "" then "-" else String.concat "" (List.init (String.length s) (fun i -> Printf.sprintf "%02x" (Char.code s.[i])))
let str_of_string s = List.init (String.length s) (fun i -> n_of_int (Char.code s.[i]))
let string_of_str l = String.concat "" (List.map (fun c -> String.make 1 (Char.chr (int_of_n c))) l)

let parse_path s = List.map (fun h -> str_of_string (unhex h)) (String.split_on_char '.' s)

(* recursive descent over the value syntax *)
let parse_value (s : string) : value =
  let n = String.length s in
  let pos = ref 0 in
  let peek () = if !pos < n then s.[!pos] else '\000' in
  let rec value () =
    match peek () with
    | 'L' ->
      incr pos;
      let st = !pos in
      while !pos < n && s.[!pos] >= '0' && s.[!pos] <= '9' do incr pos done;
      VLeaf (n_of_int (int_of_string (String.sub s st (!pos - st))))
    | '[' ->
      incr pos;
      let items = ref [] in
      while peek () <> ']' do
        items := value () :: !items;
        if peek () = ',' then incr pos
      done;
      incr pos;
      VArray (List.rev !items)
    | '{' ->
      incr pos;
      let items = ref [] in
      while peek () <> '}' do
        let st = !pos in
        while peek () <> '=' do incr pos done;
        let p = parse_path (String.sub s st (!pos - st)) in
        incr pos;
        let v = value () in
        items := (p, v) :: !items;
        if peek () = ',' then incr pos
      done;
      incr pos;
      VInline (List.rev !items)
    | c -> failwith (Printf.sprintf "bad value at %d in %s" !pos s)
  in
  value ()

let parse_event (s : string) : event =
  match String.split_on_char ' ' (String.trim s) with
  | "K" :: p :: v :: [] -> EKeyValue (parse_path p, parse_value v)
  | "T" :: p :: [] -> ETable (parse_path p)
  | "A" :: p :: [] -> EArrayTable (parse_path p)
  | _ -> failwith ("bad event " ^ s)

let rec canon leaves (d : data) : string =
  match d with
  | DLeaf l -> (try List.assoc (int_of_n l) leaves with Not_found -> "L?")
  | DList es -> "[" ^ String.concat "" (List.map (fun e -> canon leaves e ^ ",") es) ^ "]"
  | DStruct fs ->
    let kvs = List.map (fun (k, v) -> (hex (string_of_str k), canon leaves v)) fs in
    let kvs = List.sort (fun (a, _) (b, _) -> compare a b) kvs in
    "{" ^ String.concat "" (List.map (fun (k, v) -> k ^ "=" ^ v ^ ",") kvs) ^ "}"

let handle line =
  if String.length line < 2 || line.[0] <> 'E' then "-" else
  match String.split_on_char '|' line with
  | ev :: lv :: _ ->
    let ev = String.trim (String.sub ev 1 (String.length ev - 1)) in
    let events = if ev = "" then [] else List.map parse_event (String.split_on_char ';' ev) in
    let leaves = List.filter_map (fun w ->
        if w = "" then None else
        let i = String.index w '=' in
        Some (int_of_string (String.sub w 1 (i - 1)), String.sub w (i + 1) (String.length w - i - 1)))
        (String.split_on_char ' ' (String.trim lv)) in
    (match c12_decode (nat_of_int 64) events with
     | Err EDup -> "err dup"
     | Err ERedeclArrayAsTable -> "err arr_as_table"
     | Err ERedeclAsArray -> "err as_array"
     | Ok None -> "conflict"
     | Ok (Some d) ->
       let c = canon leaves d in
       (* a leaf the implementation cannot evaluate makes the whole value an error *)
       let has_bad = try ignore (Str.search_forward (Str.regexp_string "BAD") c 0); true with Not_found -> false in
       if has_bad then "conflict" else "ok " ^ c)
  | _ -> "BADCASE"

let () =
  try
    while true do
      let line = input_line stdin in
      print_string (try handle line with Failure m -> "DRIVERFAIL " ^ m); print_newline ()
    done
  with End_of_file -> ()
