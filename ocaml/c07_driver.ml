(* Driver for the extracted C07 model.
   P <v|d> <labs> <atoms> | <sexpr> ; <sexpr> ... | <printed sexpr or ->
       -> <canon of the (projected) model value of the conjuncts>
          <canon of the model value of the printed expression, or ->
          <canon of the model value of print_nf (project (normalize conjuncts)), or OUT>
          <S-expression of that printed normal form, or ->
          <canon of the model value of impl_def conjuncts (definition-mode profiles), or ->
          (fields separated by TAB)
   B <tok> ...      (int | string | gt:z ge:z lt:z le:z ne:z)
       -> the tokens range_rewrite writes (int uint op:z ...) *)
open C07_model

let rec pos_of_int i = if i = 1 then XH else if i land 1 = 0 then XO (pos_of_int (i lsr 1)) else XI (pos_of_int (i lsr 1))
let n_of_int i = if i = 0 then N0 else Npos (pos_of_int i)
let z_of_int i = if i = 0 then Z0 else if i > 0 then Zpos (pos_of_int i) else Zneg (pos_of_int (-i))
let rec nat_of_int i = if i = 0 then O else S (nat_of_int (i - 1))
let rec int_of_pos = function XH -> 1 | XO p -> 2 * int_of_pos p | XI p -> 2 * int_of_pos p + 1
let int_of_n = function N0 -> 0 | Npos p -> int_of_pos p
let int_of_z = function Z0 -> 0 | Zpos p -> int_of_pos p | Zneg p -> - (int_of_pos p)

type sx = A of string | L of sx list

let tokenize s =
  let toks = ref [] and buf = Buffer.create 16 in
  let flush () = if Buffer.length buf > 0 then (toks := Buffer.contents buf :: !toks; Buffer.clear buf) in
  String.iter (fun c ->
      match c with
      | '(' | ')' -> flush (); toks := String.make 1 c :: !toks
      | ' ' | '\t' -> flush ()
      | c -> Buffer.add_char buf c) s;
  flush (); List.rev !toks

let rec parse_sx toks =
  match toks with
  | "(" :: r -> let (items, r') = parse_list r [] in (L items, r')
  | ")" :: _ -> failwith "unexpected )"
  | t :: r -> (A t, r)
  | [] -> failwith "eof"
and parse_list toks acc =
  match toks with
  | ")" :: r -> (List.rev acc, r)
  | [] -> failwith "eof in list"
  | _ -> let (x, r) = parse_sx toks in parse_list r (x :: acc)

let label_of s =
  let id = n_of_int (int_of_string (String.sub s 1 (String.length s - 1))) in
  match s.[0] with 'r' -> LReg id | 'h' -> LHid id | 'd' -> LDef id | _ -> failwith ("label " ^ s)

let atom_of s =
  match s.[0] with
  | 'i' -> AInt (z_of_int (int_of_string (String.sub s 1 (String.length s - 1))))
  | 's' -> AStr (n_of_int (int_of_string (String.sub s 1 (String.length s - 1))))
  | 'b' -> ABool (s = "b1")
  | 'n' -> ANull
  | _ -> failwith ("atom " ^ s)

let kind_of = function "int" -> KInt | "string" -> KStr | "bool" -> KBool | "null" -> KNull | k -> failwith ("kind " ^ k)
let fk_of = function "=" -> FRegular | "!" -> FRequired | "?" -> FOptional | k -> failwith ("fk " ^ k)
let zi s = z_of_int (int_of_string s)

let rec expr_of = function
  | A "T" -> ETop
  | A "B" -> EBot
  | L [A "a"; A x] -> EScalar (SAtom (atom_of x))
  | L [A "k"; A k] -> EScalar (SKind (kind_of k))
  | L [A "gt"; A z] -> EScalar (SGt (zi z))
  | L [A "ge"; A z] -> EScalar (SGe (zi z))
  | L [A "lt"; A z] -> EScalar (SLt (zi z))
  | L [A "le"; A z] -> EScalar (SLe (zi z))
  | L [A "ne"; A z] -> EScalar (SNe (zi z))
  | L [A "&"; a; b] -> EAnd (expr_of a, expr_of b)
  | L [A "c"; e] -> EClose (expr_of e)
  | L [A "r"; e] -> ERefDef (expr_of e)
  | L (A "s" :: ds) -> EStruct (List.map decl_of ds)
  | _ -> failwith "expr"
and decl_of = function
  | L [A "f"; A l; A k; e] -> (HField (label_of l, fk_of k), expr_of e)
  | L [A "p"; A ids; e] ->
    let ids = if ids = "-" then [] else List.map (fun x -> n_of_int (int_of_string x)) (String.split_on_char ',' ids) in
    (HPattern ids, expr_of e)
  | L [A "..."] -> (HEllipsis, ETop)
  | L [A "e"; e] -> (HEmbed, expr_of e)
  | _ -> failwith "decl"

(* ---- printing S-expressions (the notation of the Go harness) ---- *)
let sx_label = function LReg n -> "r" ^ string_of_int (int_of_n n) | LHid n -> "h" ^ string_of_int (int_of_n n) | LDef n -> "d" ^ string_of_int (int_of_n n)
let sx_atom = function
  | AInt z -> "i" ^ string_of_int (int_of_z z)
  | AStr n -> "s" ^ string_of_int (int_of_n n)
  | ABool b -> if b then "b1" else "b0"
  | ANull -> "n"
let sx_kind = function KInt -> "int" | KStr -> "string" | KBool -> "bool" | KNull -> "null" | KStruct -> "struct" | KFloat -> "float"
let sx_scal = function
  | SAtom a -> "(a " ^ sx_atom a ^ ")"
  | SKind k -> "(k " ^ sx_kind k ^ ")"
  | SGt z -> "(gt " ^ string_of_int (int_of_z z) ^ ")"
  | SGe z -> "(ge " ^ string_of_int (int_of_z z) ^ ")"
  | SLt z -> "(lt " ^ string_of_int (int_of_z z) ^ ")"
  | SLe z -> "(le " ^ string_of_int (int_of_z z) ^ ")"
  | SNe z -> "(ne " ^ string_of_int (int_of_z z) ^ ")"
let rec sx_expr = function
  | ETop -> "T"
  | EBot -> "B"
  | EScalar c -> sx_scal c
  | EAnd (a, b) -> "(& " ^ sx_expr a ^ " " ^ sx_expr b ^ ")"
  | EClose e -> "(c " ^ sx_expr e ^ ")"
  | ERefDef e -> "(r " ^ sx_expr e ^ ")"
  | EStruct ds ->
    "(s" ^ String.concat "" (List.map (fun (h, e) ->
        match h with
        | HField (l, k) -> " (f " ^ sx_label l ^ " " ^ (match k with FRegular -> "=" | FRequired -> "!" | FOptional -> "?") ^ " " ^ sx_expr e ^ ")"
        | HPattern ids -> " (p " ^ (if ids = [] then "-" else String.concat "," (List.map (fun n -> string_of_int (int_of_n n)) ids)) ^ " " ^ sx_expr e ^ ")"
        | HEllipsis -> " (...)"
        | HEmbed -> " (e " ^ sx_expr e ^ ")") ds) ^ ")"

(* ---- canonical form of result trees (the notation of harness/c07/canon.go) ---- *)
let bits l = String.concat "" (List.map (fun b -> if b then "1" else "0") l)
let cur_labs : label list ref = ref []
let open_bits o =
  String.concat "" (List.map2 (fun l b -> match l with LReg _ -> if b then "1" else "0" | _ -> "1") !cur_labs o)

let rec show r =
  if c07_err r then "E" else
    match r with
    | RBot | RFuel -> "E"
    | RVal (k, a, p) -> "V" ^ bits k ^ ":" ^ bits a ^ ":" ^ bits p
    | RStruct (fs, o) ->
      "{" ^ String.concat "," (List.map (fun (p, r') ->
          match p with
          | PAbsent -> "-"
          | POptional -> "?" ^ show_nested r'
          | PRequired -> "!" ^ show_nested r'
          | PRegular -> "=" ^ show r') fs) ^ "|" ^ open_bits o ^ "}"
and show_nested r =
  if c07_err r then "E" else
    match r with
    | RVal (k, a, p) -> "V" ^ bits k ^ ":" ^ bits a ^ ":" ^ bits (List.map (fun _ -> false) p)
    | _ -> show r

let split_trim sep s = List.map String.trim (String.split_on_char sep s)
let fuel = nat_of_int 40

let handle_p head body printed =
  match List.filter (fun w -> w <> "") (String.split_on_char ' ' head) with
  | ["P"; mode; labs; atoms] ->
    let labs = List.map label_of (String.split_on_char ',' labs) in
    cur_labs := labs;
    let atoms = List.map atom_of (String.split_on_char ',' atoms) in
    let conjs = List.filter (fun s -> s <> "") (split_trim ';' body) in
    let cs = List.map (fun s -> let (sx, _) = parse_sx (tokenize s) in { c_rec = false; c_exprs = [expr_of sx] }) conjs in
    let value_mode = (mode = "v") in
    let proj r = if value_mode then c07_project_res labs r else r in
    let r0 = c07_eval labs atoms fuel cs in
    let m_orig = show (proj r0) in
    let m_printed =
      if printed = "-" then "-" else
        (try let (sx, _) = parse_sx (tokenize printed) in
           show (c07_eval labs atoms fuel [{ c_rec = false; c_exprs = [expr_of sx] }])
         with Failure m -> "MODEL-FAIL:" ^ m) in
    let nf = c07_normalize fuel cs in
    let (m_nf, nf_sx) =
      if c07_nf_ok nf then
        let nf' = if value_mode then c07_project_value nf else nf in
        let e = c07_print nf' in
        (show (c07_eval labs atoms fuel [{ c_rec = false; c_exprs = [e] }]), sx_expr e)
      else ("OUT", "-") in
    (* the implementation-layer model of the definition-mode printer (root level) *)
    let m_impl = if value_mode then "-" else show (c07_eval labs atoms fuel (c07_impl_def cs)) in
    String.concat "\t" [m_orig; m_printed; m_nf; nf_sx; m_impl]
  | _ -> "BADCASE"

let tok_of s =
  match String.split_on_char ':' s with
  | ["int"] -> SKind KInt
  | ["string"] -> SKind KStr
  | ["gt"; z] -> SGt (zi z)
  | ["ge"; z] -> SGe (zi z)
  | ["lt"; z] -> SLt (zi z)
  | ["le"; z] -> SLe (zi z)
  | ["ne"; z] -> SNe (zi z)
  | _ -> failwith ("tok " ^ s)

let show_tok = function
  | PInt -> "int"
  | PUint -> "uint"
  | PRange (lo, hi) -> "range:" ^ string_of_int (int_of_z lo) ^ ":" ^ string_of_int (int_of_z hi)
  | PC (SKind k) -> sx_kind k
  | PC (SGt z) -> "gt:" ^ string_of_int (int_of_z z)
  | PC (SGe z) -> "ge:" ^ string_of_int (int_of_z z)
  | PC (SLt z) -> "lt:" ^ string_of_int (int_of_z z)
  | PC (SLe z) -> "le:" ^ string_of_int (int_of_z z)
  | PC (SNe z) -> "ne:" ^ string_of_int (int_of_z z)
  | PC (SAtom a) -> sx_atom a

(* D <atoms> | <plain tok> ... | <disjunct> / <disjunct> ; ...    disjunct = [*]tok,tok,...
   tok = int string bool null gt:z ... a:<atom>
     -> acc(original) TAB acc(print_final) TAB tag(C concrete | I not) TAB fold_sensitive TAB
        set of disjuncts of print_final (acceptance vectors) TAB RT-OK|RT-DIFF (the proved round
        trip of print_marked, evaluated) *)
let dtok_of s =
  match String.split_on_char ':' s with
  | ["a"; x] -> SAtom (atom_of x)
  | ["bool"] -> SKind KBool
  | ["null"] -> SKind KNull
  | _ -> tok_of s

let handle_d line =
  match split_trim '|' line with
  | [head; plain; dss] ->
    let atoms = match List.filter (fun w -> w <> "") (String.split_on_char ' ' head) with
      | ["D"; a] -> List.map atom_of (String.split_on_char ',' a) | _ -> failwith "D head" in
    let words s = List.filter (fun w -> w <> "") (String.split_on_char ' ' s) in
    let plain = List.map (fun t -> EScalar (dtok_of t)) (words plain) in
    let rec and_all = function [] -> ETop | [e] -> e | e :: r -> EAnd (e, and_all r) in
    let disjunct s =
      let s = String.trim s in
      let (m, s) = if String.length s > 0 && s.[0] = '*' then (true, String.sub s 1 (String.length s - 1)) else (false, s) in
      (m, and_all (List.map (fun t -> EScalar (dtok_of t)) (String.split_on_char ',' s))) in
    let ds = List.map (fun d -> List.map disjunct (String.split_on_char '/' d)) (List.filter (fun x -> x <> "") (split_trim ';' dss)) in
    let fu = nat_of_int 5 in
    let p0 = c07_pair [] atoms fu plain ds in
    let nf = c07_norm_sdisj [] atoms fu plain ds in
    let fin = c07_take_defaults nf in
    let pf = c07_pair [] atoms fu [] [c07_print_sdisj fin] in
    let pm = c07_pair [] atoms fu [] [c07_print_sdisj nf] in
    let tag = match c07_resolve p0 with
      | Chosen (RVal (_, _, pin)) -> if List.exists (fun b -> b) pin then "C" else "I"
      | _ -> "I" in
    let set = List.sort_uniq compare (List.map (fun (_, cs) ->
        match c07_sres atoms cs with RVal (_, a, _) -> bits a | _ -> "E") fin) in
    let rt = if pm = p0 then "RT-OK" else "RT-DIFF" in
    String.concat "\t" [bits (c07_pair_accepts atoms p0); bits (c07_pair_accepts atoms pf); tag;
                        (if c07_fold_sensitive [] atoms fu plain ds then "1" else "0");
                        String.concat "|" set; rt]
  | _ -> "BADCASE"

let handle line =
  if String.length line > 2 && line.[0] = 'D' && line.[1] = ' ' then handle_d line else
  if String.length line > 2 && line.[0] = 'B' && line.[1] = ' ' then
    let toks = List.filter (fun w -> w <> "") (String.split_on_char ' ' (String.sub line 2 (String.length line - 2))) in
    String.concat " " (List.map show_tok (c07_range_rewrite (List.map tok_of toks)))
  else
    match split_trim '|' line with
    | [head; body; printed] -> handle_p head body printed
    | _ -> "BADCASE"

let () =
  try
    while true do
      let line = input_line stdin in
      (try print_string (handle line) with Failure m -> print_string ("MODEL-FAIL " ^ m));
      print_newline ()
    done
  with End_of_file -> ()
