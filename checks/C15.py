"""C15 - module archives round-trip and can never write outside their directory."""
import collections
import json
import os
import shutil
import tempfile

import vlib

LEVEL = "proof"

SHIMS = {"mod/modzip/export_verif.go": "harness/c15/shims/modzip_export.go.txt"}

TRUSTED = [
    "Coq 8.16.1 kernel; vm_compute only in closed Examples; no axioms (Print Assumptions: closed under the global context)",
    "hand-written Gallina model (coq/theories/Zip/Bytes.v, Model.v) of mod/module/path.go checkPath/checkElem/fileNameOK (kind filePath) and mod/modzip/zip.go checkFiles, CheckZip, Create, Unzip, collisionChecker, strToFold, splitCUEMod, plus Go's path.Clean/Split/Dir and filepath.Join at the level of path elements",
    "Unicode oracles: unicode.IsLetter and the minimum of the unicode.SimpleFold orbit are Section variables; each case carries the table for the non-ASCII runes it contains (computed by Go's unicode package). strings.EqualFold against the ASCII literals cue.mod / module.cue / CON,PRN,.. is modelled as ASCII case folding (none of their letters has a non-ASCII fold partner)",
    "archive/zip and the OS are modelled, not verified: zip.Reader yields the central-directory entries in order; checksumReader drops a chunk that exceeds the declared size (ErrFormat), reports ErrUnexpectedEOF / ErrChecksum at EOF (entry data <= 32 KiB); MkdirAll / O_EXCL create on an association-list file system keyed by path elements; NAME_MAX/PATH_MAX are not modelled (generator keeps elements <= 255 bytes)",
    "correspondence: extracted OCaml model (ExtrOcamlBasic only; N/Z/nat kept as Coq datatypes) vs modzip/module built from /repo working tree via go build -overlay (shim re-exports strToFold, splitCUEMod)",
    "OCaml driver ocaml/c15_driver.ml, Go harness harness/c15 (generators, fake FileIO, hand-written zip writer, tree walk of the watched parent directory)",
]

KNOWN_F7 = ("modzip.CheckFiles and modzip.CheckZip disagree on which files they reject: "
            "CheckFiles accepts a regular root file named `cue.mod` that CheckZip rejects (cue.mod is not a directory) [F7a]")
KNOWN_F7B = ("modzip.CheckFiles and modzip.CheckZip disagree on which files they reject: CheckZip registers a "
             "wrongly-cased cue.mod/module.cue name in its collision table before rejecting it, CheckFiles rejects it first, "
             "so a later name colliding with it is rejected only by CheckZip [F7b]")


def unhex(h):
    return b"" if h == "-" else bytes.fromhex(h)


def parse_fields(section):
    d = {}
    for tok in section.split(" "):
        if "=" in tok:
            k, v = tok.split("=", 1)
            d[k] = v
    return d


def lower_ascii(b):
    return bytes(c + 32 if 65 <= c <= 90 else c for c in b)


def f7_classes(case):
    """Which known-finding classes the file list of an F case belongs to."""
    cls = set()
    for w in case.split(" | ")[2].split():
        name = unhex(w.split(":")[0])
        if name == b"cue.mod":
            cls.add("a")
        top, _, rest = name.partition(b"/")
        if lower_ascii(top) == b"cue.mod" and top != b"cue.mod":
            cls.add("b")
        if top == b"cue.mod" and lower_ascii(rest) == b"module.cue" and rest != b"module.cue":
            cls.add("b")
    return cls


def coq_bytes(b):
    return "[" + "; ".join(str(x) for x in b) + "]"


def coq_tbl(t):
    t = t.strip()
    if t in ("-", ""):
        return "[]"
    items = []
    for it in t.split(","):
        r, l, m = it.split(":")
        items.append("(%s, (%s, %s))" % (r, "true" if l == "1" else "false", m))
    return "[" + "; ".join(items) + "]"


def coq_names(field):
    if field == "":
        return "[]"
    return "[" + "; ".join(coq_bytes(unhex(h)) for h in field.split(",")) + "]"


def vm_crosscheck(ctx, cases, model):
    """Evaluate a deterministic sub-sample with vm_compute inside Coq and require the
    results of the extracted OCaml model (guards extraction and the driver glue)."""
    kinds = {"r": "KRegular", "d": "KDir", "s": "KSymlink", "o": "KOther"}
    lines = ["From Coq Require Import List NArith ZArith Bool.",
             "From Verif Require Import Zip.Bytes Zip.Model Extract.C15.",
             "Import ListNotations.", "Open Scope N_scope."]
    n = 0
    np_ = nz = 0
    for idx, (c, m) in enumerate(zip(cases, model)):
        if len(c) > 900 or idx % 7 != 3:
            continue
        secs = c.split(" | ")
        if secs[0] == "P" and np_ < 14:
            f = parse_fields(m)
            a, b = f["split"].split(",")
            lines.append("Example x%d : (c15_check_path %s %s, c15_is_clean %s, c15_fold %s %s, c15_split_cue_mod %s) = (%s, %s, %s, (%s, %s))."
                         % (n, coq_tbl(secs[1]), coq_bytes(unhex(secs[2].strip())), coq_bytes(unhex(secs[2].strip())),
                            coq_tbl(secs[1]), coq_bytes(unhex(secs[2].strip())), coq_bytes(unhex(secs[2].strip())),
                            "true" if f["ok"] == "1" else "false", "true" if f["clean"] == "1" else "false",
                            coq_bytes(unhex(f["fold"])), coq_bytes(unhex(a)), coq_bytes(unhex(b))))
            lines.append("Proof. vm_compute. reflexivity. Qed.")
            n += 1
            np_ += 1
        elif secs[0] == "Z" and nz < 10 and len(secs) > 3 and secs[3].strip():
            czs, uzs, pre = secs[2].split()
            if pre != "0":
                continue
            ents = []
            for w in secs[3].split():
                q = w.split(":")
                ents.append("mkEntry %s %s %s %s %s %s %s" % (coq_bytes(unhex(q[0])), q[1], kinds[q[2]], coq_bytes(unhex(q[3])),
                                                             "true" if q[4] == "1" else "false", "true" if q[5] == "1" else "false",
                                                             "true" if q[6] == "8" else "false"))
            es = "[" + "; ".join(ents) + "]"
            ms = m.split(" | ")
            f = parse_fields(ms[0])
            u = parse_fields(ms[1])
            lines.append("Example x%d : let r := c15_check_zip %s (%s)%%Z %s in (c_valid r, c_invalid r, c_size_err r, c_nomod r) = (%s, %s, %s, %s)."
                         % (n, coq_tbl(secs[1]), czs, es, coq_names(f["V"]), coq_names(f["I"]),
                            "true" if f["SE"] == "1" else "false", "true" if f["NM"] == "1" else "false"))
            lines.append("Proof. vm_compute. reflexivity. Qed.")
            n += 1
            lines.append("Example x%d : snd (c15_unzip %s [%s; %s] [([%s], NDir)] (%s)%%Z %s) = %s."
                         % (n, coq_tbl(secs[1]), coq_bytes(b"P"), coq_bytes(b"t"), coq_bytes(b"P"), uzs, es,
                            "UOk" if u["U"] == "ok" else "UErr"))
            lines.append("Proof. vm_compute. reflexivity. Qed.")
            n += 1
            nz += 1
    vf = os.path.join(ctx.work, "crosscheck.v")
    with open(vf, "w") as fh:
        fh.write("\n".join(lines) + "\n")
    p = vlib.run(["timeout", "900", "coqc", "-Q", os.path.join(vlib.COQ, "theories"), "Verif", vf], cwd=ctx.work, check=False)
    if p.returncode != 0:
        raise vlib.CheckFailure("vm_compute inside Coq disagrees with the extracted OCaml model on the sub-sample:\n" + p.stdout[-3000:])
    return n


def run(ctx):
    quick = ctx.tier == "quick"
    proof = vlib.prove("C15", extra_targets=["theories/Extract/C15.vo"])
    if not quick:
        proof.update(vlib.coqchk("C15"))
        if proof["coqchk_rc"] != 0:
            raise vlib.CheckFailure("coqchk failed: " + proof["coqchk_tail"])
    exe = vlib.build_model("C15", "extract/C15.v", "ocaml/c15_driver.ml")
    harness, hsecs = vlib.build_harness("c15", shims=SHIMS)
    scratch = tempfile.mkdtemp(prefix="c15-", dir="/dev/shm" if os.path.isdir("/dev/shm") else ctx.work)
    try:
        args = [harness, "--seed", str(ctx.seed), "--out", ctx.work, "--scratch", scratch]
        if ctx.replay:
            rp = json.load(open(ctx.replay))
            cf = os.path.join(ctx.work, "replay_cases.txt")
            with open(cf, "w") as f:
                f.write(rp.get("case", "") + "\n")
            args += ["--replay-cases", cf]
        else:
            args += ["--corpus", os.path.join(vlib.VERIF, "corpus", "C15", "cases.txt")]
            if quick:
                args += ["--np", "4000", "--nf", "2500", "--nz", "2500", "--nd", "1500"]
            else:
                args += ["--np", "40000", "--nf", "25000", "--nz", "25000", "--nd", "12000"]
        vlib.run(args, timeout=3000)
    finally:
        shutil.rmtree(scratch, ignore_errors=True)
    cases = open(os.path.join(ctx.work, "cases.txt")).read().split("\n")[:-1]
    impl = open(os.path.join(ctx.work, "impl.txt")).read().split("\n")[:-1]
    p = vlib.run([exe], input="\n".join(cases) + "\n", timeout=3000, stderr=None)
    model = p.stdout.split("\n")[:-1]
    if not (len(cases) == len(impl) == len(model)):
        raise vlib.CheckFailure("line count mismatch cases=%d impl=%d model=%d" % (len(cases), len(impl), len(model)))

    crosschecked = 0 if ctx.replay else vm_crosscheck(ctx, cases, model)
    kinds = collections.Counter()
    dist = collections.Counter()
    distinct = set()
    nontrivial = 0
    mismatches = 0
    disagreements = collections.Counter()
    samples = []
    trees = 0
    for idx, (c, i, m_full) in enumerate(zip(cases, impl, model)):
        k = c[0]
        kinds[k] += 1
        m = m_full
        extra = ""
        if k == "F":
            parts = m_full.split(" | ")
            m = " | ".join(parts[:4])
            extra = parts[4] if len(parts) > 4 else ""
        new = c not in distinct
        distinct.add(c)
        # ---- direct property violations visible on the implementation alone
        if "OUTSIDE" in i or ":L" in i.split("T=")[-1] or ":X" in i.split("T=")[-1]:
            ctx.violation({"kind": "unzip-wrote-outside-target-or-irregular-file", "case": c, "impl": i, "model": m,
                           "what": "after modzip.Unzip the watched parent directory contains an entry outside the target directory, or a non-regular file",
                           "replay": "bin/check C15 --replay <this file>"})
            mismatches += 1
            continue
        if "PANIC" in i:
            dist["impl_panic"] += 1
        if i != m:
            mismatches += 1
            if mismatches <= 5:
                what = {
                    "P": "module.CheckFilePath / path.Clean / strToFold / splitCUEMod differs from the model for which C15_checked_path_safe is proved",
                    "F": "modzip.CheckFiles / CheckZip / Create / Unzip(Create(files)) differs from the model (sections: file-list check | zip check of the same files | created archive | tree after unzip)",
                    "Z": "modzip.CheckZip / Unzip on a hand-written archive differs from the model (sections: zip check | result and tree of the watched directory after Unzip)",
                    "D": "modzip.CheckDir / CreateFromDir on a materialised directory tree differs from the model (listFilesInDir walk order and omissions, then checkFiles / Create)",
                }.get(k, "?")
                ctx.violation({"kind": "impl-differs-from-proved-model", "case": c, "impl": i, "model": m, "what": what,
                               "replay": "bin/check C15 --replay <this file>"})
            continue
        # ---- statistics and the Spec-level agreement check (impl == Impl model here)
        if k == "P":
            f = parse_fields(i)
            dist["path_ok" if f.get("ok") == "1" else "path_rejected"] += 1
            if new and f.get("ok") == "1" and b"/" in unhex(c.split(" | ")[2].strip()):
                nontrivial += 1
        elif k == "F":
            secs = i.split(" | ")
            cf, cz = parse_fields(secs[0]), parse_fields(secs[1])
            fe = parse_fields(extra)
            fv = fe.get("FV", "")
            err = cf["SE"] == "1" or cf["NM"] == "1" or cf["I"] != ""
            dist["files_err" if err else "files_ok"] += 1
            for ch, nm in (("V", "valid"), ("O", "omitted"), ("I", "invalid"), ("S", "dir_skipped")):
                dist["file_verdict_" + nm] += fv.count(ch)
            if cf["SE"] == "1":
                dist["files_size_error"] += 1
            created = secs[2].startswith("C=OK")
            dist["create_ok" if created else "create_err"] += 1
            if created:
                trees += 1
                u = parse_fields(secs[3])
                # round trip on the implementation alone: tree == created entries
                if u.get("U") != "ok":
                    ctx.violation({"kind": "create-unzip-roundtrip", "case": c, "impl": i, "model": m,
                                   "what": "Unzip rejected an archive written by Create"})
            if new and len(fv) >= 3 and fv.count("V") >= 2:
                nontrivial += 1
            # the ways of checking reject the same files (only when nothing is omitted/skipped and
            # all sizes are expressible in a zip header)
            ws = [w.split(":") for w in c.split(" | ")[2].split()]
            comparable = all(w[1] == "r" and not w[2].startswith("-") and not unhex(w[0]).endswith(b"/") for w in ws)
            if "O" not in fv and comparable:
                dist["agreement_checked"] += 1
                if cf["V"] != cz["ZV"] or sorted(set(cf["I"].split(","))) != sorted(set(cz["ZI"].split(","))):
                    cls = f7_classes(c)
                    if "a" in cls or "b" in cls:
                        disagreements["F7a" if "a" in cls else "F7b"] += 1
                        ctx.known_finding(KNOWN_F7 if "a" in cls else KNOWN_F7B)
                    else:
                        ctx.violation({"kind": "checks-disagree-outside-known-classes", "case": c, "impl": i, "model": m,
                                       "what": "CheckFiles and CheckZip reject different files for a regular-only list with nothing omitted, and the list is in none of the classes proved to be the only ones (C15_checks_agree_when)"})
        elif k == "D":
            secs = i.split(" | ")
            cd = parse_fields(secs[0])
            err = cd["SE"] == "1" or cd["NM"] == "1" or cd["I"] != ""
            dist["dir_check_err" if err else "dir_check_ok"] += 1
            dist["create_from_dir_ok" if secs[1].startswith("C=OK") else "create_from_dir_err"] += 1
            nleaves = len(c.split(" | ")[2].split())
            nvalid = len([x for x in cd["V"].split(",") if x])
            if nvalid < sum(1 for w in c.split(" | ")[2].split() if w.split(":")[1] == "r"):
                dist["dir_with_unlisted_regular_files"] += 1
            if new and nleaves >= 3 and nvalid >= 2:
                nontrivial += 1
        elif k == "Z":
            secs = i.split(" | ")
            cz = parse_fields(secs[0])
            u = parse_fields(secs[1])
            err = cz["SE"] == "1" or cz["NM"] == "1" or cz["I"] != ""
            dist["zip_check_err" if err else "zip_check_ok"] += 1
            dist["unzip_" + u.get("U", "?")] += 1
            if u.get("U") == "err" and not err:
                dist["unzip_err_after_check_ok"] += 1
            trees += 1
            if new and len(c.split(" | ")[3].split()) >= 3:
                nontrivial += 1
        if len(samples) < 4 and len(c) < 500 and idx % 397 == 11:
            samples.append({"case": c, "impl": i, "model": m})
    if not samples and cases:
        samples.append({"case": cases[0][:400], "impl": impl[0][:400], "model": model[0][:400]})
    ctx.coverage.update({
        "obligations": proof["obligations"],
        "discharged": proof["discharged"],
        "checker_cmd": proof["checker_cmd"] + ("; coqchk -silent -o Verif.Properties.C15" if not quick else ""),
        "trusted_base": TRUSTED,
        "theorems": proof["theorems"],
        "axioms_reported": proof["axioms"],
        "audit_files": proof["audit_files"],
        "evaluations": len(cases),
        "distinct_nontrivial": nontrivial,
        "rule": "P: one path (every pool element alone / under sub/ / as a directory, then generated paths of 1-45 elements from pools of plain, special (cue.mod, LICENSE, vendor, VCS), case-variant, reserved Windows, dot, forbidden-ASCII, Unicode (fold orbits k/K/Kelvin, s/long s, sigma, dz digraphs, ...), invalid UTF-8 and long elements, with leading/trailing/double slashes and ./.. spices); F: a file list (mostly valid modules, 0-5 spices: hostile path, case variant, duplicate, file-and-directory, nested cue.mod, root cue.mod file, local-module, vendor, hg archival, wrong-case cue.mod, symlink/irregular/dir kinds, sizes around MaxCUEMod/MaxLICENSE/MaxZipFile, negative and huge sizes, content longer/shorter than Lstat size) run through CheckFiles, CheckZip of the same regular files, Create, and Unzip of the created archive; Z: a hand-written zip (entries of such a module, 0-4 spices: hostile names, directory entries, declared sizes +-1 / 2^32 / 2^63 / around the limits, bad CRC, unsupported method, symlink/dir/pipe mode bits, duplicates, case variants, empty name, existing/non-empty/file target, lied zip size) run through CheckZip and Unzip into a fresh directory under a watched parent. non-trivial: P accepted with >= 2 elements; F >= 3 files with >= 2 valid; Z >= 3 entries; D (the consistent part of such a file list materialised as a real directory tree with regular files, symlinks, fifos and directories, run through CheckDir and CreateFromDir) >= 3 leaves with >= 2 valid; counted over distinct case lines",
        "samples": samples,
        "case_kinds": dict(kinds),
        "input_distribution": dict(dist),
        "trees_compared_with_model": trees,
        "vm_compute_crosschecked": crosschecked,
        "checks_disagreements_by_known_class": dict(disagreements),
        "mismatches": mismatches,
        "harness_build_s": hsecs,
        "proof": {k: v for k, v in proof.items() if k.startswith("coqchk") or k in ("make_s",)},
    })
    ctx.assumptions.extend(TRUSTED)


MANIFEST = {
    "category": "proof",
    "text": "Coq theorems about an executable model of mod/modzip/zip.go and mod/module/path.go, for ALL names, file lists, archives, file systems and Unicode tables: a name accepted by CheckFilePath is relative, clean, has no empty/./.. element and no backslash, colon or NUL; for every archive Unzip only adds fresh entries that are directories on the way to the target or lie strictly beneath it, regular files of at most the declared size, created once, and a rejected archive leaves the file system untouched; absolute/dot-dot/backslash names, fold-colliding or duplicate names, file/directory clashes, nested or mis-cased cue.mod, a local-module file, oversized module/licence/total and a missing module file are each rejected; header mode bits (symlink, irregular) are never consulted; every archive Create emits passes CheckZip and extracts to exactly the valid files with identical content; CheckFiles and CheckZip give every file the same verdict under an explicit side condition, and without it they provably differ (known finding F7: a regular root file cue.mod; a mis-cased cue.mod/module.cue name poisoning CheckZip's collision table). The model is tied to /repo by exact agreement with module.CheckFilePath, strToFold, splitCUEMod, CheckFiles, CheckDir, CheckZip, Create, CreateFromDir and Unzip (verdict lists, created archive, resulting directory tree of a watched parent directory) on generated and corpus names, file lists, real directory trees and hand-written zip archives.",
    "note": "Trusted: Coq kernel; the hand-written model (incl. path.Clean/Split/Dir, filepath.Join at element level, MkdirAll/O_EXCL on an association-list file system); Unicode oracles unicode.IsLetter / SimpleFold supplied per case by Go's unicode package (theorems hold for every oracle); strings.EqualFold against the ASCII literals modelled as ASCII folding; archive/zip (central directory order, checksumReader's ErrFormat/ErrUnexpectedEOF/ErrChecksum behaviour for entries <= 32 KiB) and the OS file system are modelled and validated only by the correspondence; NAME_MAX/PATH_MAX, I/O errors, Lstat errors and zip.Writer failures are not modelled; extraction (ExtrOcamlBasic, no Extract Constant) cross-checked by vm_compute on a sub-sample; OCaml/Go drivers. The O_EXCL flag and the post-copy `lr.N <= 0` test of Unzip are unobservable defence in depth (collision freedom is a theorem; archive/zip already bounds the stream), as is the path.Clean test of CheckZip (implied by CheckFilePath, a theorem).",
    "technique": "Coq proof (path-safety lemma, collision-table invariant, file-system confinement invariant, simulation of the zip check by the file-list check, lock-step agreement with exact side condition and computed refutation witnesses) + extracted-model differential check of CheckFilePath/CheckFiles/CheckDir/CheckZip/Create/Unzip incl. the resulting directory tree",
}
