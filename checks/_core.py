"""Shared driver for the CoreCUE checks (C01, C04, C05): build the harness and the extracted model,
run a harness mode, run the model on the same cases, return aligned lists."""
import os
import vlib

CORE_TRUSTED = [
    "Coq 8.16.1 kernel; theorems closed under the global context (no axioms); vm_compute only in the non-vacuity Examples",
    "hand-written Gallina model coq/theories/Core (CoreCUE fragment: scalars, &, struct literals with regular/optional/required fields, patterns, '...', embeddings, close(), definition references inlined as ERefDef); it is a specification-layer model of the 20k-line evaluator, not a transcription",
    "fragment boundaries are those of the generator in harness/core/ast.go (design/Core.md): outside it cue's closedness bookkeeping is not modelled",
    "patterns are abstracted to the set of universe labels they match (computed with Go's regexp by the harness); strings/labels are identifiers",
    "extraction (ExtrOcamlBasic only) + ocaml/core_driver.ml (S-expression reader, printer of result trees); Go harness canonicaliser (walks cue.Value through the public API; closedness is probed IN THE LANGUAGE by compiling `(conjuncts) & {path: {l: _}}`)",
]


def build():
    harness, hsecs = vlib.build_harness("core")
    exe = vlib.build_model("CORE", "extract/Core.v", "ocaml/core_driver.ml")
    return harness, exe, hsecs


def run_mode(ctx, harness, exe, mode, n, extra=()):
    d = os.path.join(ctx.work, mode)
    os.makedirs(d, exist_ok=True)
    vlib.run([harness, "--mode", mode, "--seed", str(ctx.seed), "--n", str(n), "--out", d] + list(extra), timeout=3000)
    cases = open(os.path.join(d, "cases.txt")).read().split("\n")[:-1]
    impl = open(os.path.join(d, "impl.txt")).read().split("\n")[:-1]
    p = vlib.run([exe], input="\n".join(cases) + "\n", timeout=3000, stderr=None)
    model = p.stdout.split("\n")[:-1]
    if not (len(cases) == len(impl) == len(model)):
        raise vlib.CheckFailure("line count mismatch cases=%d impl=%d model=%d" % (len(cases), len(impl), len(model)))
    src = open(os.path.join(d, "src.txt")).read().split("### ")[1:]
    meta = None
    mp = os.path.join(d, "meta.txt")
    if os.path.exists(mp):
        meta = open(mp).read().split("\n")[:-1]
    return cases, impl, model, src, meta


def run_pairs(harness, path, work):
    p = vlib.run([harness, "--mode", "pairs", "--file", path, "--out", work], timeout=600, stderr=None)
    rows = []
    for line in p.stdout.split("\n"):
        f = line.split("\t")
        if len(f) == 3:
            rows.append(f)
    return rows


def shape_stats(impl):
    """input distribution: how many results are errors / structs / by size"""
    st = {"error": 0, "struct": 0, "scalar": 0}
    sizes = []
    for x in impl:
        body = x.split(" ", 1)[1] if x[:3] in ("OK ", "NO ") else x
        if body == "E":
            st["error"] += 1
        elif body.startswith("{"):
            st["struct"] += 1
            sizes.append(body.count("{"))
        else:
            st["scalar"] += 1
    st["struct_nodes_max"] = max(sizes) if sizes else 0
    st["struct_nodes_avg"] = round(sum(sizes) / len(sizes), 2) if sizes else 0
    return st
