"""C14 - module version selection minimal, sufficient, order/schedule independent."""
import os
import vlib

LEVEL = "proof"

TRUSTED = [
    "Coq 8.16.1 kernel; vm_compute not needed by these theorems; no axioms (Print Assumptions: closed)",
    "hand-written Gallina model of internal/mod/semver/semver.go, mod/module/versions.go (Max), internal/mod/mvs graph.go+buildList, internal/par/work.go at critical-section granularity",
    "correspondence: extracted OCaml model (ExtrOcamlBasic only; N/nat/comparison kept as Coq datatypes) vs Go implementation built from /repo working tree via go build -overlay",
    "OCaml driver ocaml/c14_driver.ml (case parsing/printing), Go harness harness/c14 (generators, trace recording of reqs.Required calls)",
    "reqs.Required is modelled as an error-free pure function of the node (harness supplies such Reqs)",
]


def run(ctx):
    quick = ctx.tier == "quick"
    proof = vlib.prove("C14", extra_targets=["theories/Extract/C14.vo"])
    if not quick:
        proof.update(vlib.coqchk("C14"))
        if proof["coqchk_rc"] != 0:
            raise vlib.CheckFailure("coqchk failed: " + proof["coqchk_tail"])
    exe = vlib.build_model("C14", "extract/C14.v", "ocaml/c14_driver.ml")
    harness, hsecs = vlib.build_harness("c14")
    args = [harness, "--seed", str(ctx.seed), "--out", ctx.work]
    if ctx.replay:
        import json
        rp = json.load(open(ctx.replay))
        cf = os.path.join(ctx.work, "replay_cases.txt")
        with open(cf, "w") as f:
            f.write(rp.get("case", "") + "\n")
        args += ["--replay-cases", cf]
    elif quick:
        args += ["--nsv", "6000", "--nmvs", "400", "--reps", "6"]
    else:
        args += ["--nsv", "300000", "--nmvs", "12000", "--reps", "12"]
    vlib.run(args, timeout=3000)
    cases = open(os.path.join(ctx.work, "cases.txt")).read().split("\n")[:-1]
    impl = open(os.path.join(ctx.work, "impl.txt")).read().split("\n")[:-1]
    p = vlib.run([exe], input="\n".join(cases) + "\n", timeout=3000, stderr=None)
    model = p.stdout.split("\n")[:-1]
    if not (len(cases) == len(impl) == len(model)):
        raise vlib.CheckFailure("line count mismatch cases=%d impl=%d model=%d" % (len(cases), len(impl), len(model)))
    kinds = {"SV": 0, "MVS": 0, "TR": 0}
    distinct = set()
    nontrivial = 0
    traces = 0
    mismatches = 0
    samples = []
    for c, i, m in zip(cases, impl, model):
        k = c.split(" ", 1)[0]
        kinds[k] = kinds.get(k, 0) + 1
        if c not in distinct:
            distinct.add(c)
            if k == "SV":
                # non-trivial: both strings valid and different
                if "valid=1,1" in m and c.split()[1] != c.split()[2]:
                    nontrivial += 1
            elif k == "MVS":
                if len(m.split()) >= 3:
                    nontrivial += 1
            elif k == "TR":
                if len(c.split("|")[2].split()) >= 6:
                    nontrivial += 1
        if k == "TR" and i == m:
            traces += 1
        if len(samples) < 3 and k in ("MVS", "SV") and len(c) < 400 and kinds[k] % 97 == 1:
            samples.append({"case": c, "impl": i, "model": m})
        if i != m:
            mismatches += 1
            if mismatches <= 5:
                what = {
                    "SV": "semver.Compare/IsValid/Canonical/Major or Versions.Max differs from the model proved to refine SemVer 2.0 precedence (compare_refines_spec)",
                    "MVS": "mvs.BuildList differs from the model proved to select the maximum over reachable requirements (mvs_spec); NONDET = two runs of the same graph differ",
                    "TR": "observed order of reqs.Required calls is not a schedule of the model, or the build list differs",
                }[k]
                ctx.violation({"kind": "impl-differs-from-proved-model", "case": c, "impl": i, "model": m,
                               "what": what,
                               "replay": "bin/check C14 --replay <this file>"})
    if not samples and cases:
        samples.append({"case": cases[0][:400], "impl": impl[0], "model": model[0]})
    ctx.coverage.update({
        "obligations": proof["obligations"],
        "discharged": proof["discharged"],
        "checker_cmd": proof["checker_cmd"] + ("; coqchk -silent -o Verif.Properties.C14" if not quick else ""),
        "trusted_base": TRUSTED,
        "theorems": proof["theorems"],
        "axioms_reported": proof["axioms"],
        "audit_files": proof["audit_files"],
        "evaluations": len(cases),
        "distinct_nontrivial": nontrivial,
        "rule": "cases: fixed corpus of semver spellings (all pairs) + random valid/near-valid version pairs (SV); random requirement graphs of 2-8 modules x 1-4 versions with cycles, duplicates, 'none' versions, main modules as targets, each built `reps` times with random latency and permuted requirement lists (MVS), traces of Required calls (TR). non-trivial: SV both valid and different strings; MVS build list >= 3 modules; TR >= 6 events; counted over distinct case lines",
        "samples": samples,
        "case_kinds": kinds,
        "traces_validated_against_impl": traces,
        "mismatches": mismatches,
        "harness_build_s": hsecs,
        "proof": {k: v for k, v in proof.items() if k.startswith("coqchk") or k in ("make_s",)},
    })
    ctx.assumptions.extend(TRUSTED)

MANIFEST = {
    "category": "proof",
    "text": "Coq theorems, for all version strings, requirement graphs and schedules: semver.Compare refines SemVer 2.0 precedence and is a total preorder; for every interleaving of the work-set critical sections Graph.Require never panics and the drained selection is exactly the maximum version over the nodes reachable from the targets (sufficient, minimal, nothing unreachable), hence schedule independent and equal to the executable model. The model is tied to /repo by exact agreement of Compare/IsValid/Canonical/Major/Max and BuildList outputs with the extracted model on generated and corpus cases, and by accepting the observed order of reqs.Required calls as a schedule of the model.",
    "note": "Trusted: Coq kernel; hand-written model of semver.go, versions.go Max, mvs graph.go/buildList, par.Work at critical-section granularity; extraction (ExtrOcamlBasic, no Extract Constant) and the OCaml/Go drivers; Reqs.Required assumed an error-free function. BuildList's list ORDER (targets first, rest sorted by path) is checked by correspondence only; Req/Upgrade/Downgrade are not modelled.",
    "technique": "Coq proof (invariant over all schedules of a work-set machine; refinement of SemVer 2.0 order) + extracted-model differential check",
}
