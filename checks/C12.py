"""C12 - cue export / cue import are inverse across JSON, YAML, TOML and CUE."""
import hashlib
import json
import os
import time
import vlib

LEVEL = "proof"

TRUSTED = [
    "Coq 8.16.1 kernel; vm_compute only in the two witness theorems; no axioms (Print Assumptions: closed)",
    "hand-written Gallina model (Toml/Decode.v) of encoding/toml/decode.go: nextRootNode, decodeField, decodeExpr, decodeKey, findArray, findArrayPrefix (the matched array is looked up again after slices.DeleteFunc), inlineFields; pointers into the syntax tree are child-index paths; rooted keys are segment lists (quoteLabelIfNeeded assumed injective)",
    "third party, abstracted: github.com/pelletier/go-toml/v2/unstable parser = the sequence of KeyValue/Table/ArrayTable events of the generated TOML text (known by construction, the harness renders the text from the events); TOML leaves are opaque (compared through the implementation's decoding of the leaf alone); CUE evaluation of the decoded syntax tree = unification of equal labels (eval)",
    "extraction (ExtrOcamlBasic, no Extract Constant), ocaml/c12_driver.ml, harness/c12 (event and data generators, TOML rendering, canon projections)",
    "CLI loop: direct exploration of the property with the cue binary built from the working tree (no model, no theorem): go build ./cmd/cue, exit codes, JSON parsed with encoding/json (UseNumber)",
]


def kv(line):
    d = {}
    for w in line.split():
        if "=" in w:
            k, v = w.split("=", 1)
            d[k] = v
    return d


def _numbers(data):
    import re
    return re.findall(r"([if]):([-+0-9.eE]+)", data)


def toml_unrepresentable(data):
    """some integer outside int64 or some float outside the float64 range"""
    for k, t in _numbers(data):
        if k == "i" and not (-2 ** 63 <= int(t) <= 2 ** 63 - 1):
            return True
        if k == "f":
            from decimal import Decimal
            d = Decimal(t)
            if d != 0 and (abs(d) > Decimal("1.7976931348623157e308") or abs(d) < Decimal("4.9406564584124654e-324")):
                return True
    return False


def toml_inexact(data):
    return any(k == "f" and len(t.replace(".", "").replace("-", "").split("e")[0].strip("0")) > 17 for k, t in _numbers(data))


def build_cue(ctx):
    alt = "" if vlib.REPO == "/repo" else "-alt" + hashlib.sha256(vlib.REPO.encode()).hexdigest()[:8]
    exe = os.path.join(vlib.BUILD, "cue-c12" + alt)
    t0 = time.time()
    with vlib.Lock("go-cue-c12" + alt):
        p = vlib.run(["go", "build", "-o", exe, "./cmd/cue"], cwd=vlib.REPO, env=vlib.go_env(), timeout=2400, check=False)
    if p.returncode != 0:
        raise vlib.CheckFailure("cue binary does not build from the working tree:\n" + p.stdout[-4000:])
    return exe, round(time.time() - t0, 1)


def run(ctx):
    quick = ctx.tier == "quick"
    proof = vlib.prove("C12", extra_targets=["theories/Extract/C12.vo"])
    if not quick:
        proof.update(vlib.coqchk("C12"))
        if proof["coqchk_rc"] != 0:
            raise vlib.CheckFailure("coqchk failed: " + proof["coqchk_tail"])
    exe = vlib.build_model("C12", "extract/C12.v", "ocaml/c12_driver.ml")
    harness, hsecs = vlib.build_harness("c12")
    cue_bin, csecs = build_cue(ctx)
    args = [harness, "run", "--seed", str(ctx.seed), "--out", ctx.work, "--cue", cue_bin]
    if ctx.replay:
        rp = json.load(open(ctx.replay))
        cf = os.path.join(ctx.work, "replay_cases.txt")
        with open(cf, "w") as f:
            f.write(rp.get("case", "") + "\n")
        args += ["--replay-cases", cf]
    elif quick:
        args += ["--nevents", "12000", "--ncli", "90", "--nwide", "8", "--ndir", "9", "--nhist", "24"]
    else:
        args += ["--nevents", "200000", "--ncli", "450", "--nwide", "40", "--ndir", "45", "--nhist", "96"]
    p = vlib.run(args, timeout=3300)
    dist = {}
    for line in p.stdout.split("\n"):
        w = line.split()
        if len(w) == 3 and w[0] == "dist":
            dist[w[1]] = int(w[2])
    cases = open(os.path.join(ctx.work, "cases.txt")).read().split("\n")[:-1]
    impl = open(os.path.join(ctx.work, "impl.txt")).read().split("\n")[:-1]
    mp = vlib.run([exe], input="\n".join(cases) + "\n", timeout=3000, stderr=None)
    model = mp.stdout.split("\n")[:-1]
    if not (len(cases) == len(impl) == len(model)):
        raise vlib.CheckFailure("line count mismatch cases=%d impl=%d model=%d" % (len(cases), len(impl), len(model)))

    kinds = {"E": 0, "C": 0, "I": 0, "H": 0}
    outcomes = {}
    stats = {"decoder_agrees_with_model": 0, "cli_roundtrip_ok": 0, "cli_export_fails_as_expected": 0,
             "cli_toml_float_rounded": 0, "cli_toml_rejects_unrepresentable": 0, "cli_invocations": 0, "cli_inconclusive_timeout": 0,
             "import_dir_ok": 0, "import_dir_files": 0, "force_history_ok": 0}
    known = {}
    distinct = set()
    nontrivial = 0
    mism = 0
    samples = []

    def violation(kind, c, i, m, what):
        nonlocal mism
        mism += 1
        if mism <= 5:
            ctx.violation({"kind": kind, "case": c, "impl": i, "model": m, "what": what,
                           "replay": "bin/check C12 --replay <this file>"})

    def note(key, witness):
        if key not in known:
            known[key] = {"count": 0, "witness": witness}
        known[key]["count"] += 1

    for c, i, m in zip(cases, impl, model):
        k = c.split(" ", 1)[0]
        kinds[k] = kinds.get(k, 0) + 1
        new = c not in distinct
        distinct.add(c)
        if k == "E":
            oc = " ".join(i.split()[:2]) if i.startswith("err") else i.split()[0]
            outcomes[oc] = outcomes.get(oc, 0) + 1
            if new and c.count(";") >= 2:
                nontrivial += 1
            if i != m:
                violation("decoder-differs-from-model", c, i, m,
                          "toml.Decoder on the TOML text rendered from these parser events gives a different result "
                          "(data / error class / panic) than the model of decode.go (Toml/Decode.v)")
                continue
            stats["decoder_agrees_with_model"] += 1
            if len(samples) < 3 and kinds["E"] % 1999 == 7:
                samples.append({"case": c[:300], "impl": i[:200], "model": m[:200]})
        elif k == "C":
            cw, iw = kv(c), kv(i)
            if new:
                nontrivial += 1
            stats["cli_invocations"] += 1 + sum(1 for x in ("direct", "import", "reexport") if x in iw)
            wide = cw.get("wide") == "1"
            if "rc98" in i:
                # a cue process was killed by the harness time limit twice (overloaded machine): no verdict
                stats["cli_inconclusive_timeout"] += 1
                continue
            if iw["want"] == "fail":
                if iw["export"] == "rc0":
                    violation("export-succeeds-on-bad-input", c, i, m,
                              "cue export exits 0 although the value is incomplete / conflicting / the -e path does not exist")
                else:
                    stats["cli_export_fails_as_expected"] += 1
                continue
            ok = iw["export"] == "rc0" and iw.get("dsame") == "1" and (cw["fmt"] == "cue" or iw.get("same") == "1")
            if ok:
                stats["cli_roundtrip_ok"] += 1
            elif wide and cw["fmt"] == "toml" and toml_unrepresentable(cw["data"]):
                # TOML has 64-bit integers and floats: an error is what the property asks for
                if iw["export"] != "rc0":
                    stats["cli_toml_rejects_unrepresentable"] += 1
                else:
                    violation("toml-export-changes-number", c, i, m,
                              "cue export --out toml exits 0 for a number outside the range of TOML's 64-bit integers / floats "
                              "(C12-toml-export-bigint, fixed): the number is changed silently")
            elif wide and cw["fmt"] == "toml" and iw["export"] == "rc0" and toml_inexact(cw["data"]):
                # TOML floats are binary64: a decimal with more than 17 significant digits is written as the
                # nearest one; not counted as a violation (the value is as close as the format allows)
                stats["cli_toml_float_rounded"] += 1
            else:
                violation("cli-round-trip-fails", c, i, m,
                          "export to %s (%s%s) and reading it back (cue export FILE --out json, and cue import + cue export) "
                          "does not reproduce the data" % (cw["fmt"], cw["mode"], ", -e" if cw.get("expr") == "1" else ""))
            if len(samples) < 6 and kinds["C"] % 41 == 3:
                samples.append({"case": c[:300], "impl": i[:300]})
        elif k == "I":
            cw, iw = kv(c), kv(i)
            if new:
                nontrivial += 1
            if "rc98" in i or iw.get("prepare") == "rc98" or iw.get("import") == "rc98":
                stats["cli_inconclusive_timeout"] += 1
                continue
            if "prepare" in iw:
                violation("cli-export-fails", c, i, m, "cue export of concrete data into the directory failed")
                continue
            n = int(iw["n"])
            stats["cli_invocations"] += 1 + 2 * n
            if iw["import"] == "rc0" and iw.get("made") == str(n) and iw.get("same") == str(n):
                stats["import_dir_ok"] += 1
                stats["import_dir_files"] += n
            else:
                violation("import-by-directory-skips-or-changes-files", c, i, m,
                          "cue import of a directory (form=%s: ./data | ./data/... | no argument inside it) holding one exported file per "
                          "encoding must produce a .cue file for every data file, each exporting the file's data; missing=%s differ=%s" % (
                              cw.get("form"), iw.get("missing", "-"), iw.get("diff", "-")))
        elif k == "H":
            cw, iw = kv(c), kv(i)
            if new:
                nontrivial += 1
            if "rc98" in i:
                stats["cli_inconclusive_timeout"] += 1
                continue
            stats["cli_invocations"] += 4
            ok = (iw.get("first") == "rc0" and iw.get("noforce", "rc0") != "rc0" and iw.get("kept") == "1"
                  and iw.get("force") == "rc0" and iw.get("read") == "rc0" and iw.get("same") == "1")
            if ok:
                stats["force_history_ok"] += 1
            else:
                violation("export-over-existing-file", c, i, m,
                          "history on one output file (%s, %s): export A; export B without --force must fail and leave the file as it is; "
                          "export B with --force must succeed and the file read back must be exactly B's data "
                          "(lenA=%s lenB=%s)" % (cw.get("fmt"), cw.get("mode"), iw.get("lenA"), iw.get("lenB")))
    if stats["cli_inconclusive_timeout"] * 4 > max(1, kinds.get("C", 0) + kinds.get("I", 0) + kinds.get("H", 0)):
        raise vlib.CheckFailure("%d of %d CLI cases were killed by the time limit: the CLI loop was not run" % (
            stats["cli_inconclusive_timeout"], kinds.get("C", 0)))
    for key in sorted(known):
        ctx.known_finding("%s [%d cases, e.g. %s]" % (key, known[key]["count"], json.dumps(known[key]["witness"], ensure_ascii=True)[:240]))
    if not samples and cases:
        samples.append({"case": cases[0][:300], "impl": impl[0][:200], "model": model[0][:200]})
    ctx.coverage.update({
        "obligations": proof["obligations"],
        "discharged": proof["discharged"],
        "checker_cmd": proof["checker_cmd"] + ("; coqchk -silent -o Verif.Properties.C12" if not quick else ""),
        "trusted_base": TRUSTED,
        "theorems": proof["theorems"],
        "axioms_reported": proof["axioms"],
        "audit_files": proof["audit_files"],
        "evaluations": len(cases),
        "distinct_nontrivial": nontrivial,
        "rule": "E: a sequence of parser events (structured TOML layouts with perturbations, and random soups over a small key alphabet), rendered as TOML text "
                "with random key quoting / spacing / comments, decoded by toml.NewDecoder and evaluated; outcome (sorted data, error class, panic) must equal the model's. "
                "C: cue export of generated data to json/yaml/toml/cue through stdout, --out+--outfile, -o FILE, package argument, with and without -e; "
                "exit status as predicted; cue export FILE --out json and cue import + cue export must give the data back (key order for json/yaml/cue). "
                "I: one exported file per encoding (json, yaml, yml, toml) in one directory, cue import ./data | ./data/... | (no argument); every file must "
                "get its .cue and each .cue must export the file's data. H: export A -o F; export B -o F (must fail, F intact); export B --force -o F; "
                "F read back == B, for B shorter / longer / as long as A, every --out encoding, -o and --out+--outfile. "
                "non-trivial: E with >= 3 events, every C, I, H; counted over distinct case lines",
        "samples": samples,
        "case_kinds": kinds,
        "decoder_outcomes": outcomes,
        "input_distribution": dist,
        "exploration": stats,
        "known_classes": {k: v["count"] for k, v in known.items()},
        "traces_validated_against_impl": stats["decoder_agrees_with_model"],
        "mismatches": mism,
        "harness_build_s": hsecs,
        "cue_build_s": csecs,
        "proof": {k: v for k, v in proof.items() if k.startswith("coqchk") or k in ("make_s",)},
    })
    ctx.assumptions.extend(TRUSTED)


MANIFEST = {
    "category": "proof",
    "text": "Coq theorems about the TOML decoder state machine of encoding/toml/decode.go (model over parser events): duplicate tables and keys are rejected in every state, repeated [[p]] headers append to one list and following key-values land in the last element, dotted keys / table headers / inline tables spelling the same path decode to the same syntax tree, decodeExpr only depends on seen keys below its own key, findArrayPrefix only hands out the array at or above the key (the former panic / misplacement witnesses are regression cases). The model is tied to /repo by exact agreement (data, error class, panic) with toml.NewDecoder on TOML texts generated from known event sequences. The CLI loop export -> import -> export for json/yaml/toml/cue with several flag sets is explored directly with the cue binary built from the working tree.",
    "note": "partial: no theorem about the CLI, file type inference, the go-toml encoder or the YAML/JSON legs (direct exploration only); decode(emit d) = d is not proved for nested tables; TOML leaves are opaque in the model.",
    "technique": "Coq proof (state machine invariants, induction over values) + extracted-model differential check + direct CLI round-trip exploration",
}
