"""C02, direct-exploration part (NOT proof): isolated-worker runs of the real
pipeline parse -> compile -> validate -> export on repository corpus inputs,
byte/token mutations of them and generated programs; every input is run twice in
one child process and once in another and the three transcripts must be
byte-identical; a child death (panic, fatal error, signal, memory cap, CPU-time
watchdog) or a panic escaping the cue API is a crash observation.

    run_part(ctx, quick) -> dict      (to be stored under coverage["exploration"])

Environment:
    VERIF_C02_OVERLAY   "rel=abs,rel=abs": go-build overlay of mutated copies of
                        repository files (mutation tests that never write to the repo)
    VERIF_C02_WORKERS   parallel children (default 8)
"""
import json
import os

import vlib

KNOWN_TEXT = {
    "F-C02-1": "compile errors 'unreferenced alias or let clause' are appended in map-iteration order "
               "(internal/core/compile popScope): err.Error(), errors.Errors(err) and the error quoted by exporters "
               "differ between runs of the same input (cmd/cue's sorted errors.Print output does not)",
    "F-C02-2": "nesting that bypasses the parser's maxNestLevel (field chains a: a: a: ..., nested comprehension bodies): "
               "about 300000 levels end in a fatal stack overflow in astutil.Resolve inside parser.ParseFile",
    "F-C02-3": "b: <=3, b: {if false {x: 1}}: unbounded recursion validateValue -> BinOp -> Vertex.Finalize -> unify "
               "in the evaluator (fatal stack overflow)",
    "F-C02-5": "h: list.FlattenN([list.Sort(h, list.Ascending), 1], 0): self reference through list.Sort recurses "
               "without bound in the evaluator (fatal stack overflow)",
    "F-C02-6": "list.Range has no bound on the number of elements (list.Range(0, 1e10, 1) runs until the CPU limit / memory cap)",
    "F-C02-7": "f: {e: strings.ToUpper(and([_, f]))}: rendering the error text recurses without bound in "
               "internal/core/debug (shortError -> writeErr -> formatter.String -> compactNode), fatal stack overflow",
    "F-C02-8": "c: close({if c != _|_ {w: {for v in c {x: 1}}}}) + for v in c {}: nil pointer dereference in "
               "Vertex.AddStruct (processComprehension -> scheduleStruct) escapes Value.Fields/BuildFile",
    "F-C02-9": "g: {if a != _|_ {c: _, if c {}}, for v in {r: []} {v}} with an erroneous self-referential a: nil pointer "
               "dereference in adt.processListLit escapes BuildFile (cue eval crashes)",
}


def _overlay():
    shims = {}
    spec = os.environ.get("VERIF_C02_OVERLAY", "").strip()
    if not spec:
        return shims
    for part in spec.split(","):
        part = part.strip()
        if not part:
            continue
        rel, _, src = part.partition("=")
        if not rel or not src or not os.path.isabs(src) or not os.path.exists(src):
            raise vlib.CheckFailure("VERIF_C02_OVERLAY: bad entry %r (want <path relative to repo>=<absolute file>)" % part)
        shims[rel] = src  # os.path.join(VERIF, abs) == abs
    return shims


def _build_private(shims, workdir):
    """Same build as vlib.build_harness("c02x", shims=...), but overlay file and binary live in the
    run's work directory: a binary built from mutated copies of repository files must never replace
    the shared build/harness-c02x that concurrent runs use."""
    import time
    repl = {}
    for sub in ("c02x", "common"):
        d = os.path.join(vlib.VERIF, "harness", sub)
        for nm in sorted(os.listdir(d)):
            if nm.endswith(".go"):
                repl[os.path.join(vlib.REPO, "internal", "verifharness", sub, nm)] = os.path.join(d, nm)
    for rel, src in shims.items():
        repl[os.path.join(vlib.REPO, rel)] = src
    ov = os.path.join(workdir, "overlay-c02x.json")
    with open(ov, "w") as f:
        json.dump({"Replace": repl}, f, indent=1)
    exe = os.path.join(workdir, "harness-c02x-overlay")
    t0 = time.time()
    p = vlib.run(["go", "build", "-overlay", ov, "-o", exe, "./internal/verifharness/c02x"], cwd=vlib.REPO,
                 env=vlib.go_env(), timeout=1800, check=False)
    if p.returncode != 0:
        raise vlib.CheckFailure("harness build with VERIF_C02_OVERLAY failed:\n" + p.stdout[-6000:])
    return exe, round(time.time() - t0, 1)


def _text(hexs, limit=1500):
    if hexs == "-":
        return ""
    try:
        t = bytes.fromhex(hexs).decode("utf-8", "replace")
    except ValueError:
        return "<bad hex>"
    if len(t) > limit:
        t = t[:limit] + "...[%d bytes in all]" % (len(hexs) // 2)
    return t


def run_part(ctx, quick):
    shims = _overlay()
    out = os.path.join(ctx.work, "explore")
    os.makedirs(out, exist_ok=True)
    if shims:
        harness, hsecs = _build_private(shims, out)
    else:
        harness, hsecs = vlib.build_harness("c02x")
    args = [harness, "run", "--seed", str(ctx.seed), "--tier", "quick" if quick else "thorough", "--out", out,
            "--repo", vlib.REPO, "--workers", os.environ.get("VERIF_C02_WORKERS", "8")]
    replayed = False
    # regression corpus: minimal witnesses of the findings LISTED in known_findings.json (a witness whose
    # finding is not listed there is not run: its KNOWN-FINDING line would not be legitimate).  The slow
    # ones (runaway recursion: 30-60 CPU-s until the child dies, four times) only in the thorough tier.
    # Witnesses of FIXED findings stay in: they are ordinary regression inputs now (any crash or
    # nondeterminism on them is a violation, no class recognises them any more).
    listed = set(k["id"] for k in vlib.known_findings("C02") if k.get("status") in ("known", "fixed"))
    cheap = ("F-C02-1", "F-C02-4", "F-C02-8", "F-C02-9")
    wdir = os.path.join(vlib.VERIF, "corpus", "C02")
    witnesses, skipped_w = [], []
    for nm in sorted(os.listdir(wdir)) if os.path.isdir(wdir) else []:
        if not (nm.startswith("F-C02-") and nm.endswith(".cue")):
            continue
        fid = "-".join(nm.split("-")[:3])
        if fid not in listed:
            skipped_w.append(nm + " (finding not listed)")
        elif quick and fid not in cheap:
            skipped_w.append(nm + " (thorough tier only)")
        else:
            witnesses.append(os.path.join(wdir, nm))
    if witnesses and not ctx.replay:
        args += ["--witnesses", ",".join(witnesses)]
    if ctx.replay:
        rp = json.load(open(ctx.replay))
        ei = rp.get("explore_input")
        if ei:
            rf = os.path.join(out, "replay_inputs.txt")
            with open(rf, "w") as f:
                f.write("%s %s\n" % (ei.get("kind", "replay"), ei.get("input_hex", "-")))
            args += ["--replay", rf]
            replayed = True
    p = vlib.run(args, timeout=3300, check=False)
    rpt_path = os.path.join(out, "report.json")
    if p.returncode != 0 or not os.path.exists(rpt_path):
        raise vlib.CheckFailure("exploration harness failed (rc=%d):\n%s" % (p.returncode, (p.stdout or "")[-3000:]))
    rpt = json.load(open(rpt_path))

    for c in rpt["crashes"]:
        ctx.violation({
            "kind": "pipeline-crash",
            "explore_input": {"kind": c["kind"], "input_hex": c["input_hex"]},
            "input_hex": c["input_hex"],
            "input_text": _text(c["input_hex"]),
            "input_origin": c.get("note", ""),
            "how": c["how"],
            "reproduced_alone": c.get("reproduced_alone"),
            "detail": c["detail"][:6000],
            "what": "a child process running parse/compile/validate/export died or a panic escaped the cue API on this input",
            "replay": "bin/check C02 --replay <this file>",
        })
    for n in rpt["nondet"]:
        ctx.violation({
            "kind": "pipeline-nondeterminism",
            "explore_input": {"kind": n["kind"], "input_hex": n["input_hex"]},
            "input_hex": n["input_hex"],
            "input_text": _text(n["input_hex"]),
            "input_origin": n.get("note", ""),
            "how": n["which"],
            "detail": n["diff"][:6000],
            "what": "two runs of the same input (fresh parse, fresh context) produced different transcripts",
            "replay": "bin/check C02 --replay <this file>",
        })
    known_counts = {}
    for k in rpt["known"]:
        kid = k.get("known", "?")
        known_counts[kid] = known_counts.get(kid, 0) + 1
    for kid in sorted(known_counts):
        ctx.known_finding("%s: %s" % (kid, KNOWN_TEXT.get(kid, "see design/C02-explore-notes.md")))

    cov = {
        "label": "EXPLORATION (isolated-worker runs of the real pipeline); not proof",
        "regression_witnesses_run": [os.path.basename(w) for w in witnesses],
        "regression_witnesses_skipped": skipped_w,
        "replayed_single_input": replayed,
        "seed": rpt["seed"], "tier": rpt["tier"],
        "distinct_inputs": rpt["distinct_inputs"],
        "evaluations": rpt["evaluations"],
        "kinds": rpt["kinds"],
        "statuses": rpt["statuses"],
        "size_histogram_bytes": rpt["size_histogram_bytes"],
        "batches": rpt["batches"], "children": rpt["children"], "workers": rpt["workers"],
        "per_input_cpu_limit_s": rpt["per_input_cpu_limit_s"], "mem_cap_bytes": rpt["mem_cap_bytes"],
        "crashes": len(rpt["crashes"]), "nondeterministic": len(rpt["nondet"]),
        "aborted_after_deaths": rpt.get("aborted_after_deaths", False),
        "known_finding_instances": known_counts,
        "slowest": (rpt.get("slowest") or [])[:5],
        "input_distribution": rpt["input_distribution"],
        "harness_wall_s": round(rpt["wall_s"], 1), "harness_build_s": hsecs,
        "overlay": sorted(shims),
        "rule": "every input: parser.ParseFile(+comments), format.Source, cuecontext.New().BuildFile, Err, Validate, "
                "Validate(Concrete), Syntax(Final)+format.Node, Syntax(All,Docs)+format.Node, MarshalJSON, yaml.Encode, "
                "Fields(All) walk; error texts via errors.Details plus the raw error list; 3 runs (2 in child A, 1 in child B) "
                "compared by sha256 of the transcript",
    }
    return cov
