"""C05 - field constraints, patterns and closedness admit exactly what the spec allows."""
import os
import vlib
from checks import _core

LEVEL = "proof"


def run(ctx):
    quick = ctx.tier == "quick"
    proof = vlib.prove("C05", extra_targets=["theories/Extract/Core.vo"])
    if not quick:
        proof.update(vlib.coqchk("C05"))
        if proof["coqchk_rc"] != 0:
            raise vlib.CheckFailure("coqchk failed: " + proof["coqchk_tail"])
    harness, exe, hsecs = _core.build()
    # corpus of named pairs that must evaluate alike (runs first); F* entries are known findings
    known = {k["id"]: k for k in vlib.known_findings("C05") if k.get("status") == "known"}
    pairs = _core.run_pairs(harness, os.path.join(vlib.VERIF, "corpus", "C05", "pairs.txt"), ctx.work)
    for name, ca, cb in pairs:
        if ca != cb:
            kid = next((k for k in known if name.startswith(k)), None)
            if kid is not None:
                ctx.known_finding("%s (corpus/C05/pairs.txt): %s [finding %s]" % (name, known[kid]["description"], kid))
            else:
                ctx.violation({"kind": "closedness-corpus-pair-differs", "pair": name, "A": ca, "B": cb,
                               "where": "corpus/C05/pairs.txt"})
    n = 12000 if quick else 250000
    cases, impl, model, src, _ = _core.run_mode(ctx, harness, exe, "c05", n)
    mism = 0
    verdicts = {"OK": 0, "NO": 0}
    distinct = set()
    nontrivial = 0
    for i, (c, a, m) in enumerate(zip(cases, impl, model)):
        verdicts[a[:2]] = verdicts.get(a[:2], 0) + 1
        if c not in distinct:
            distinct.add(c)
            # non-trivial: some closed scope is involved (definition reference or close) and data has a field
            if ("(r " in c or "(c " in c) and "(f " in c:
                nontrivial += 1
        if a != m:
            mism += 1
            if mism <= 5:
                verdict_differs = a[:2] != m[:2]
                ctx.violation({
                    "kind": "schema-and-data-verdict-differs-from-spec" if verdict_differs else "result-tree-differs-from-model",
                    "program": src[i], "impl": a, "spec_model": m,
                    "meaning": "spec verdict (admits, proved equal to the model evaluator's verdict) is %s; cue says %s" % (m[:2], a[:2]),
                }, no_input=not verdict_differs)
    ctx.coverage.update({
        "obligations": proof["obligations"], "discharged": proof["discharged"],
        "checker_cmd": proof["checker_cmd"] + ("; coqchk -silent -o Verif.Properties.C05" if not quick else ""),
        "trusted_base": _core.CORE_TRUSTED, "theorems": proof["theorems"], "axioms_reported": proof["axioms"],
        "evaluations": len(cases) + 2 * len(pairs), "distinct_nontrivial": nontrivial, "corpus_pairs": len(pairs),
        "rule": "1-3 schema conjuncts (schema literal, #Def, close(schema), literal embedding a #Def/close) unified with a data struct over the same labels; data mostly fills the labels the schemas mention, plus occasional extra labels and wrong atoms. verdict = error-free and every non-optional field concrete. non-trivial = distinct case with a closed scope and at least one field",
        "samples": [{"program": src[i], "impl": impl[i], "model": model[i]} for i in range(min(2, len(src)))],
        "verdicts": verdicts, "input_distribution": _core.shape_stats(impl),
        "mismatches": mism, "harness_build_s": hsecs,
    })
    ctx.assumptions.extend(_core.CORE_TRUSTED)


MANIFEST = {
    "category": "proof",
    "text": "Coq theorem `admission`: for every set of CoreCUE conjuncts (schemas + data), every depth, the evaluator model's result is concrete and error free exactly when the declarative predicate `admits` holds (every present field allowed by every closer - named field, matching pattern, ellipsis, embeddings widen; hidden/definition labels unrestricted; every applying constraint satisfied recursively; required fields present; optional constraints on absent fields ignored), with corollaries closed_never_gains, open_never_rejects, required_must_be_present and order-freeness. Tied to cue by exact agreement of the verdict and of the whole canonical result tree (including in-language closedness probes at every struct node) on generated schema/data pairs.",
    "note": "The model is a specification-layer reading of closedness (closers with allow-sets; definition groups closed together); cue's typocheck bookkeeping itself is not modelled. The fragment excludes embedded plain literals (known finding F8), several embeddings per literal, embeddings inside definition bodies, the same definition referenced twice at a node.",
    "technique": "Coq proof (evaluator result ok <-> declarative admission, by induction on depth) + extracted-model differential check of verdicts and result trees",
}
