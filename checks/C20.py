"""C20 - cue trim removes only what is implied: the evaluated configuration is unchanged."""
import json
import os
import re

import vlib

LEVEL = "proof"

TRUSTED = [
    "Coq 8.16.1 kernel; theorems closed under the global context (no axioms); vm_compute only in the refuted-variant witnesses, the non-vacuity Examples and the cross-check of the extraction",
    "hand-written Gallina model coq/theories/Trim/Model.v on top of CoreCUE (coq/theories/Core, design/Core.md): a package is a list of declarations at paths, a declaration a.b: v is the conjunct {a: {b: v}} of the root; defaults do not exist in the fragment; definition references are inlined (ERefDef) so definition bodies are not declarations. It is a specification-layer model of what tools/trim/trimv3.go may remove, not a transcription of its winner selection",
    "the normal form of a package (harness/c20/conv.go): every field node gives `path: _`, every struct literal `path: {}`, leaves are scalars / references / close() / literals with an embedding / one literal per pattern and `...`; equal to the original conjunct set by Core/Laws.v (eval_split_decl, eval_split_and, eval_top_decl, eval_decl_perm) and validated on every case by comparing the model's value of the normal form with cue's value of the package",
    "strict AST converter harness/c20/conv.go (fails outside the fragment), copies of harness/core ast.go / canon.go (generator; canonical value through the public cue API, closedness probed in the language)",
    "extraction (ExtrOcamlBasic only) + ocaml/c20_driver.ml; the Go harness pipeline (parser.ParseFile, build.Instance, cue.Context.BuildInstance, trim.Files, format.Node - the calls of tools/trim/trim_test.go and cmd/cue/cmd/trim.go)",
    "outside CoreCUE (references between regular fields, comprehensions, lists, defaults, disjunctions: the repository's trim testdata) only the direct checks on the implementation apply - exploration, not proof",
]

KNOWN_F10 = ("trim.Files is not a fixpoint after one pass on multi-file packages: a file none of whose declarations is required "
             "is 'replaced by _' through astutil's cursor, which cannot replace the root *ast.File, so the whole file is skipped by "
             "this pass and only trimmed by the next one (value preserved by both passes) [F10]")

KNOWN_EXPLORE = {
    "F11": ("trim.Files changes the value when defaults disagree: `x: b: 2; x: b: *1 | int; x: b: *2 | int` loses `x: b: 2` "
            "(the default 2 is taken to imply it) and x.b becomes `int`; also through a reference to a field whose concrete value "
            "was replaced by an equal default (outside CoreCUE; the cue CLI's own post-check aborts) [F11]"),
    "F12": ("trim.Files changes the value with a self reference: `y: a: 2; y: a: y.a` loses `a: 2` and y.a becomes `_` "
            "(outside CoreCUE) [F12]"),
    "F13": ("trim.Files turns a package into an error when comprehensions feed each other: `if x.a == 1 {x: b: 2}; x: b: 2; "
            "if x.b == 2 {x: a: 1}` loses `x: b: 2` (outside CoreCUE) [F13]"),
}


# ---- S-expression case -> Gallina (vm_compute cross-check) ---------------------------------

def _tok(s):
    return re.findall(r"\(|\)|[^\s()]+", s)


def _parse(toks, i=0):
    if toks[i] == "(":
        items = []
        i += 1
        while toks[i] != ")":
            x, i = _parse(toks, i)
            items.append(x)
        return items, i + 1
    return toks[i], i + 1


def _z(s):
    v = int(s)
    return "(%d)%%Z" % v


def _label(s):
    return "(%s %s%%N)" % ({"r": "LReg", "h": "LHid", "d": "LDef"}[s[0]], s[1:])


def _atom(s):
    if s[0] == "i":
        return "(AInt %s)" % _z(s[1:])
    if s[0] == "s":
        return "(AStr %s%%N)" % s[1:]
    if s[0] == "b":
        return "(ABool %s)" % ("true" if s == "b1" else "false")
    return "ANull"


def _expr(x):
    if x == "T":
        return "ETop"
    if x == "B":
        return "EBot"
    h = x[0]
    if h == "a":
        return "(EScalar (SAtom %s))" % _atom(x[1])
    if h == "k":
        return "(EScalar (SKind %s))" % {"int": "KInt", "string": "KStr", "bool": "KBool", "null": "KNull"}[x[1]]
    if h in ("gt", "ge", "lt", "le", "ne"):
        return "(EScalar (%s %s))" % ({"gt": "SGt", "ge": "SGe", "lt": "SLt", "le": "SLe", "ne": "SNe"}[h], _z(x[1]))
    if h == "&":
        return "(EAnd %s %s)" % (_expr(x[1]), _expr(x[2]))
    if h == "c":
        return "(EClose %s)" % _expr(x[1])
    if h == "r":
        return "(ERefDef %s)" % _expr(x[1])
    if h == "s":
        ds = []
        for d in x[1:]:
            if d[0] == "f":
                fk = {"=": "FRegular", "!": "FRequired", "?": "FOptional"}[d[2]]
                ds.append("(HField %s %s, %s)" % (_label(d[1]), fk, _expr(d[3])))
            elif d[0] == "p":
                ids = [] if d[1] == "-" else d[1].split(",")
                ds.append("(HPattern [%s], %s)" % ("; ".join(i + "%N" for i in ids), _expr(d[2])))
            elif d[0] == "...":
                ds.append("(HEllipsis, ETop)")
            elif d[0] == "e":
                ds.append("(HEmbed, %s)" % _expr(d[1]))
            else:
                raise ValueError("decl " + str(d))
        return "(EStruct [%s])" % "; ".join(ds)
    raise ValueError("expr " + str(x))


def case_to_coq(case, n):
    head, body, mask = [x.strip() for x in case.split("|")]
    _, labs, atoms = head.split()
    decls = []
    for d in [x.strip() for x in body.split(";") if x.strip()]:
        hd, sx = d.split(" ", 1)
        f, path = hd.split(":", 1)
        steps = []
        if path != "-":
            for st in path.split("/"):
                steps.append("(%s, %s)" % (_label(st[:-1]), {"=": "FRegular", "!": "FRequired", "?": "FOptional"}[st[-1]]))
        tree, _ = _parse(_tok(sx))
        decls.append("mkDecl %s%%N [%s] %s" % (f, "; ".join(steps), _expr(tree)))
    return ("Definition labs%d := [%s].\nDefinition atoms%d := [%s].\nDefinition P%d : pkg := [%s].\n"
            "Definition m%d := [%s].\nEval vm_compute in (c20_fingerprint labs%d atoms%d m%d P%d).\n" % (
                n, "; ".join(_label(l) for l in labs.split(",")), n, "; ".join(_atom(a) for a in atoms.split(",")),
                n, ";\n  ".join(decls), n, "; ".join("true" if c == "1" else "false" for c in mask), n, n, n, n))


def vm_crosscheck(ctx, exe, cases):
    """the extracted model and vm_compute inside Coq agree on a sub-sample"""
    if not cases:
        return 0
    src = ("From Verif Require Import Core.Syntax Core.Eval Trim.Model Extract.C20.\n"
           "From Coq Require Import List ZArith NArith.\nImport ListNotations.\n")
    for n, c in enumerate(cases):
        src += case_to_coq(c, n)
    vf = os.path.join(ctx.work, "cases.v")
    with open(vf, "w") as f:
        f.write(src)
    # only reads .vo files: first without the build lock (another check may hold it for minutes), and
    # again under the lock if a concurrent make was rewriting a .vo at that moment
    cmd = ["timeout", "600", "coqc", "-Q", os.path.join(vlib.COQ, "theories"), "Verif", vf]
    p = vlib.run(cmd, cwd=ctx.work, check=False)
    if p.returncode != 0:
        with vlib.Lock("coq"):
            p = vlib.run(cmd, cwd=ctx.work, check=False)
    if p.returncode != 0:
        raise vlib.CheckFailure("vm_compute cross-check file does not compile:\n" + p.stdout[-3000:])
    outs = re.split(r"\n\s*= ", "\n" + p.stdout)[1:]
    if len(outs) != len(cases):
        raise vlib.CheckFailure("vm_compute cross-check: %d results for %d cases" % (len(outs), len(cases)))
    q = vlib.run([exe], input="\n".join("FP" + c[4:] for c in cases) + "\n", timeout=600, stderr=None)
    ml = q.stdout.split("\n")[:-1]
    for c, o, m in zip(cases, outs, ml):
        o = o.split("\n     :")[0]
        toks = re.findall(r"true|false|\(|\)|\[|\]|,", o)
        # (acc, [mask], [bits0], [bits1]) -> "a mask bits0 bits1"
        parts, cur = [], None
        for t in toks:
            if t == "[":
                cur = ""
            elif t == "]":
                parts.append(cur)
                cur = None
            elif t in ("true", "false"):
                b = "1" if t == "true" else "0"
                if cur is None:
                    parts.append(b)
                else:
                    cur += b
        if " ".join(parts) != m.strip():
            ctx.violation({"kind": "extraction-differs-from-vm_compute", "case": c, "vm_compute": " ".join(parts), "extracted": m},
                          no_input=True)
    return len(cases)


# ---- one stream of packages ---------------------------------------------------------------

class Stats:
    def __init__(self):
        self.n = 0
        self.stage = {}
        self.changed = 0
        self.removed_decls = 0
        self.decls = 0
        self.nontrivial = 0
        self.files = {}
        self.accepted = 0
        self.f10 = 0
        self.model_removed = 0
        self.viol = 0
        self.samples = []
        self.with_error_fields = 0
        self.size_hist = {}
        self.removed_hist = {}
        self.features = {"definition_reference": 0, "close": 0, "pattern": 0, "embedding": 0, "optional_or_required": 0, "ellipsis": 0, "bounds": 0}


def judge(ctx, st, case, impl, model, src, origin):
    """classify one package; returns nothing, records violations / known findings"""
    st.n += 1
    f = impl.split(" ")
    mm = model.split(" ")
    stage = f[0].split(":")[0]
    st.stage[stage] = st.stage.get(stage, 0) + 1
    payload = {"origin": origin, "package_and_output": src, "impl": impl, "model": model, "case": case,
               "replay": "bin/check C20 --replay <this file>"}

    def viol(kind, what, no_input=False):
        st.viol += 1
        if st.viol <= 6:
            p = dict(payload)
            p.update({"kind": kind, "what": what})
            ctx.violation(p, no_input=no_input)

    if model.startswith("MODEL-FAIL") or model.startswith("BAD"):
        viol("model-driver-failed", "the extracted model could not read the case", no_input=True)
        return
    if stage == "UNCONVERTIBLE-INPUT":
        viol("generator-outside-fragment", "the strict converter rejects a generated package: " + f[0], no_input=True)
        return
    if stage == "BUILD-ERROR":
        # the package evaluates to an error: trim.Files must refuse it and leave the files alone (checked by the harness)
        if mm[0] != "E" and f[3] == "E":
            viol("model-differs-from-cue-on-input", "cue reports an error for x, the CoreCUE model does not", no_input=True)
        return
    if stage in ("PANIC", "REFUSED-BUT-MODIFIED", "TRIM-ERROR", "FORMAT-ERROR", "PARSE-ERROR", "ADD-ERROR"):
        viol("trim-failed", "trim.Files did not get through on a package that evaluates: " + stage)
        return
    nfiles = f[10] if len(f) > 10 else "?"
    st.files[nfiles] = st.files.get(nfiles, 0) + 1
    canon_in, canon_out, same, idem = f[3], f[4], f[5], f[6]
    value_ok = same == "1" and (stage != "OK" or canon_in == canon_out)
    if not value_ok:
        viol("trim-changed-the-evaluated-configuration",
             "the final value of the trimmed package (re-parsed from the formatted output) differs from the original's: "
             "canonical forms %s vs %s (generic canonical form equal: %s)" % (canon_in, canon_out, same))
    if idem in ("0", "B"):
        viol("trim-not-idempotent", "trim(trim(x)) != trim(x) outside the class of known finding F10 "
             "(code %s: 0 = second pass changes the value or fails, B = second pass preserves the value)" % idem)
    elif idem == "F":
        st.f10 += 1
        ctx.known_finding(KNOWN_F10)
    if stage == "UNCONVERTIBLE-OUTPUT":
        if value_ok:
            viol("trim-output-outside-fragment", "the output of trim.Files is not a sub-package of the input the model can read: " + f[0], no_input=True)
        return
    if canon_in != mm[0]:
        viol("model-differs-from-cue-on-input", "CoreCUE value of the normal form != cue's value of the package (fragment/normal form broken)", no_input=True)
        return
    nrem, nadd = int(f[8]), int(f[7])
    if "E" in canon_in:
        st.with_error_fields += 1
    b = "%d-%d" % (int(f[1]) // 10 * 10, int(f[1]) // 10 * 10 + 9)
    st.size_hist[b] = st.size_hist.get(b, 0) + 1
    rb = str(nrem) if nrem < 5 else ("5-9" if nrem < 10 else ("10-19" if nrem < 20 else "20+"))
    st.removed_hist[rb] = st.removed_hist.get(rb, 0) + 1
    for key, pat in (("definition_reference", "(r "), ("close", "(c "), ("pattern", "(p "), ("embedding", "(e "),
                     ("ellipsis", "(...)"), ("bounds", "(gt "), ("bounds", "(le ")):
        if pat in case:
            st.features[key] += 1
    if "?" in case.split("|")[1] or "!" in case.split("|")[1]:
        st.features["optional_or_required"] += 1
    st.decls += int(f[1])
    st.removed_decls += nrem
    st.model_removed += mm[3].count("1")
    if f[9] == "1":
        st.changed += 1
    if nrem > 0 and ("(r " in case or "(c " in case or "(p " in case):
        st.nontrivial += 1
    if nadd > 0:
        if value_ok:
            viol("trim-added-or-rewrote-a-declaration", "the output has declarations the input does not have (not a pure removal)", no_input=True)
        return
    if canon_out != mm[1]:
        if value_ok:
            viol("model-differs-from-cue-on-output", "CoreCUE value of the trimmed normal form != cue's value of the trimmed package", no_input=True)
        return
    if mm[2] != "ACCEPT":
        if value_ok:
            viol("removed-set-not-implied-in-the-model",
                 "the set of declarations trim.Files removed is not a sequentially implied removal according to the model "
                 "(accepts_mask = false), although the value is unchanged on this input", no_input=True)
        return
    st.accepted += 1
    if len(st.samples) < 3 and nrem > 0 and len(src) < 1500 and st.n % 37 == 1:
        st.samples.append({"package_and_output": src, "impl": impl[:300], "model": model[:300]})


def read_stream(d):
    cases = open(os.path.join(d, "cases.txt")).read().split("\n")[:-1]
    impl = open(os.path.join(d, "impl.txt")).read().split("\n")[:-1]
    src = open(os.path.join(d, "src.txt")).read().split("### ")[1:]
    return cases, impl, src


def run_model(exe, cases):
    p = vlib.run([exe], input="\n".join(cases) + "\n", timeout=3000, stderr=None)
    return p.stdout.split("\n")[:-1]


def negative_controls(exe, cases, impl, seed, limit):
    """model only: remove ONE more declaration than trim did; how often does the acceptor object,
    and is every accepted enlarged set value preserving (as the theorem says)?"""
    state = seed & 0xFFFFFFFF
    extra = []
    for c, a in zip(cases, impl):
        if len(extra) >= limit:
            break
        if not a.startswith("OK "):
            continue
        head, body, mask = c.rsplit("|", 2)
        mask = mask.strip()
        kept = [i for i, ch in enumerate(mask) if ch == "0"]
        if not kept:
            continue
        state, z = vlib.splitmix64(state)
        i = kept[z % len(kept)]
        extra.append("%s|%s| %s" % (head, body, mask[:i] + "1" + mask[i + 1:]))
    if not extra:
        return {"tried": 0}
    out = run_model(exe, extra)
    rej = acc = acc_changed = rej_same = 0
    for o in out:
        mm = o.split(" ")
        if len(mm) < 3:
            continue
        if mm[2] == "ACCEPT":
            acc += 1
            if mm[0] != mm[1]:
                acc_changed += 1
        else:
            rej += 1
            if mm[0] == mm[1]:
                rej_same += 1
    return {"tried": len(extra), "rejected": rej, "accepted": acc, "accepted_but_value_changed": acc_changed,
            "rejected_although_value_unchanged_in_this_universe": rej_same}


def run(ctx):
    import time
    quick = ctx.tier == "quick"
    phases = {}
    t0 = time.time()

    def mark(name):
        nonlocal t0
        phases[name] = round(time.time() - t0, 1)
        t0 = time.time()

    proof = vlib.prove("C20", extra_targets=["theories/Extract/C20.vo"])
    if not quick:
        proof.update(vlib.coqchk("C20"))
        if proof["coqchk_rc"] != 0:
            raise vlib.CheckFailure("coqchk failed: " + proof["coqchk_tail"])
    exe = vlib.build_model("C20", "extract/C20.v", "ocaml/c20_driver.ml")
    harness, hsecs = vlib.build_harness("c20")
    mark("proof_and_builds")

    def explore(lines, srcs, origin, tstat):
        reported = [0]

        def report(payload):
            reported[0] += 1
            if reported[0] <= 6:       # replay files for the first few; all are counted
                ctx.violation(payload)

        for line, s in zip(lines, srcs):
            name, variant, stage, same, idem, changed = line.split(" ")
            if stage == "BUILD-ERROR":
                tstat["refused_error_packages"] += 1
                continue
            payload = {"origin": origin % (name, variant), "package_and_output": s, "impl": line}
            if stage != "OK":
                tstat["failed"] += 1
                payload.update({"kind": "trim-failed", "what": "trim.Files did not get through: " + stage})
                report(dict(payload))
                continue
            tstat["trimmed_ok"] += 1
            tstat["changed_by_trim"] += changed == "1"
            if same != "1":
                tstat["value_changed"] += 1
                payload.update({"kind": "trim-changed-the-evaluated-configuration", "triage_hint": same,
                                "what": "final value (defaults resolved) of the trimmed package differs from the original's"})
                report(dict(payload))
            if idem in ("0", "B"):
                tstat["not_idempotent"] += 1
                payload.update({"kind": "trim-not-idempotent", "what": "trim(trim(x)) != trim(x) (code %s)" % idem})
                report(dict(payload))
            elif idem == "F":
                tstat["known_f10"] += 1
                ctx.known_finding(KNOWN_F10)

    def new_tstat():
        return {"inputs": 0, "trimmed_ok": 0, "changed_by_trim": 0, "refused_error_packages": 0, "value_changed": 0,
                "not_idempotent": 0, "known_f10": 0, "failed": 0}

    st = Stats()
    if ctx.replay:
        rp = json.load(open(ctx.replay))
        d = os.path.join(ctx.work, "replay")
        os.makedirs(os.path.join(d, "in"), exist_ok=True)
        text = rp.get("package_and_output", rp.get("package", "")).split("==== trimmed")[0]
        text = re.sub(r"^\d+[^\n]*\n", "", text, count=1) if not text.startswith("--") else text
        with open(os.path.join(d, "in", "replay.txt"), "w") as f:
            f.write(text)
        origin = rp.get("origin", "")
        if origin.startswith("tools/trim/testdata") or origin.startswith("exploration") or origin.startswith("corpus/C20/direct"):
            # outside CoreCUE: the direct checks only
            vlib.run([harness, "--mode", "corpus", "--dir", os.path.join(d, "in"), "--out", d, "--nomut", "1"], timeout=600)
            tl = open(os.path.join(d, "corpus.txt")).read().split("\n")[:-1]
            tsrc = open(os.path.join(d, "corpus_src.txt")).read().split("### ")[1:]
            ts = new_tstat()
            explore(tl, tsrc, "replay of %s %s: " + origin, ts)
            print("replay: " + " ".join(tl))
            ctx.coverage.update({"obligations": proof["obligations"], "discharged": proof["discharged"],
                                 "checker_cmd": proof["checker_cmd"], "trusted_base": TRUSTED, "evaluations": len(tl),
                                 "distinct_nontrivial": 0, "samples": [], "replayed": ctx.replay, "replay_result": ts})
            return
        vlib.run([harness, "--mode", "dir", "--dir", os.path.join(d, "in"), "--out", d], timeout=600)
        cases, impl, src = read_stream(d)
        model = run_model(exe, cases)
        for c, a, m, s in zip(cases, impl, model, src):
            judge(ctx, st, c, a, m, s, "replay")
            print("replay: impl=%s\nreplay: model=%s" % (a[:400], m[:400]))
        ctx.coverage.update({"obligations": proof["obligations"], "discharged": proof["discharged"],
                             "checker_cmd": proof["checker_cmd"], "trusted_base": TRUSTED, "evaluations": st.n,
                             "distinct_nontrivial": st.nontrivial, "samples": [], "replayed": ctx.replay})
        return

    # 1. minimized corpus first
    d0 = os.path.join(ctx.work, "corpus")
    os.makedirs(d0, exist_ok=True)
    vlib.run([harness, "--mode", "dir", "--dir", os.path.join(vlib.VERIF, "corpus", "C20"), "--out", d0], timeout=600)
    cases0, impl0, src0 = read_stream(d0)
    model0 = run_model(exe, cases0)
    for c, a, m, s in zip(cases0, impl0, model0, src0):
        judge(ctx, st, c, a, m, s, "corpus/C20")
    ncorpus = st.n
    mark("corpus")

    # 2. generated packages
    n = 3500 if quick else 30000
    d1 = os.path.join(ctx.work, "gen")
    os.makedirs(d1, exist_ok=True)
    vlib.run([harness, "--mode", "gen", "--seed", str(ctx.seed), "--n", str(n), "--out", d1], timeout=3000)
    cases, impl, src = read_stream(d1)
    mark("generated_impl")
    model = run_model(exe, cases)
    mark("generated_model")
    if not (len(cases) == len(impl) == len(model) == len(src)):
        raise vlib.CheckFailure("line count mismatch cases=%d impl=%d model=%d src=%d" % (len(cases), len(impl), len(model), len(src)))
    distinct = set()
    for c, a, m, s in zip(cases, impl, model, src):
        if c in distinct:
            st.n += 1
            st.stage["duplicate"] = st.stage.get("duplicate", 0) + 1
            continue
        distinct.add(c)
        judge(ctx, st, c, a, m, s, "generated seed=%d" % ctx.seed)

    # 3. model only: negative controls and cross-check of the extraction
    neg = negative_controls(exe, cases, impl, ctx.seed, 600 if quick else 6000)
    if neg.get("accepted_but_value_changed", 0) > 0:
        ctx.violation({"kind": "acceptor-unsound-in-extracted-model", "detail": neg}, no_input=True)
    sub = [c for c, a in zip(cases, impl) if a.startswith("OK ") and len(c) < 2500][:: max(1, len(cases) // (3 if quick else 30))][: (3 if quick else 30)]
    nvm = vm_crosscheck(ctx, exe, sub)
    mark("negative_controls_and_vm_compute")

    # 4. the repository's trim testdata with mutated literals: direct checks only (exploration)
    d2 = os.path.join(ctx.work, "testdata")
    os.makedirs(d2, exist_ok=True)
    targs = [harness, "--mode", "corpus", "--dir", os.path.join(vlib.REPO, "tools", "trim", "testdata"), "--out", d2, "--maxmut", "1000"]
    if not quick:
        targs += ["--pairs", "40", "--seed", "20"]   # fixed: this pass is seed independent
    vlib.run(targs, timeout=3000)
    tl = open(os.path.join(d2, "corpus.txt")).read().split("\n")[:-1]
    tsrc = open(os.path.join(d2, "corpus_src.txt")).read().split("### ")[1:]
    tstat = new_tstat()
    tstat["inputs"] = len(tl)
    tstat["archives"] = len(set(x.split(" ")[0] for x in tl))
    explore(tl, tsrc, "tools/trim/testdata/%s.txtar variant %s", tstat)
    mark("testdata")

    # 5. exploration outside CoreCUE with a generator (defaults, disjunctions, acyclic references, comprehensions,
    #    lists, patterns, embeddings): FIXED seed, direct checks only.  The classes of value-changing trims found with
    #    it are excluded from the generator; their witnesses are replayed here and reported as known findings.
    d3 = os.path.join(ctx.work, "rich")
    os.makedirs(d3, exist_ok=True)
    vlib.run([harness, "--mode", "rich", "--seed", "20", "--n", str(2000 if quick else 20000), "--out", d3], timeout=3000)
    rl = open(os.path.join(d3, "rich.txt")).read().split("\n")[:-1]
    rsrc = open(os.path.join(d3, "rich_src.txt")).read().split("### ")[1:]
    rstat = new_tstat()
    rstat["inputs"] = len(rl)
    explore(rl, rsrc, "exploration generator %s case %s (harness-c20 --mode rich --seed 20)", rstat)
    # minimized inputs outside CoreCUE that must keep passing (multi-marked defaults, nested references)
    d5 = os.path.join(ctx.work, "direct")
    os.makedirs(d5, exist_ok=True)
    vlib.run([harness, "--mode", "corpus", "--dir", os.path.join(vlib.VERIF, "corpus", "C20", "direct"), "--out", d5, "--nomut", "1"], timeout=600)
    dl = open(os.path.join(d5, "corpus.txt")).read().split("\n")[:-1]
    dsrc = open(os.path.join(d5, "corpus_src.txt")).read().split("### ")[1:]
    dstat = new_tstat()
    dstat["inputs"] = len(dl)
    explore(dl, dsrc, "corpus/C20/direct/%s.txt %s", dstat)
    d4 = os.path.join(ctx.work, "witness")
    os.makedirs(d4, exist_ok=True)
    vlib.run([harness, "--mode", "corpus", "--dir", os.path.join(vlib.VERIF, "corpus", "C20", "explore"), "--out", d4, "--nomut", "1"], timeout=600)
    wstat = {}
    for line in open(os.path.join(d4, "corpus.txt")).read().split("\n")[:-1]:
        name, variant, stage, same, idem, changed = line.split(" ")
        fid = name.split("_")[0].upper()
        still = stage == "OK" and same != "1"
        wstat[name] = "still fails" if still else "no longer fails (%s same=%s)" % (stage, same)
        if still and fid in KNOWN_EXPLORE:
            ctx.known_finding(KNOWN_EXPLORE[fid])
    mark("exploration")
    ok = st.stage.get("OK", 0)
    ctx.coverage.update({
        "phase_seconds": phases,
        "obligations": proof["obligations"], "discharged": proof["discharged"],
        "checker_cmd": proof["checker_cmd"] + ("; coqchk -silent -o Verif.Properties.C20" if not quick else ""),
        "trusted_base": TRUSTED, "theorems": proof["theorems"], "axioms_reported": proof["axioms"],
        "audit_files": proof["audit_files"],
        "evaluations": st.n + tstat["inputs"] + rstat["inputs"],
        "distinct_nontrivial": st.nontrivial,
        "rule": "generated packages: 0-2 schema conjuncts of x (schema literal with regular/optional/required fields, patterns, '...'; #Dk; close(schema); literal embedding #Dk/close) + 1-3 data structs mostly agreeing with the schemas, written whole or exploded into declarations at paths, with weaker repetitions (kind, bound, _, {}), over 1-3 files; erroneous packages are kept with probability 1/40 per attempt (refusal path). Per package: trim.Files; (a) output parses/evaluates, (b) canonical value (CoreCUE canon incl. in-language closedness probes, and a generic canon) equals the original's, (c) the removed set (diff of normal-form declaration multisets, nothing added) is accepted by the extracted model (accepts_mask) and the model's values of input and output equal cue's, (d) trim(trim(x)) = trim(x). non-trivial = distinct package in which trim removed something and a definition reference, close() or pattern is present",
        "samples": st.samples,
        "generated": {"packages": st.n - ncorpus, "distinct": len(distinct), "corpus_cases": ncorpus, "stages": st.stage,
                      "files_per_package": st.files, "changed_by_trim": st.changed,
                      "normal_form_declarations": st.decls, "declarations_removed_by_trim": st.removed_decls,
                      "declarations_the_reference_trimmer_removes": st.model_removed,
                      "removed_sets_accepted_by_model": st.accepted, "known_f10": st.f10, "violations": st.viol,
                      "packages_with_erroneous_fields_that_trim_processed": st.with_error_fields,
                      "normal_form_size_histogram": st.size_hist, "removed_declarations_histogram": st.removed_hist,
                      "packages_with_feature": st.features},
        "refused_error_packages": st.stage.get("BUILD-ERROR", 0),
        "model_negative_controls": neg,
        "vm_compute_crosschecked": nvm,
        "testdata_exploration": tstat,
        "generator_exploration_outside_corecue": rstat,
        "direct_corpus_outside_corecue": dstat,
        "known_finding_witnesses": wstat,
        "traces_validated_against_impl": st.accepted,
        "harness_build_s": hsecs,
        "proof": {k: v for k, v in proof.items() if k.startswith("coqchk") or k in ("make_s",)},
    })
    if ok == 0:
        raise vlib.CheckFailure("no package went through trim.Files")
    ctx.assumptions.extend(TRUSTED)


MANIFEST = {
    "category": "proof",
    "text": "Coq theorems on top of CoreCUE, for every package (list of declarations at paths), label universe, probe atoms and depth: unifying into a node an expression its conjuncts absorb (fields exist with the same kind, structs only where there is one, every scalar constraint entailed) changes nothing (absorb_sound); hence removing declarations one after the other, each implied by what remains, leaves the evaluated configuration - data, errors, closedness, at every path - unchanged (removes_preserves / remove_implied_preserves); the acceptor run on trim's removed set is sound (accepts_sound); the reference trimmer is sound, idempotent and complete w.r.t. absorption; refuted variants: two copies imply each other but cannot both go (mutual_redundancy_unsafe), a pattern root must not win, `{}` is not implied by `_`. Tied to /repo: trim.Files on generated multi-file packages - the value after trimming (re-parsed output) equals the value before, directly on the implementation; the removed set is a pure removal accepted by the extracted model; the model's values equal cue's; trim is re-applied for idempotence.",
    "note": "Partial: CoreCUE has no defaults, disjunctions, comprehensions, lists or references between regular fields - where trim is most delicate. For the repository's trim testdata (with every literal mutated in turn) and for a fixed-seed generator with defaults, disjunctions, acyclic references, comprehensions, lists, patterns and embeddings only the direct checks run (parses/evaluates, same final value, idempotent): exploration, not proof. trim's winner selection is not modelled; the model is the safety condition on the removed set. Known findings on the pinned tree: F10 (one pass is not a fixpoint on multi-file packages), and - found by the exploration, outside CoreCUE, witnesses replayed on every run - F11 (a concrete value equal to one default is removed although another default disagrees; Coq: default_is_not_implication), F12 (self reference), F13 (comprehensions feeding each other): trim.Files changes the evaluated value there.",
    "technique": "Coq proof (absorption theorem by induction on depth over the Core/Laws.v equivalence; sequential removal by induction) + direct differential check of trim.Files + extracted-model acceptance of the removed set",
}
