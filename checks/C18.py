"""C18 - workflow tasks run once, after everything they depend on, under every schedule."""
import collections
import json
import os
import re
import vlib

LEVEL = "proof"

SHIMS = {"tools/flow/export_verif.go": "harness/c18/shims/flow_export.go.txt"}

TRUSTED = [
    "Coq 8.16.1 kernel; no axioms (Print Assumptions: closed under the global context)",
    "hand-written Gallina model of tools/flow run.go (runLoop, markReady, updateValue, updateTaskValue, updateTaskResults), the part of tasks.go the run loop depends on (initTasks/getTask/addDep: task discovery, dependency accumulation, value refresh) and cycle.go (checkCycle/isCyclic), at the granularity of one step per dispatch / completion / cancellation",
    "FLOW cases: the generator's ground-truth dependency graph stands for the dependency analysis (tasks.go markTaskDependencies + internal/core/dep) and Task.Dependencies() is compared with it after every update; FLOWC/FLOWX cases: the analysis is MODELLED (Flow/Discover.v: task-graph configurations, discover/tasks_at, soundness proved, completeness not) and the model discovers tasks and dependencies from the configuration itself",
    "correspondence: extracted OCaml model (ExtrOcamlBasic only; nat kept as Coq datatype) replays the observed label sequence and must reproduce every observation; Go harness built from /repo working tree via go build -overlay (shim tools/flow/export_verif.go re-exports checkCycle and the cycleError test)",
    "OCaml driver ocaml/c18_driver.ml (parsing, sorting of printed sets), Go harness harness/c18 (workflow generator and CUE rendering, instrumented RunnerFunc, scheduler, canonical comparison of Controller.Value() with initial & results)",
]


def parse_flow_case(c):
    parts = c.split("|")
    n = int(parts[0].split()[1])
    labels = parts[2].split()
    return n, parts[1].strip(), labels


def coq_wf(spec):
    tasks = []
    for ent in spec.split(";"):
        _, ds, tr = ent.strip().split(":")
        deps = []
        if ds not in ("-", ""):
            for d in ds.split(","):
                if "@" in d:
                    a, b = d.split("@")
                    deps.append("(%s, Some %s)" % (a, b))
                else:
                    deps.append("(%s, None)" % d)
        tasks.append("mkTask [%s] %s" % ("; ".join(deps), "None" if tr in ("-", "") else "(Some %s)" % tr))
    return "[" + "; ".join(tasks) + "]"


def coq_labels(labels):
    out = []
    for l in labels:
        if l == "X":
            out.append("Cancel")
        elif l[0] == "D":
            out.append("Dispatch %s" % l[1:])
        else:
            out.append("Complete %s %s" % (l[1:-1], "true" if l[-1] == "+" else "false"))
    return "[" + "; ".join(out) + "]"


def vm_crosscheck(ctx, exe, cases):
    """Guard the extraction and the OCaml driver: the same acceptance questions are
    answered by the extracted model and by vm_compute inside Coq."""
    flows = [c for c in cases if c.startswith("FLOW ")]
    step = max(1, len(flows) // 14)
    qs = []
    for c in flows[::step][:14]:
        n, spec, labels = parse_flow_case(c)
        variants = [labels]
        if len(labels) >= 2:
            variants.append([labels[1], labels[0]] + labels[2:])
            variants.append(labels[1:])
            variants.append(labels[:-2] + [labels[-1], labels[-2]])
        for v in variants:
            qs.append((n, spec, v))
    lines = ["ACC %d | %s | %s" % (n, spec, " ".join(v)) for n, spec, v in qs]
    p = vlib.run([exe], input="\n".join(lines) + "\n", timeout=600, stderr=None)
    ml = [x == "acc=1" for x in p.stdout.split("\n")[:-1]]
    vf = os.path.join(ctx.work, "c18_vm.v")
    with open(vf, "w") as f:
        f.write("From Verif Require Import Flow.Model Extract.C18.\nFrom Coq Require Import List.\nImport ListNotations.\n")
        f.write("Eval vm_compute in [\n  " + ";\n  ".join(
            "c18_accepts %s %s" % (coq_wf(spec), coq_labels(v)) for _, spec, v in qs) + "].\n")
    with vlib.Lock("coq"):
        q = vlib.run(["timeout", "600", "coqc", "-Q", os.path.join(vlib.COQ, "theories"), "Verif",
                      "-o", os.path.join(ctx.work, "c18_vm.vo"), vf], cwd=ctx.work, check=False)
    if q.returncode != 0:
        raise vlib.CheckFailure("vm_compute cross-check failed to compile:\n" + q.stdout[-3000:])
    mm = re.search(r"=\s*\[(.*?)\]\s*:\s*list bool", q.stdout, re.S)
    vm = [t == "true" for t in re.findall(r"\b(true|false)\b", mm.group(1))] if mm else []
    if len(vm) != len(ml) or vm != ml:
        raise vlib.CheckFailure("extracted model and vm_compute disagree: ocaml=%s vm=%s" % (ml, vm))
    return {"questions": len(qs), "accepted": sum(ml), "rejected": len(ml) - sum(ml)}


def run(ctx):
    quick = ctx.tier == "quick"
    proof = vlib.prove("C18", extra_targets=["theories/Extract/C18.vo"])
    if not quick:
        proof.update(vlib.coqchk("C18"))
        if proof["coqchk_rc"] != 0:
            raise vlib.CheckFailure("coqchk failed: " + proof["coqchk_tail"])
    exe = vlib.build_model("C18", "extract/C18.v", "ocaml/c18_driver.ml")
    shims = dict(SHIMS)
    # Mutation testing without touching /repo (other checks may be running against it):
    # VERIF_C18_EXTRA_OVERLAY='{"tools/flow/run.go": "/tmp/.../run.go"}' replaces files of the
    # working tree in the overlay of the harness build.  Unset in normal operation.
    extra = os.environ.get("VERIF_C18_EXTRA_OVERLAY")
    if extra:
        shims.update(json.loads(extra))
    harness, hsecs = vlib.build_harness("c18", shims=shims)
    gen = (["--nflow", "1500", "--reps", "4", "--ncyc", "8000", "--exhaustive", "20"] if quick else
           ["--nflow", "8000", "--reps", "6", "--ncyc", "200000", "--exhaustive", "400", "--max-orders", "800"])
    args = [harness, "--seed", str(ctx.seed), "--out", ctx.work] + gen
    if ctx.replay:
        rp = json.load(open(ctx.replay))
        case = rp.get("case", "")
        if case.startswith("CYC"):
            args = [harness, "--out", ctx.work, "--cyc-line", case]
        elif case.startswith("FLOW") and "job" in rp:
            # regenerate the same (workflow, schedule) stream and re-run that job with
            # the recorded completion order
            args = [harness, "--seed", str(rp.get("seed", ctx.seed)), "--out", ctx.work] + rp.get("gen_args", gen) + \
                   ["--only", str(rp["job"]), "--script", " ".join(l for l in parse_flow_case(case)[2] if l[0] != "D")]
        else:
            raise vlib.CheckFailure("replay file has no replayable case")
    vlib.run(args, timeout=3000)
    cases = open(os.path.join(ctx.work, "cases.txt")).read().split("\n")[:-1]
    impl = open(os.path.join(ctx.work, "impl.txt")).read().split("\n")[:-1]
    p = vlib.run([exe], input="\n".join(cases) + "\n", timeout=3000, stderr=None)
    model = p.stdout.split("\n")[:-1]
    if not (len(cases) == len(impl) == len(model)):
        raise vlib.CheckFailure("line count mismatch cases=%d impl=%d model=%d" % (len(cases), len(impl), len(model)))
    stats = {}
    sp = os.path.join(ctx.work, "stats.json")
    if os.path.exists(sp):
        stats = json.load(open(sp))
    cue_of = {}
    cp = os.path.join(ctx.work, "cue.txt")
    if os.path.exists(cp):
        for line in open(cp):
            k, _, v = line.rstrip("\n").partition("\t")
            cue_of[k] = v.replace("\\n", "\n")
    vm = vm_crosscheck(ctx, exe, cases) if not ctx.replay else {}
    # the first nflow*reps case lines are the randomly scheduled jobs, in job order
    nrandom = int(gen[1]) * int(gen[3])
    kinds = collections.Counter()
    ends = collections.Counter()
    sizes = collections.Counter()
    distinct = set()
    nontrivial = 0
    traces = 0
    mismatches = 0
    samples = []
    cfg_traces = collections.Counter()
    for idx, (c, i, m) in enumerate(zip(cases, impl, model)):
        k = c.split(" ", 1)[0]
        kinds[k] += 1
        if k == "FLOW":
            n, spec, labels = parse_flow_case(c)
            sizes[n] += 1
            mm = re.search(r"END:(\w+)", i)
            ends[mm.group(1) if mm else "none"] += 1
            if i == m:
                traces += 1
        if k in ("FLOWC", "FLOWX"):
            # configuration-driven cases: the model DISCOVERS tasks and dependencies (Flow/Discover.v)
            if i == m:
                cfg_traces[k] += 1
        if k == "SKIP":
            continue
        if c not in distinct:
            distinct.add(c)
            if k == "FLOW":
                # non-trivial: at least 3 tasks, at least one dependency, at least 4 events
                if n >= 3 and re.search(r":\d", spec) and len(labels) >= 4:
                    nontrivial += 1
            elif k == "CYC":
                if int(c.split()[1]) >= 3 and "," in c:
                    nontrivial += 1
        if len(samples) < 3 and k == "FLOW" and len(c) < 300 and idx % 211 == 7:
            samples.append({"case": c, "impl": i, "model": m})
        if i != m:
            mismatches += 1
            if mismatches <= 5:
                if k == "CYC":
                    what = "checkCycle (tools/flow/cycle.go) disagrees with the model proved to report an error iff the dependency graph has a cycle (C18_check_cycle_correct)"
                else:
                    what = ("the event trace of tools/flow (dispatches, completions, task states and dependency sets after every update, "
                            "results visible at dispatch, outcome of Run, final Controller.Value()) is not the one the model produces for the same "
                            "completion order; END:timeout = deadlock, VAL:neq = final configuration != initial & results, REJECT = the controller "
                            "did something the model does not allow (e.g. started a task that is not Ready)")
                payload = {"kind": "impl-differs-from-proved-model", "case": c, "impl": i, "model": m,
                           "cue": cue_of.get(str(idx), ""), "what": what, "seed": ctx.seed, "gen_args": gen,
                           "replay": "bin/check C18 --replay <this file>"}
                if k == "FLOW" and idx < nrandom and not ctx.replay:
                    payload["job"] = idx
                ctx.violation(payload)
    if not samples and cases:
        samples.append({"case": cases[0][:400], "impl": impl[0][:400], "model": model[0][:400]})
    ctx.coverage.update({
        "obligations": proof["obligations"],
        "discharged": proof["discharged"],
        "checker_cmd": proof["checker_cmd"] + ("; coqchk -silent -o Verif.Properties.C18" if not quick else ""),
        "trusted_base": TRUSTED,
        "theorems": proof["theorems"],
        "axioms_reported": proof["axioms"],
        "audit_files": proof["audit_files"],
        "evaluations": len(cases),
        "distinct_nontrivial": nontrivial,
        "rule": "FLOW cases: generated workflows of 2-10 tasks (chains, diamonds, fan-in, fan-out, random DAGs, DAGs with late tasks spawned by a completed task, cyclic graphs, graphs whose cycle only closes once a late task exists) rendered to CUE with 7 reference forms (task root, output field, nested output field, intermediate non-task field inside/outside root, string interpolation, nested field of the dependant, comprehension over a group of late tasks), each run under several PRNG-chosen completion orders with/without one injected failure (error or ErrAbort) or a cancellation, plus all completion orders of small DAGs; CYC cases: random graphs of 0-14 nodes (DAGs, sparse/dense cyclic, self loops, duplicate edges) given directly to checkCycle; WFQ cases: the hypotheses of the theorems evaluated on every generated workflow by Go and by the model. Invalid/hostile stream: cyclic and late-cyclic workflows (20% of the workflows; Run must report, not deadlock), failing / aborting / cancelled runs (about 35% of the schedules), perturbed mostly non-executable label sequences in the vm_compute cross-check. non-trivial: FLOW >= 3 tasks, >= 1 dependency, >= 4 events; CYC >= 3 nodes and a task with >= 2 dependencies; counted over distinct case lines",
        "samples": samples,
        "case_kinds": dict(kinds),
        "flow_outcomes": dict(ends),
        "flow_sizes": {str(k): v for k, v in sorted(sizes.items())},
        "generator_stats": stats,
        "vm_compute_crosscheck": vm,
        "traces_validated_against_impl": traces,
        "config_driven_traces_validated_against_impl": dict(cfg_traces),
        "mismatches": mismatches,
        "harness_build_s": hsecs,
        "proof": {k: v for k, v in proof.items() if k.startswith("coqchk") or k in ("make_s",)},
    })
    ctx.assumptions.extend(TRUSTED)


MANIFEST = {
    "category": "proof",
    "text": "Coq theorems over ALL executions (any completion order, any outcomes, cancellation) of an executable, implementation-faithful model of tools/flow's controller (runLoop, markReady, updateValue, updateTaskValue, updateTaskResults, the task bookkeeping of initTasks/getTask/addDep, checkCycle): a task is dispatched only after every task it refers to (late references included) completed successfully, and it sees a configuration containing all results so far; every task is dispatched and completes at most once; in an acyclic workflow without failure no state is stuck before all tasks ran (a measure drops by one per event, exactly 2*|tasks| events); after a failure or cancellation nothing starts and transitive dependants of a failed task never start; the deadlock branch is unreachable for every workflow because checkCycle reports an error iff the dependency graph has a cycle (fuel always sufficient); the merged results are exactly the successful completions, so the final configuration does not depend on completion order. The model is tied to /repo by replaying, for generated workflows compiled to CUE and PRNG-chosen / exhaustively enumerated completion orders with injected failures and cancellations, the observed event trace (task states and Task.Dependencies() after every update, dependency results visible at dispatch, outcome of Run, Controller.Value() == initial & results) through the extracted model with the generator's ground-truth dependency graph; timeouts count as deadlock. Extension: the dependency discovery of tasks.go (findRootTasks/getTask/tagChildren/findImpliedTask/markTaskDependencies with dep.Recurse and the cycle marker) is modelled for task-graph configurations (references into tasks and sub-fields, through non-task fields, to enclosing structs containing tasks, into tasks that appear after a Fill); proved: everything discovered is justified by a reference chain, the workflow of a run (wf_of_run) reproduces exactly the accumulated discoveries, hence dispatch-after-discovered-dependencies for configurations; tied by FLOWC/FLOWX cases in which the model gets only the configuration.",
    "note": "Trusted: Coq kernel; the hand-written model of run.go/cycle.go and of the bookkeeping part of tasks.go; the generator's ground-truth dependency rules standing for tasks.go markTaskDependencies + internal/core/dep (compared with Task.Dependencies() on every update, not proved); extraction (ExtrOcamlBasic, guarded by a vm_compute cross-check) and the OCaml/Go drivers. Not modelled: Service/deferred tasks and ForkRunLoop, InferTasks, IgnoreConcrete, tasks that vanish from the configuration, tasks that do not Fill, UpdateFunc errors; final_config_order_free is about the multiset of merged results (order-insensitivity of unification itself is C01). Side conditions wf_known/wf_trig/wf_closed/acyclic are decidable and evaluated on every generated workflow.",
    "technique": "Coq proof (14-clause invariant preserved by every step, induction over executions, pigeonhole argument for deadlock freedom, correctness of the fuelled on-stack DFS) + extracted-model trace acceptance against tools/flow under controlled completion orders",
}
