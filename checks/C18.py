"""C18 - workflow tasks run once, after everything they depend on, under every schedule."""
import collections
import json
import os
import re
import vlib

LEVEL = "proof"

SHIMS = {"tools/flow/export_verif.go": "harness/c18/shims/flow_export.go.txt"}

TRUSTED = [
    "Coq 8.16.1 kernel; no axioms (Print Assumptions: closed under the global context)",
    "hand-written Gallina model of tools/flow run.go (runLoop, markReady, updateValue, updateTaskValue, updateTaskResults), the part of tasks.go the run loop depends on (initTasks/getTask/addDep: task discovery, dependency accumulation, value refresh) and cycle.go (checkCycle/isCyclic), at the granularity of one step per dispatch / completion / cancellation",
    "the dependency analysis itself (tasks.go markTaskDependencies + internal/core/dep) is NOT modelled: the generator's ground-truth dependency graph stands for it, and the correspondence compares Task.Dependencies() with that ground truth after every controller update",
    "correspondence: extracted OCaml model (ExtrOcamlBasic only; nat kept as Coq datatype) replays the observed label sequence and must reproduce every observation; Go harness built from /repo working tree via go build -overlay (shim tools/flow/export_verif.go re-exports checkCycle and the cycleError test)",
    "OCaml driver ocaml/c18_driver.ml (parsing, sorting of printed sets), Go harness harness/c18 (workflow generator and CUE rendering, instrumented RunnerFunc, scheduler, canonical comparison of Controller.Value() with initial & results)",
]


def parse_flow_case(c):
    parts = c.split("|")
    n = int(parts[0].split()[1])
    labels = parts[2].split()
    return n, parts[1].strip(), labels


def run(ctx):
    quick = ctx.tier == "quick"
    proof = vlib.prove("C18", extra_targets=["theories/Extract/C18.vo"])
    if not quick:
        proof.update(vlib.coqchk("C18"))
        if proof["coqchk_rc"] != 0:
            raise vlib.CheckFailure("coqchk failed: " + proof["coqchk_tail"])
    exe = vlib.build_model("C18", "extract/C18.v", "ocaml/c18_driver.ml")
    harness, hsecs = vlib.build_harness("c18", shims=SHIMS)
    args = [harness, "--seed", str(ctx.seed), "--out", ctx.work]
    if ctx.replay:
        rp = json.load(open(ctx.replay))
        cf = os.path.join(ctx.work, "replay_cases.txt")
        with open(cf, "w") as f:
            f.write(rp.get("case", "") + "\n")
            f.write(rp.get("cue", "").replace("\n", "\\n") + "\n")
        args += ["--replay-cases", cf]
    elif quick:
        args += ["--nflow", "700", "--reps", "4", "--ncyc", "6000", "--exhaustive", "12"]
    else:
        args += ["--nflow", "6000", "--reps", "6", "--ncyc", "200000", "--exhaustive", "400"]
    vlib.run(args, timeout=3000)
    cases = open(os.path.join(ctx.work, "cases.txt")).read().split("\n")[:-1]
    impl = open(os.path.join(ctx.work, "impl.txt")).read().split("\n")[:-1]
    p = vlib.run([exe], input="\n".join(cases) + "\n", timeout=3000, stderr=None)
    model = p.stdout.split("\n")[:-1]
    if not (len(cases) == len(impl) == len(model)):
        raise vlib.CheckFailure("line count mismatch cases=%d impl=%d model=%d" % (len(cases), len(impl), len(model)))
    stats = {}
    sp = os.path.join(ctx.work, "stats.json")
    if os.path.exists(sp):
        stats = json.load(open(sp))
    cue_of = {}
    cp = os.path.join(ctx.work, "cue.txt")
    if os.path.exists(cp):
        for line in open(cp):
            k, _, v = line.rstrip("\n").partition("\t")
            cue_of[k] = v.replace("\\n", "\n")
    kinds = collections.Counter()
    ends = collections.Counter()
    sizes = collections.Counter()
    distinct = set()
    nontrivial = 0
    traces = 0
    mismatches = 0
    samples = []
    for idx, (c, i, m) in enumerate(zip(cases, impl, model)):
        k = c.split(" ", 1)[0]
        kinds[k] += 1
        if k == "FLOW":
            n, spec, labels = parse_flow_case(c)
            sizes[n] += 1
            mm = re.search(r"END:(\w+)", i)
            ends[mm.group(1) if mm else "none"] += 1
            if i == m:
                traces += 1
        if c not in distinct:
            distinct.add(c)
            if k == "FLOW":
                # non-trivial: at least 3 tasks, at least one dependency, at least 4 events
                if n >= 3 and re.search(r":\d", spec) and len(labels) >= 4:
                    nontrivial += 1
            elif k == "CYC":
                if int(c.split()[1]) >= 3 and "," in c:
                    nontrivial += 1
        if len(samples) < 3 and k == "FLOW" and len(c) < 300 and idx % 211 == 7:
            samples.append({"case": c, "impl": i, "model": m})
        if i != m:
            mismatches += 1
            if mismatches <= 5:
                if k == "CYC":
                    what = "checkCycle (tools/flow/cycle.go) disagrees with the model proved to report an error iff the dependency graph has a cycle (C18_check_cycle_correct)"
                else:
                    what = ("the event trace of tools/flow (dispatches, completions, task states and dependency sets after every update, "
                            "results visible at dispatch, outcome of Run, final Controller.Value()) is not the one the model produces for the same "
                            "completion order; END:timeout = deadlock, VAL:neq = final configuration != initial & results, REJECT = the controller "
                            "did something the model does not allow (e.g. started a task that is not Ready)")
                ctx.violation({"kind": "impl-differs-from-proved-model", "case": c, "impl": i, "model": m,
                               "cue": cue_of.get(str(idx), ""), "what": what,
                               "replay": "bin/check C18 --replay <this file>"})
    if not samples and cases:
        samples.append({"case": cases[0][:400], "impl": impl[0][:400], "model": model[0][:400]})
    ctx.coverage.update({
        "obligations": proof["obligations"],
        "discharged": proof["discharged"],
        "checker_cmd": proof["checker_cmd"] + ("; coqchk -silent -o Verif.Properties.C18" if not quick else ""),
        "trusted_base": TRUSTED,
        "theorems": proof["theorems"],
        "axioms_reported": proof["axioms"],
        "audit_files": proof["audit_files"],
        "evaluations": len(cases),
        "distinct_nontrivial": nontrivial,
        "rule": "FLOW cases: generated workflows of 2-10 tasks (chains, diamonds, fan-in, fan-out, random DAGs, DAGs with late tasks spawned by a completed task, cyclic graphs, graphs whose cycle only closes once a late task exists) rendered to CUE with 7 reference forms (task root, output field, nested output field, intermediate non-task field inside/outside root, string interpolation, nested field of the dependant, comprehension over a group of late tasks), each run under several PRNG-chosen completion orders with/without one injected failure (error or ErrAbort) or a cancellation, plus all completion orders of small DAGs; CYC cases: random graphs of 0-14 nodes given directly to checkCycle. non-trivial: FLOW >= 3 tasks, >= 1 dependency, >= 4 events; CYC >= 3 nodes and a task with >= 2 dependencies; counted over distinct case lines",
        "samples": samples,
        "case_kinds": dict(kinds),
        "flow_outcomes": dict(ends),
        "flow_sizes": {str(k): v for k, v in sorted(sizes.items())},
        "generator_stats": stats,
        "traces_validated_against_impl": traces,
        "mismatches": mismatches,
        "harness_build_s": hsecs,
        "proof": {k: v for k, v in proof.items() if k.startswith("coqchk") or k in ("make_s",)},
    })
    ctx.assumptions.extend(TRUSTED)


MANIFEST = {
    "category": "proof",
    "text": "TODO",
    "note": "TODO",
    "technique": "Coq proof (invariants over all executions of the controller state machine; correctness of the cycle checker) + extracted-model trace acceptance against tools/flow under PRNG-chosen and exhaustively enumerated completion orders",
}
