"""C10 - JSON in and out agrees with the JSON standard and round-trips exactly."""
import json
import os
import re

import vlib

LEVEL = "proof"

TRUSTED = [
    "Coq 8.16.1 kernel; no axioms (Print Assumptions: closed under the global context)",
    "hand-written Gallina models: RFC 8259 reader/printer (Json/Model.v), transcriptions of cue/literal/string.go Unquote "
    "(single-line double-quoted form), cue/literal/num.go ParseNum, apd SetString/Neg/Append('G') and Go encoding/json "
    "appendString (Json/Cue.v, Json/Model.v; apd and encoding/json are third-party code, modelled and validated by the "
    "correspondence only), duplicate-member unification (Json/Data.v)",
    "extraction (ExtrOcamlBasic only, N/Z/positive/nat kept as Coq datatypes, no Extract Constant), ocaml/c10_driver.ml "
    "(hex/canon printing), a vm_compute sub-sample re-evaluated inside Coq",
    "Go harness harness/c10 (document/value generators, walk of cue.Value to canonical data, encoding/json token walk)",
    "the CUE scanner/parser/evaluator between json.Extract and the walked value are not modelled: covered by the tie only",
]

NUM_RE = re.compile(r"#([id])(-?)(\d+)e(-?\d+)")

KF = {
    "lone": "F6: a JSON string with an unpaired surrogate escape (e.g. \"\\ud800\") is valid JSON (encoding/json: U+FFFD) but is rejected by cue (literal.Unquote: unmatched surrogate pair)",
    "bom": "C10-raw-bom: a JSON string containing a raw U+FEFF is rejected by cue (scanner: illegal byte order mark); Value.MarshalJSON emits U+FEFF raw, so cue cannot read back its own output",
    "exp": "C10-exponent-range-rejected: JSON numbers whose exponent (or adjusted exponent) leaves [-100000,100000] (1e100001, 1e2147483648) are valid JSON (RFC 8259 lets an implementation limit the range) but are rejected by cue: literal.NumInfo.decimal reports apd's exponent-out-of-range error",
    "nfc": "C10-nfc-names: member names that need quoting in CUE are NFC-normalised by the compiler ({\"e\\u0301\":1} reads back with the name U+00E9); names are not preserved byte for byte",
    "qq": "C10-leading-quotes: a JSON string value that starts with two double quotes is re-quoted by PatchExpr as #\"\"\"...\"# (literal.String.WithOptionalHashes), which reads as a multi-line opener: the valid document is rejected",
    "dup": "C10-duplicate-names: objects with a repeated member name are unified instead of last-wins: {\"a\":1,\"a\":2} is rejected, {\"a\":{\"b\":1},\"a\":{\"c\":2}} reads as {\"a\":{\"b\":1,\"c\":2}}",
}


def norm(canon, keep_kind=False):
    """normalise numbers of a canon text to their value (strip trailing zeros of the coefficient)"""
    def f(m):
        kind, sign, c, e = m.group(1), m.group(2), int(m.group(3)), int(m.group(4))
        if c == 0:
            return "#" + (kind if keep_kind else "") + "0"
        while c % 10 == 0:
            c //= 10
            e += 1
        return "#%s%s%de%d" % (kind if keep_kind else "", sign, c, e)
    return NUM_RE.sub(f, canon)


def kinds_compatible(truth, got):
    """int stays int; float stays float unless its exponent is exactly 0 (apd 'G' then prints the bare coefficient)"""
    a = NUM_RE.findall(truth)
    b = NUM_RE.findall(got)
    if len(a) != len(b):
        return False
    for (ka, _, _, ea), (kb, _, _, _) in zip(a, b):
        if ka == "i" and kb != "i":
            return False
        if ka == "d" and kb != "d" and int(ea) != 0:
            return False
    return True


STRTOK_RE = re.compile(rb'"(?:[^"\\]|\\.)*"', re.S)
KEY_RE = re.compile(r"k([0-9a-f]*):")
QQ_RE = re.compile(r"(?:^|[\[,:{])[sk]2222")


def apply_nfc(canon, table):
    """apply the harness-supplied NFC oracle (names that need quoting in CUE) to the member names of a canon text"""
    if table == "-" or canon == "REJECT":
        return canon
    tbl = {}
    for ent in table.split(";"):
        a, b = ent.split(":")
        tbl["" if a == "-" else a] = "" if b == "-" else b
    return KEY_RE.sub(lambda m: "k%s:" % tbl.get(m.group(1), m.group(1)), canon)


def fields(line):
    d = {}
    for tok in line.split(" "):
        if "=" in tok:
            k, v = tok.split("=", 1)
            d[k] = v
    return d


def unhex(h):
    return b"" if h == "-" else bytes.fromhex(h)


def is_utf8(b):
    try:
        b.decode("utf-8")
        return True
    except UnicodeDecodeError:
        return False


# ---- canon -> Coq term (for the vm_compute cross-check)
def coq_bytes(b):
    return "[" + ";".join(str(x) for x in b) + "]"


def coq_cps(hexs):
    s = bytes.fromhex(hexs).decode("utf-8") if hexs else ""
    return "[" + ";".join(str(ord(c)) for c in s) + "]"


class CanonParser:
    def __init__(self, s):
        self.s = s
        self.i = 0

    def hexrun(self):
        j = self.i
        while j < len(self.s) and self.s[j] in "0123456789abcdef":
            j += 1
        h = self.s[self.i:j]
        self.i = j
        return h

    def value(self):
        c = self.s[self.i]
        if c == "n":
            self.i += 1
            return "DNull"
        if c in "tf":
            self.i += 1
            return "(DBool %s)" % ("true" if c == "t" else "false")
        if c == "#":
            if self.s[self.i + 1] == "N":
                raise ValueError("NaN")
            m = NUM_RE.match(self.s, self.i)
            self.i = m.end()
            kind, sign, co, e = m.groups()
            return "(DNum %s {| dneg := %s; dcoeff := %s%%N; dexp := (%s)%%Z |})" % (
                "true" if kind == "i" else "false", "true" if sign else "false", co, e)
        if c == "s":
            self.i += 1
            return "(DStr %s)" % coq_cps(self.hexrun())
        if c == "[":
            self.i += 1
            parts = []
            while self.s[self.i] != "]":
                if self.s[self.i] == ",":
                    self.i += 1
                parts.append(self.value())
            self.i += 1
            return "(DList [" + ";".join(parts) + "])"
        if c == "{":
            self.i += 1
            parts = []
            while self.s[self.i] != "}":
                if self.s[self.i] == ",":
                    self.i += 1
                assert self.s[self.i] == "k"
                self.i += 1
                k = coq_cps(self.hexrun())
                assert self.s[self.i] == ":"
                self.i += 1
                parts.append("(%s, %s)" % (k, self.value()))
            self.i += 1
            return "(DObj [" + ";".join(parts) + "])"
        raise ValueError("canon " + self.s[self.i:self.i + 20])


def canon_to_coq(c):
    if c == "REJECT":
        return "None"
    return "(Some %s)" % CanonParser(c).value()


def vm_crosscheck(ctx, picks):
    """re-evaluate a sub-sample of DEC cases with vm_compute inside Coq and compare with the extracted model"""
    if not picks:
        return 0
    lines = ["From Verif Require Import Json.Model Json.Cue Json.Data Extract.C10.",
             "Open Scope N_scope."]
    n = 0
    for doc, cue, spec in picks:
        try:
            tc, ts = canon_to_coq(cue), canon_to_coq(spec)
        except ValueError:
            continue
        lines.append("Goal option_map c10_norm (c10_cue_decode %s) = %s /\\ option_map c10_norm (c10_spec_decode %s) = %s. Proof. vm_compute. split; reflexivity. Qed."
                     % (coq_bytes(doc), tc, coq_bytes(doc), ts))
        n += 1
    p = os.path.join(ctx.work, "crosscheck.v")
    with open(p, "w") as f:
        f.write("\n".join(lines) + "\n")
    # reads compiled .vo files of this property only: no need for the shared build lock
    r = vlib.run(["timeout", "600", "coqc", "-Q", os.path.join(vlib.COQ, "theories"), "Verif", p], cwd=ctx.work, check=False)
    if r.returncode != 0:
        raise vlib.CheckFailure("vm_compute cross-check of the extracted model failed:\n" + r.stdout[-3000:])
    return n


def run(ctx):
    import time
    quick = ctx.tier == "quick"
    tm = {}
    t0 = time.time()

    def lap(name):
        nonlocal t0
        tm[name] = round(time.time() - t0, 1)
        t0 = time.time()
    proof = vlib.prove("C10", extra_targets=["theories/Extract/C10.vo"])
    lap("prove")
    if not quick:
        proof.update(vlib.coqchk("C10"))
        if proof["coqchk_rc"] != 0:
            raise vlib.CheckFailure("coqchk failed: " + proof["coqchk_tail"])
    exe = vlib.build_model("C10", "extract/C10.v", "ocaml/c10_driver.ml")
    lap("build_model")
    harness, hsecs = vlib.build_harness("c10")
    lap("build_harness")
    args = [harness, "--seed", str(ctx.seed), "--out", ctx.work,
            "--corpus", os.path.join(vlib.VERIF, "corpus", "C10", "docs.txt")]
    if ctx.replay:
        rp = json.load(open(ctx.replay))
        cf = os.path.join(ctx.work, "replay_cases.txt")
        with open(cf, "w") as f:
            f.write(rp.get("case", "") + "\n")
        args += ["--replay-cases", cf, "--extra", "1"]
    elif quick:
        args += ["--ndoc", "5000", "--nmut", "5000", "--nval", "3000", "--nstr", "4000", "--nnum", "4000",
                 "--nfmt", "3000", "--nesc", "3000"]
    else:
        args += ["--ndoc", "60000", "--nmut", "60000", "--nval", "30000", "--nstr", "40000", "--nnum", "40000",
                 "--nfmt", "30000", "--nesc", "30000"]
    vlib.run(args, timeout=3000)
    lap("harness_run")
    cases = open(os.path.join(ctx.work, "cases.txt")).read().split("\n")[:-1]
    impl = open(os.path.join(ctx.work, "impl.txt")).read().split("\n")[:-1]
    p = vlib.run([exe], input="\n".join(cases) + "\n", timeout=3000, stderr=None)
    model = p.stdout.split("\n")[:-1]
    lap("model_run")
    if not (len(cases) == len(impl) == len(model)):
        raise vlib.CheckFailure("line count mismatch cases=%d impl=%d model=%d" % (len(cases), len(impl), len(model)))

    kinds = {}
    classes = {}
    stats = {"dec_valid_accepted": 0, "dec_invalid_rejected_by_both": 0, "dec_invalid_utf8_rejected_by_both": 0,
             "dec_spec_eq_cue": 0, "enc_checked": 0, "remarshal_checked": 0, "str_other": 0,
             "dec_max_depth": 0, "dec_bytes": 0, "known_finding_cases": {k: 0 for k in KF}}
    distinct = set()
    nontrivial = 0
    mismatches = 0
    samples = []
    picks = []

    def bad(what, c, i, m, **extra):
        nonlocal mismatches
        mismatches += 1
        if mismatches <= 6:
            payload = {"kind": "impl-differs-from-model-or-property", "what": what, "case": c, "impl": i, "model": m,
                       "replay": "bin/check C10 --replay <this file>"}
            payload.update(extra)
            ctx.violation(payload)

    def known(cls):
        stats["known_finding_cases"][cls] += 1
        ctx.known_finding(KF[cls])

    for idx, (c, i, m) in enumerate(zip(cases, impl, model)):
        parts = c.split(" ")
        k = parts[0]
        kinds[k] = kinds.get(k, 0) + 1
        fresh = c not in distinct
        distinct.add(c)
        if k == "DEC":
            doc = unhex(parts[1])
            cls = parts[2] if len(parts) > 2 else "?"
            classes[cls] = classes.get(cls, 0) + 1
            fi, fm = fields(i), fields(m)
            valid = fi["valid"] == "1"
            u8 = is_utf8(doc)
            stats["dec_bytes"] += len(doc)
            depth = 0
            dmax = 0
            for ch in doc:
                if ch in (0x5b, 0x7b):
                    depth += 1
                    dmax = max(dmax, depth)
                elif ch in (0x5d, 0x7d):
                    depth -= 1
            stats["dec_max_depth"] = max(stats["dec_max_depth"], dmax)
            # F14: a string value starting with two quotes is rejected (quote.go form selection is not in the Impl model)
            if fi["cue"] == "REJECT" and fm["cue"] != "REJECT" and QQ_RE.search(fm["spec"]):
                known("qq")
                continue
            # F13: NFC normalisation of string labels is applied here from the per-case oracle
            raw_model_cue = fm["cue"]
            mcue = apply_nfc(fm["cue"], fi.get("nfc", "-"))
            nfc_changed = mcue != fm["cue"]
            fm["cue"] = mcue
            # (a) the implementation is the Impl model
            if fi["cue"] != fm["cue"]:
                bad("json.Extract+BuildExpr (walked value) differs from the Impl model cue_decode", c, i, m,
                    doc=doc.decode("utf-8", "replace"))
                continue
            # (b) validity: invalid documents are rejected by both, valid ones are read by the Spec model like encoding/json
            if not valid:
                if fm["spec"] != "REJECT" or fi["cue"] != "REJECT":
                    bad("a document json.Valid rejects is accepted by cue or by the RFC 8259 model", c, i, m,
                        doc=doc.decode("utf-8", "replace"))
                    continue
                stats["dec_invalid_rejected_by_both"] += 1
            elif not u8:
                if fm["spec"] != "REJECT" or fi["cue"] != "REJECT":
                    bad("a document that is not UTF-8 is accepted", c, i, m)
                    continue
                stats["dec_invalid_utf8_rejected_by_both"] += 1
            else:
                if fm["spec"] == "REJECT" or fm["spec"] != fi["std"]:
                    bad("the RFC 8259 model json_parse and Go encoding/json read a valid document differently", c, i, m,
                        doc=doc.decode("utf-8", "replace"))
                    continue
                # (c) the property: cue reads every valid document as the same data
                if fi["cue"] == fm["spec"]:
                    stats["dec_spec_eq_cue"] += 1
                    stats["dec_valid_accepted"] += 1
                    if fresh and len(doc) >= 12:
                        nontrivial += 1
                else:
                    flags = fm["cls"]
                    found = False
                    if nfc_changed:
                        known("nfc"); found = True
                    if flags != "-":
                        if flags[0] == "0":
                            known("lone"); found = True
                        elif flags[1] == "0":
                            known("bom"); found = True
                        if flags[2] == "1":
                            known("dup"); found = True
                        if flags[3] == "0":
                            known("exp"); found = True
                    if not found:
                        bad("cue reads a valid JSON document differently from the standard and no known class applies",
                            c, i, m, doc=doc.decode("utf-8", "replace"))
                        continue
            if fi["dec"] != "same":
                bad("json.NewDecoder(...).Extract disagrees with json.Extract on the same document", c, i, m)
                continue
            if fi["blt"] == "diff":
                bad("builtin encoding/json.Unmarshal disagrees with json.Extract on the same document", c, i, m)
                continue
            # encoding/json.Validate(doc, _) accepts exactly what Extract+BuildExpr accepts
            # (it does not re-quote strings, so the F14 class passes it)
            val = fi.get("val", "-")
            if val == "PANIC":
                bad("encoding/json.Validate panics on a document", c, i, m, doc=doc.decode("utf-8", "replace"))
                continue
            elif val != "-" and (val == "ok") != (fi["cue"] != "REJECT"):
                bad("encoding/json.Validate(doc, _) disagrees with json.Extract+BuildExpr on acceptance", c, i, m,
                    doc=doc.decode("utf-8", "replace"))
                continue
            if fi["m"] in ("ERR", "PANIC"):
                bad("a decoded document cannot be marshalled", c, i, m)
                continue
            if len(picks) < (25 if quick else 200) and len(doc) < 120 and idx % 37 == 5 and "#N" not in fi["cue"] \
                    and not re.search(r"e-?\d{4,}", fm["cue"] + fm["spec"]):
                picks.append((doc, raw_model_cue, fm["spec"]))
            if len(samples) < 4 and cls == "gen" and 30 < len(doc) < 160 and idx % 53 == 7:
                samples.append({"doc": doc.decode("utf-8", "replace"), "cue": fi["cue"][:300], "model": fm["cue"][:300]})
        elif k == "ENC":
            cls = parts[2]
            truth = parts[3]
            classes["enc-" + cls] = classes.get("enc-" + cls, 0) + 1
            fi, fm = fields(i), fields(m)
            mb = unhex(parts[1]) if parts[1] != "-" else b""
            if fi["walk"] == "REJECT":
                bad("a generated concrete value could not be built/marshalled", c, i, m)
                continue
            nt = norm(truth)
            if norm(fi["walk"]) != nt:
                bad("the built value differs from the generator's ground truth", c, i, m)
                continue
            if norm(fm["spec"]) != nt or not kinds_compatible(truth, fm["spec"]):
                bad("Value.MarshalJSON bytes read by the RFC 8259 model differ from the ground truth (data, key order, number value)",
                    c, i, m, marshalled=mb.decode("utf-8", "replace"))
                continue
            if norm(fi["std"]) != nt or not kinds_compatible(truth, fi["std"]):
                bad("Value.MarshalJSON bytes read by Go encoding/json differ from the ground truth", c, i, m,
                    marshalled=mb.decode("utf-8", "replace"))
                continue
            # escaping: the string literals of the output are exactly what the model of Go's escaper
            # (escapeHTML off) writes for the strings they denote
            if STRTOK_RE.findall(mb) != STRTOK_RE.findall(unhex(fm["re"])):
                bad("string literals in Value.MarshalJSON output are not escaped the way encoding/json with "
                    "SetEscapeHTML(false) escapes them", c, i, m, marshalled=mb.decode("utf-8", "replace"))
                continue
            # cue reading its own output: Impl model on the marshalled bytes, and the round trip itself
            if fi["rt"] == "REJECT" and fm["cue"] != "REJECT" and QQ_RE.search(fm["spec"]):
                known("qq")
                continue
            fm["cue"] = apply_nfc(fm["cue"], fi.get("nfc", "-"))
            if fi["rt"] != fm["cue"]:
                bad("cue reading of marshalled bytes differs from the Impl model", c, i, m)
                continue
            if norm(fi["rt"]) != nt:
                if "\ufeff" in mb.decode("utf-8", "replace") and fi["rt"] == "REJECT":
                    known("bom")
                else:
                    bad("marshal then decode is not the identity on data", c, i, m, marshalled=mb.decode("utf-8", "replace"))
                    continue
            if fi["blt"] == "diff":
                bad("builtin encoding/json.Marshal differs from Value.MarshalJSON", c, i, m)
                continue
            if cls == "value-nfc":
                known("nfc")
            if cls.startswith("value"):
                stats["enc_checked"] += 1
                if fresh and len(mb) >= 12:
                    nontrivial += 1
                if len(samples) < 7 and 30 < len(mb) < 160 and idx % 41 == 3:
                    samples.append({"marshalled": mb.decode("utf-8", "replace"), "truth": truth[:300]})
            else:
                stats["remarshal_checked"] += 1
        elif k == "STR":
            fi, fm = fields(i), fields(m)
            if fm["cue"] == "other":
                stats["str_other"] += 1
            elif fi["cue"] != fm["cue"]:
                bad("literal.Unquote differs from the transcription cue_unquote", c, i, m,
                    literal=unhex(parts[1]).decode("utf-8", "replace"))
                continue
            if fi["json"] != fm["json"]:
                bad("encoding/json string decoding differs from json_unescape", c, i, m,
                    literal=unhex(parts[1]).decode("utf-8", "replace"))
                continue
            if fresh and fi["cue"].startswith("ok:") and len(parts[1]) >= 16:
                nontrivial += 1
        elif k in ("NUM", "FMT", "ESC"):
            if k == "NUM" and i.endswith(" rd=skip"):
                # not a number token for the scanner (sign '+', leading '_' ...): only ParseNum is compared
                i = i[:-len(" rd=skip")]
                m = m[:m.rindex(" rd=")]
            if i != m:
                what = {"NUM": "literal.ParseNum/Decimal (or -x evaluation) differs from parse_num/apd_set_string/cue_read_number",
                        "FMT": "apd Decimal.Text('G') differs from format_G",
                        "ESC": "internal/encoding/json.Marshal(string) differs from go_json_string"}[k]
                bad(what, c, i, m, text=unhex(parts[1]).decode("utf-8", "replace") if k != "FMT" else c)
                continue
            if fresh and k == "NUM" and i.startswith("ok:") and len(parts[1]) >= 8:
                nontrivial += 1
            if fresh and k in ("FMT", "ESC") and len(c) >= 16:
                nontrivial += 1
        else:
            bad("unknown case kind", c, i, m)

    lap("diff")
    nvm = vm_crosscheck(ctx, picks) if not ctx.replay else 0
    lap("vm_crosscheck")

    ctx.coverage.update({
        "obligations": proof["obligations"],
        "discharged": proof["discharged"],
        "checker_cmd": proof["checker_cmd"] + ("; coqchk -silent -o Verif.Properties.C10" if not quick else ""),
        "trusted_base": TRUSTED,
        "theorems": proof["theorems"],
        "axioms_reported": proof["axioms"],
        "audit_files": proof["audit_files"],
        "evaluations": len(cases),
        "distinct_nontrivial": nontrivial,
        "rule": "DEC: JSON documents from a grammar generator covering every RFC 8259 production (all escapes in every spelling, "
                "surrogate pairs, U+2028/9, exponent forms, -0, big exponents, nesting, empty keys, whitespace variants), a fixed "
                "corpus (depth 200, 1e400, known-finding witnesses) and byte/token mutations of both (mostly invalid); ENC: concrete "
                "CUE values from a data generator (and every decoded document re-marshalled); STR/NUM: string and number literal "
                "texts incl. non-JSON CUE forms; FMT: apd decimals; ESC: Go strings incl. invalid UTF-8. non-trivial: distinct "
                "cases where DEC doc is valid, >= 12 bytes and cue == Spec; ENC value with >= 12 marshalled bytes; STR accepted "
                "literal >= 8 bytes; NUM accepted text >= 4 bytes; FMT/ESC any",
        "samples": samples,
        "case_kinds": kinds,
        "input_classes": classes,
        "stats": stats,
        "vm_compute_crosschecked": nvm,
        "mismatches": mismatches,
        "harness_build_s": hsecs,
        "timings_s": tm,
        "proof": {k: v for k, v in proof.items() if k.startswith("coqchk") or k in ("make_s",)},
    })
    ctx.assumptions.extend(TRUSTED)


MANIFEST = {
    "category": "proof",
    "text": "Coq theorems over an executable RFC 8259 model: json_parse (json_print v) = Some v for every well-formed value "
            "(induction with fuel sufficiency; any nesting, duplicate keys, every Unicode scalar string); Go's string escaper "
            "is inverted by the JSON string reader for every scalar string; every JSON string literal without unpaired "
            "surrogate escapes is read by (a transcription of) literal.Unquote as the same string; every JSON number text is "
            "accepted by (a transcription of) literal.ParseNum with the same coefficient/exponent and the int/float rule; apd 'G' "
            "output is a JSON number with the same value; enumerated malformed classes are rejected. The models are tied to /repo "
            "by exact agreement on generated documents (json.Extract+BuildExpr vs Impl model; encoding/json vs Spec model), "
            "marshalled values (model and encoding/json vs generator truth), and literal-level cases.",
    "note": "partial: the CUE scanner/parser/evaluator between the JSON text and the value are covered by the correspondence only. "
            "Known findings F6 (unpaired surrogate escapes rejected), C10-raw-bom (raw U+FEFF in strings rejected; cue cannot read "
            "back its own output), C10-exponent-range-rejected (numbers beyond apd's exponent range are rejected), C10-duplicate-names "
            "(repeated member names unified), C10-nfc-names (quoted member names NFC-normalised), C10-leading-quotes (strings "
            "starting with two quotes rejected). "
            "Trusted: Coq kernel, hand-written models (apd and encoding/json string escaping are third-party, modelled), extraction, "
            "OCaml/Go drivers.",
    "technique": "Coq proof (structural induction with explicit fuel; codec inversion) + extracted-model differential check with "
                 "Spec/Impl layers",
}
