"""C19 - values are immutable: concurrent use gives sequential answers, no data races.

PARTIAL.  Proof part: Coq theorems about the logic of the shared state behind the
immutable facade (label index getKey/IndexToString, par.Cache.Do), tied to the code
by checking observed concurrent histories of the real functions with the extracted
models.  The decisive runtime part - absence of data races, and every API call on a
shared cue.Value returning its sequential answer - cannot be a theorem; it is EXPLORED
here under the Go race detector and reported as exploration, with counts."""
import collections
import json
import os
import re
import subprocess
import time
import vlib

LEVEL = "proof"

SHIMS = {"internal/core/runtime/export_verif_c19.go": "harness/c19/shims/runtime_export.go.txt"}

TRUSTED = [
    "Coq 8.16.1 kernel; no axioms (Print Assumptions: closed under the global context); vm_compute only in the two 'necessary' witnesses and the examples",
    "hand-written Gallina models: internal/core/runtime/index.go getKey/IndexToString at lock-section granularity (labelMap and labels both modelled), internal/par/work.go Cache.Do with one step per shared-memory operation (sync.Map Load/LoadOrStore assumed atomic, one entry per key; sync.Mutex as a holder field)",
    "the lock sections are ASSUMED atomic (that is what sync.RWMutex / sync.Mutex provide when used as written); whether the Go code really takes the locks it needs is not a theorem - the race detector exploration looks at it",
    "correspondence: observed histories of the real functions (many goroutines, overlapping strings/keys, spin barriers) are accepted by the extracted executable checkers check_history / check_once (proved complete for the machines: C19_index_history_accepted, C19_once_history_accepted, and sound: C19_check_history_sound); sequential getKey calls agree exactly with get_key on a snapshot of the real table; re-export shim internal/core/runtime/export_verif_c19.go (getKey, snapshot of labels/labelMap under RLock)",
    "extraction (ExtrOcamlBasic only; nat/N kept as Coq datatypes), OCaml driver ocaml/c19_driver.ml, cross-checked against vm_compute on generated machine runs and histories",
    "EXPLORATION, not proof: Go race detector (-race build, GORACE=halt_on_error=0) on generated CUE programs and PRNG-chosen multisets of cue.Value API calls from 2-16 goroutines; the sequential baseline is computed by the same API on fresh copies (forward and reverse order); harness/c19 generators and canonicalisation (text of Syntax via cue/format, error CLASS only)",
]

KNOWN_RACES = [
    {"id": "F10",
     "match": lambda rep: "slices.SortStableFunc" in rep and "internal/core/export.(*exporter).value" in rep,
     "text": ("data race on the UNCHANGED tree [finding F10]: internal/core/export/value.go (*exporter).value sorts the "
              "Values slice of a shared *adt.Conjunction IN PLACE (slices.SortStableFunc(a, cmpLeafNodes) with a = x.Values when the "
              "bound simplifier consumed nothing), so concurrent Value.Syntax / yaml.Encode calls on a shared value such as "
              "`x: int & >5` race (write/write and write/read; adt.MatchBuiltinRange reads the same slice); minimal witness "
              "corpus/C19/f10_conjunction_sort.cue: program `x: int & >5`, yaml.Encode(v) (= v.Syntax(cue.Concrete(true))) from 8 goroutines")},
    {"id": "F11",
     "match": lambda rep: re.search(r"adt\.\(\*Vertex\)\.Finalize\(\)\n[^\n]*\n\s*cuelang\.org/go/(cue\.|internal/core/subsume\.|internal/core/export\.)", rep) is not None,
     "text": ("data race on the UNCHANGED tree [finding F11]: vertices are NOT always finalized before being shared - the root Finalize leaves "
              "(a) pattern-constraint vertices and (b) the arcs below a field whose unification failed unfinished, and API calls finalize them lazily "
              "ON THE SHARED VERTEX with the caller's own OpContext: cue/types.go (*Iterator).Next `pattern.Constraint.Finalize(i.ctx)` / `arc.Finalize`, "
              "`(*Iterator).Selector`, cue/query.go Value.LookupPath `a.Finalize(ctx)`, cue/context.go manifest (Kind/Err/... of the looked-up value); same pattern in "
              "internal/core/subsume/vertex.go and internal/core/export/expr.go; signature: adt.(*Vertex).Finalize called directly from package cue / subsume / export; two "
              "goroutines then evaluate one vertex with two OpContexts (writes to v.state, status, BaseValue, Arcs). Minimal witnesses: "
              "corpus/C19/f11a_pattern_finalize.cue (`[=~\"^z\"]: int, a: 1`, Fields(cue.Patterns(true)) from 8 goroutines) and "
              "corpus/C19/f11b_failed_field_finalize.cue (`f2: {name: {e: 3, sub: int}, name: string}`, LookupPath(f2.name.sub) / LookupPath(f2.name.e))")},
    {"id": "F12",
     # the in-place write is in (*ValueError).Msg; the other access is the same write or the read of the same
     # argument slice by the caller of Msg, cue/errors.writeErr (directly or inside fmt)
     "match": lambda rep: "adt.(*ValueError).Msg()" in rep and (rep.count("adt.(*ValueError).Msg()") >= 2 or rep.count("cue/errors.writeErr()") >= 2),
     "text": ("data race on the UNCHANGED tree [finding F12]: internal/core/adt/errors.go (*ValueError).Msg boxes the Node arguments of a shared error "
              "IN PLACE (`args[i] = Formatter{...}` on the slice returned by e.Message.Msg()), so rendering the same error from two goroutines "
              "(Value.Syntax / yaml.Encode / Err().Error() on a shared value with a failed field) races; minimal witness corpus/C19/f12_error_msg.cue "
              "(`f4: \"a\" + 1`, Syntax() and yaml.Encode from 8 goroutines)")},
    {"id": "F13",
     "match": lambda rep: "internal/pretty/style.setCommentRelPos" in rep and rep.count("cue/format.Node()") >= 2,
     "text": ("data race on the UNCHANGED tree [finding F13]: ASTs returned by Value.Syntax(cue.Docs(true)) alias the *ast.CommentGroup nodes of the "
              "parsed source, and cue/format.Node writes relative positions into comment nodes (internal/pretty/style.setCommentRelPos), so formatting "
              "two Syntax results of one shared value concurrently races; minimal witness corpus/C19/f13_doc_comment_format.cue "
              "(`// doc / f0: 1 / let L1 = 8 / f6: L1 + 1`, format.Node(v.Syntax(cue.All(), cue.Docs(true), cue.Attributes(true))) from 8 goroutines)")},
    {"id": "F14",
     "match": lambda rep: "cue/errors.appendToList()" in rep and "adt.CombineErrors()" in rep,
     "text": ("data race on the UNCHANGED tree [finding F14]: Value.Validate accumulates errors with adt.(*validator).add -> adt.CombineErrors -> "
              "errors.Append, which (as its doc comment warns) appends IN PLACE when its first argument is already a list; after the first error "
              "v.err IS the *Bottom of the shared value (CombineErrors returns b itself when a == nil), so the second error is appended to the error "
              "list owned by the shared vertex; minimal witness corpus/C19/f14_validate_append.cue (a field with two errors plus a second failing field, "
              "v.Validate(...) from 8 goroutines)")},
]


_LISTED = None


def listed_ids():
    """Only findings listed in known_findings.json (status known) may be reported as KNOWN-FINDING;
    a race of a recognised but UNLISTED class is a violation like any other."""
    global _LISTED
    if _LISTED is None:
        _LISTED = {k["id"] for k in vlib.known_findings("C19") if k.get("status") == "known"}
    return _LISTED


def known_race(report):
    for k in KNOWN_RACES:
        if k["match"](report) and k["id"] in listed_ids():
            return k["id"]
    return None


def is_known_race(report):
    return known_race(report) is not None


def parse_races(text):
    """Split the stderr of an explore/witness/models child into (round description, report)."""
    out = []
    desc = None
    parts = re.split(r"(?m)^(C19-ROUND(?:-END)? [^\n]*)\n", text)
    for p in parts:
        if p.startswith("C19-ROUND-END"):
            continue
        if p.startswith("C19-ROUND "):
            desc = p[len("C19-ROUND "):]
            continue
        for m in re.finditer(r"WARNING: DATA RACE\n(.*?)\n==================", p, re.S):
            out.append((desc, m.group(1)))
    return out


def race_signature(rep):
    blocks = re.split(r"\n\n", rep)
    sig = []
    for b in blocks[:2]:
        lines = b.split("\n")
        head = lines[0].split(" at ")[0]
        fr = [l.strip().split("(")[0] for l in lines[1:] if re.match(r"^  \S", l)]
        fr = [f for f in fr if "verifharness" not in f]
        sig.append(head + ": " + " < ".join(fr[:4]))
    return " || ".join(sig)


def race_env():
    env = vlib.go_env()
    env["GORACE"] = "halt_on_error=0 exitcode=0"
    return env


# --------------------------------------------------------------- models ----

def coq_str(s):
    return "[" + "; ".join("%d%%N" % b for b in s.encode()) + "]"


def hexs(s):
    return s.encode().hex() if s else "-"


def gen_model_questions(seed, n):
    """Random schedules of the two machines (simulated here only to keep them enabled),
    for the extraction-vs-vm_compute cross-check and the executed instance of the
    completeness theorems (machine output must be accepted by the checker)."""
    st = seed & 0xFFFFFFFFFFFFFFFF
    def rnd(k):
        nonlocal st
        st, z = vlib.splitmix64(st)
        return z % k
    qs = []
    for i in range(n):
        # index machine
        nth = 2 + rnd(3)
        recheck = 1 if rnd(4) else 0
        strs = ["a", "b", "c", "_"][: 2 + rnd(3)]
        table = ["_"] if rnd(2) else []
        init = list(table)
        pcs = [None] * nth
        sched = []
        for _ in range(4 + rnd(14)):
            t = rnd(nth)
            if pcs[t] is None:
                s = strs[rnd(len(strs))]
                sched.append(("A", t, s))
                if s not in table:
                    pcs[t] = s
            else:
                s = pcs[t]
                sched.append(("B", t))
                if not (recheck and s in table):
                    table.append(s)
                pcs[t] = None
        if rnd(6) == 0:
            sched.append(("B", rnd(nth)))  # possibly not enabled
        qs.append(("RUN", recheck, nth, init, sched))
        # Cache.Do machine
        nth = 2 + rnd(3)
        lock = 1 if rnd(4) else 0
        keys = ["k", "m"][: 1 + rnd(2)]
        osched = []
        active = [False] * nth
        for _ in range(6 + rnd(40)):
            t = rnd(nth)
            if not active[t]:
                osched.append(("C", t, keys[rnd(len(keys))]))
                active[t] = True
            else:
                osched.append(("S", t))
        qs.append(("ORUN", lock, osched))
    return qs


def question_line(q):
    if q[0] == "RUN":
        _, rc, nth, init, sched = q
        m = ",".join("%s:%d" % (hexs(s), i) for i, s in enumerate(init))
        sc = " ".join("A:%d:%s" % (x[1], hexs(x[2])) if x[0] == "A" else "B:%d" % x[1] for x in sched)
        return "RUN %d %d | %s | %s | %s" % (rc, nth, ",".join(hexs(s) for s in init), m, sc)
    _, lock, sched = q
    return "ORUN %d | %s" % (lock, " ".join("C:%d:%s" % (x[1], hexs(x[2])) if x[0] == "C" else "S:%d" % x[1] for x in sched))


def question_coq(q):
    if q[0] == "RUN":
        _, rc, nth, init, sched = q
        m = "[" + "; ".join("(%s, %d)" % (coq_str(s), i) for i, s in enumerate(init)) + "]"
        sc = "[" + "; ".join("CallA %d %s" % (x[1], coq_str(x[2])) if x[0] == "A" else "SecB %d" % x[1] for x in sched) + "]"
        return "show_run (c19_index_run %s [%s] %s %d %s)" % ("true" if rc else "false", "; ".join(coq_str(s) for s in init), m, nth, sc)
    _, lock, sched = q
    sc = "[" + "; ".join("Call %d %s" % (x[1], coq_str(x[2])) if x[0] == "C" else "Step %d" % x[1] for x in sched) + "]"
    return "show_orun (c19_once_run %s %s)" % ("true" if lock else "false", sc)


def run_model_corpus(exe):
    """corpus/C19/model_cases.txt: fixed questions for the extracted models with their expected answers."""
    path = os.path.join(vlib.VERIF, "corpus", "C19", "model_cases.txt")
    cases = []
    for line in open(path):
        line = line.rstrip("\n")
        if not line.strip() or line.startswith("#"):
            continue
        q, _, want = line.rpartition(" => ")
        cases.append((q, want.strip()))
    p = vlib.run([exe], input="\n".join(q for q, _ in cases) + "\n", timeout=600, stderr=None)
    got = p.stdout.split("\n")[:-1]
    if len(got) != len(cases):
        raise vlib.CheckFailure("model corpus: %d answers for %d questions" % (len(got), len(cases)))
    for (q, want), g in zip(cases, got):
        if g.strip() != want:
            raise vlib.CheckFailure("model corpus corpus/C19/model_cases.txt: `%s` answered `%s`, expected `%s`" % (q, g, want))
    return len(cases)


def vm_crosscheck(ctx, exe):
    qs = gen_model_questions(ctx.seed * 7919 + 13, 24 if ctx.tier == "quick" else 120)
    lines = [question_line(q) for q in qs]
    p = vlib.run([exe], input="\n".join(lines) + "\n", timeout=600, stderr=None)
    ml = p.stdout.split("\n")[:-1]
    if len(ml) != len(qs):
        raise vlib.CheckFailure("model driver returned %d lines for %d questions" % (len(ml), len(qs)))
    # executed instance of the completeness theorems: what the machine produces must be accepted
    follow = []
    for q, out in zip(qs, ml):
        if out == "NONE" or out.startswith("DRIVER-ERROR") or out == "BADCASE":
            follow.append(None)
            continue
        if q[0] == "RUN":
            labels, logs = [x.strip() for x in out.split("|")]
            fm = ",".join("%s:%d" % (h, i) for i, h in enumerate(labels.split(",")) if h)
            # the final map of the no-recheck variant is not a function of the labels; only check recheck runs
            follow.append(("HIST %s | %s | %s | %s" % (",".join(hexs(s) for s in q[3]), logs, labels, fm), q[1] == 1))
        else:
            ex, rt = [x.strip() for x in out.split("|")]
            follow.append(("ONCE %s | %s" % (ex, rt), q[1] == 1))
    fl = [f[0] for f in follow if f]
    p2 = vlib.run([exe], input="\n".join(fl) + "\n", timeout=600, stderr=None)
    fr = p2.stdout.split("\n")[:-1]
    acc = rej = 0
    for (line, must), res in zip([f for f in follow if f], fr):
        if res == "ok":
            acc += 1
        else:
            rej += 1
            if must:
                raise vlib.CheckFailure("a history produced by the (faithful) machine is rejected by the extracted checker, "
                                        "contradicting C19_index_history_accepted / C19_once_history_accepted: %s -> %s" % (line, res))
    # vm_compute on the same questions
    vf = os.path.join(ctx.work, "c19_vm.v")
    with open(vf, "w") as f:
        f.write("From Verif Require Import Conc.Index Conc.Once Extract.C19.\nFrom Coq Require Import List NArith.\nImport ListNotations.\n")
        f.write("Definition show_run (r : option (list str * list (list (str * nat)))) := r.\n")
        f.write("Definition show_orun (r : option (list (str * nat) * list (str * option nat))) := r.\n")
        for q in qs:
            f.write("Eval vm_compute in %s.\n" % question_coq(q))
    with vlib.Lock("coq"):
        q = vlib.run(["timeout", "600", "coqc", "-Q", os.path.join(vlib.COQ, "theories"), "Verif",
                      "-o", os.path.join(ctx.work, "c19_vm.vo"), vf], cwd=ctx.work, check=False)
    if q.returncode != 0:
        raise vlib.CheckFailure("vm_compute cross-check failed to compile:\n" + q.stdout[-3000:])
    blocks = re.split(r"(?m)^\s*= ", q.stdout)[1:]
    if len(blocks) != len(qs):
        raise vlib.CheckFailure("vm_compute cross-check: %d results for %d questions" % (len(blocks), len(qs)))

    agree = 0
    for qq, b, out in zip(qs, blocks, ml):
        body = re.sub(r"\s+", " ", b.split("\n     : ")[0]).strip()
        if body.startswith("None"):
            coq = "NONE"
        else:
            # re-render the Coq term in the driver's format
            def render_str(m):
                return hexs(bytes(int(x) for x in re.findall(r"(\d+)%N", m)).decode()) if m.strip() != "[]" else "-"
            if qq[0] == "RUN":
                labels_s, logs_s = split_top(body[len("Some ("):-1])
                labels = [render_str(x) for x in split_list(labels_s)]
                logs = []
                for lg in split_list(logs_s):
                    ents = []
                    for e in split_list(lg):
                        s, pidx = split_top(e.strip()[1:-1])
                        ents.append("%s:%s" % (render_str(s), pidx.strip()))
                    logs.append(",".join(ents))
                coq = ",".join(labels) + " | " + ";".join(logs)
            else:
                ex_s, rt_s = split_top(body[len("Some ("):-1])
                ex = []
                for e in split_list(ex_s):
                    s, tok = split_top(e.strip()[1:-1])
                    ex.append("%s:%s" % (render_str(s), tok.strip()))
                rt = []
                for e in split_list(rt_s):
                    s, tok = split_top(e.strip()[1:-1])
                    tok = tok.strip()
                    rt.append("%s:%s" % (render_str(s), "-" if tok == "None" else tok.replace("Some", "").strip()))
                coq = ",".join(ex) + " | " + ",".join(rt)
        if coq != out:
            raise vlib.CheckFailure("extracted model and vm_compute disagree on %s: ocaml=%r vm=%r" % (question_line(qq), out, coq))
        agree += 1
    return {"questions": len(qs), "agree_with_vm_compute": agree, "machine_histories_accepted": acc,
            "norecheck_or_nolock_histories_rejected": rej}


def split_top(s):
    """Split 'a, b' at the top-level comma (brackets/parens balanced)."""
    depth = 0
    for i, c in enumerate(s):
        if c in "[(":
            depth += 1
        elif c in "])":
            depth -= 1
        elif c == "," and depth == 0:
            return s[:i], s[i + 1:]
    raise ValueError("no top-level comma in " + s)


def split_list(s):
    """Elements of a Coq list literal '[a; b; c]' (top level)."""
    s = s.strip()
    assert s[0] == "[" and s[-1] == "]", s
    s = s[1:-1]
    out, depth, cur = [], 0, ""
    for c in s:
        if c in "[(":
            depth += 1
        elif c in "])":
            depth -= 1
        if c == ";" and depth == 0:
            out.append(cur.strip())
            cur = ""
        else:
            cur += c
    if cur.strip():
        out.append(cur.strip())
    return out


def run_models(ctx, harness, exe, n):
    mdir = os.path.join(ctx.work, "models")
    os.makedirs(mdir, exist_ok=True)
    p = subprocess.run([harness, "models", "--seed", str(ctx.seed), "--out", mdir, "--n", str(n)], env=race_env(),
                       stdout=subprocess.PIPE, stderr=subprocess.PIPE, text=True, timeout=3000)
    info = {"exit": p.returncode}
    races = parse_races(p.stderr)
    if p.returncode != 0:
        # a crash of the stress itself (e.g. "fatal error: concurrent map writes") is a violation of the index/once logic
        m = re.search(r"(?m)^(fatal error: [^\n]*|panic: [^\n]*)", p.stderr)
        ctx.violation({"kind": "stress-crashed", "mode": "models", "seed": ctx.seed, "exit": p.returncode,
                       "crash": m.group(1) if m else None, "race_reports_before_crash": len(races),
                       "stderr_tail": p.stderr[-4000:],
                       "what": "the stress of runtime.getKey/IndexToString, par.Cache.Do, NextUniqueID crashed (Go runtime fatal error or panic)",
                       "replay": "GORACE='halt_on_error=0 exitcode=0' build/harness-c19-race models --seed %d --out /tmp/x --n %d" % (ctx.seed, n)})
        info["stderr_tail"] = p.stderr[-2000:]
        return info, [], [], [], races
    cases = open(os.path.join(mdir, "cases.txt")).read().split("\n")[:-1]
    impl = open(os.path.join(mdir, "impl.txt")).read().split("\n")[:-1]
    q = vlib.run([exe], input="\n".join(cases) + "\n", timeout=3000, stderr=None)
    model = q.stdout.split("\n")[:-1]
    if not (len(cases) == len(impl) == len(model)):
        raise vlib.CheckFailure("line count mismatch cases=%d impl=%d model=%d" % (len(cases), len(impl), len(model)))
    info["stats"] = json.load(open(os.path.join(mdir, "models-stats.json")))
    return info, cases, impl, model, races


# -------------------------------------------------------------- explore ----

def run_explore(ctx, harness, nproc, rounds, deadline_s):
    edir = os.path.join(ctx.work, "explore")
    os.makedirs(edir, exist_ok=True)
    procs = []
    for i in range(nproc):
        seed = (ctx.seed * 1000003 + i * 7919 + 17) % (1 << 62)
        err = open(os.path.join(edir, "stderr%d.txt" % i), "w")
        cmd = [harness, "explore", "--seed", str(seed), "--out", edir, "--name", "ex%d" % i, "--rounds", str(rounds),
               "--deadline-s", str(deadline_s), "--round-timeout-s", "150", "--min-rounds", "6"]
        procs.append((i, seed, subprocess.Popen(cmd, env=race_env(), stdout=subprocess.DEVNULL, stderr=err), err))
    results = []
    for i, seed, p, err in procs:
        try:
            rc = p.wait(timeout=deadline_s + 400)
        except subprocess.TimeoutExpired:
            p.kill()
            rc = -9
        err.close()
        recs = []
        jf = os.path.join(edir, "ex%d.jsonl" % i)
        if os.path.exists(jf):
            for line in open(jf):
                try:
                    recs.append(json.loads(line))
                except ValueError:
                    pass
        results.append({"i": i, "seed": seed, "rc": rc, "recs": recs,
                        "stderr": open(os.path.join(edir, "stderr%d.txt" % i), errors="replace").read()})
    return results


def run_witness(ctx, harness, src, calls, g=8, reps=12):
    wdir = os.path.join(ctx.work, "witness")
    os.makedirs(wdir, exist_ok=True)
    sf = os.path.join(wdir, "w.cue")
    with open(sf, "w") as f:
        f.write(src)
    p = subprocess.run([harness, "witness", "--src", sf, "--calls", calls, "--g", str(g), "--reps", str(reps)],
                       env=race_env(), stdout=subprocess.PIPE, stderr=subprocess.PIPE, text=True, timeout=900)
    return p.returncode, p.stdout, parse_races(p.stderr), p.stderr


def round_payload(rec, extra):
    d = {"mode": "explore", "round_seed": rec.get("Seed"), "round_kind": rec.get("Kind"), "goroutines": rec.get("G"),
         "program": rec.get("Program"), "other_programs": rec.get("Programs"), "calls": rec.get("Calls"),
         "unfinalized_after_compile": rec.get("Unfinalized"),
         "replay": "bin/check C19 --replay <this file>   (re-runs this round 20 times under the race detector)"}
    d.update(extra)
    return d



def _label_paths(text):
    """Map every line of a formatted CUE text to the label path it belongs to (by tab depth)."""
    out = []
    stack = {}
    for line in text.split("\n"):
        d = len(line) - len(line.lstrip("\t"))
        body = line.strip()
        m = re.match(r"^((?:[#_A-Za-z0-9\"\[\]=~^$.\\()-]+[?!]?: )+)", body + " ")
        labels = []
        if m:
            labels = [x.strip().rstrip("?!") for x in m.group(1).split(": ") if x.strip()]
        if labels:
            stack[d] = labels
            for k in [k for k in stack if k > d]:
                del stack[k]
        path = []
        for k in sorted(stack):
            if k < d or (k == d and labels):
                path += stack[k]
        out.append(".".join(path))
    return out


def f11_explains_mismatch(rec, m):
    """Narrow recognition of a WRONG RESULT caused by known finding F11(b): some arcs of this very program are
    not finalized after CompileString (rec['Unfinalized'], measured by the harness on a private copy), the call
    set contains calls that finalize them lazily on the shared value, the mismatch happened in the concurrent
    phase of a round whose shared value had not been walked before, and EVERY differing line of the two
    results lies at or below the parent field of such an unfinalized arc.  Returns a description or None."""
    unf = rec.get("Unfinalized") or []
    if not unf or rec.get("Kind") not in ("shared-cold", "mixed") or "on the shared value" not in m.get("Where", ""):
        return None
    parents = sorted({u.rsplit(".", 1)[0] for u in unf if "." in u})
    if not parents:
        return None

    def target(call):
        head = call.split(" ")[0]
        if " @" in call:
            return call.rsplit(" @", 1)[1].strip()
        if head in ("lookup", "kind", "default", "scalars", "expr", "refpath", "eval", "meta", "list"):
            return call.split(" ", 1)[1].strip()
        return ""
    finalizers = [c for c in (rec.get("Calls") or [])
                  if any(target(c) == u or target(c).startswith(u + ".") or target(c).startswith(u + "[") for u in unf)]
    if not finalizers:
        return None
    if "...(truncated)" in m["Want"] or "...(truncated)" in m["Got"]:
        return None
    tgt = target(m["Call"])
    want, got = m["Want"].split("\n"), m["Got"].split("\n")
    import difflib
    wp, gp = _label_paths(m["Want"]), _label_paths(m["Got"])
    changed = []
    for tag, i1, i2, j1, j2 in difflib.SequenceMatcher(None, want, got, autojunk=False).get_opcodes():
        if tag != "equal":
            changed += wp[i1:i2] + gp[j1:j2]
    if not changed:
        return None
    for pth in changed:
        full = ".".join(x for x in (tgt, pth) if x)
        if not any(full == pa or full.startswith(pa + ".") for pa in parents):
            return None
    return ("WRONG RESULT of `%s` (%s): all differing lines lie below %s, whose arcs %s are not finalized after CompileString and are "
            "finalized lazily on the shared value by %s" % (m["Call"], m["Where"], parents, unf, finalizers[:3]))


def analyse_explore(ctx, results, stats, known_hits):
    for res in results:
        recs = res["recs"]
        by_desc = {}
        for r in recs:
            by_desc["round=%d seed=%d kind=%s" % (r["Round"], r["Seed"], r["Kind"])] = r
            stats["rounds"] += 1
            stats["kinds"][r["Kind"]] += 1
            stats["executed"] += r["Executed"]
            stats["sequential"] += r["Sequential"]
            stats["goroutines"][str(r["G"])] += 1
            stats["calls_per_program"].append(r["NCalls"])
            stats["baseline_error_results"] += r["BaseErr"]
            stats["unstable"] += len(r.get("Unstable") or [])
            for u in (r.get("UnstableDetail") or [])[:1]:
                if len(stats["unstable_samples"]) < 3:
                    stats["unstable_samples"].append({"call": u["Call"], "forward": u["Want"][:300], "reverse": u["Got"][:300]})
            for k, v in (r.get("Feats") or {}).items():
                stats["features"][k] += v
            for c in r.get("Calls") or []:
                stats["call_types"][c.split(" ")[0]] += 1
            stats["programs"].add(r["Program"])
            if len(stats["samples"]) < 2 and r["Kind"].startswith("shared") and r["Executed"] > 50 and len(r["Program"]) < 900:
                stats["samples"].append({"kind": r["Kind"], "goroutines": r["G"], "program": r["Program"],
                                         "calls": r["Calls"][:12], "concurrent_executions": r["Executed"], "result": "all equal to baseline"})
            for m in (r.get("Mismatches") or []):
                if m["Call"].startswith("fields patterns"):
                    # the F11(a) site itself: iterating Fields(cue.Patterns(true)) while another goroutine finalizes the
                    # shared pattern-constraint vertex reads a half-evaluated vertex (kind `_`)
                    known_hits.append(("F11", "exploration round=%d seed=%d kind=%s: WRONG RESULT of `%s`" % (r["Round"], r["Seed"], r["Kind"], m["Call"])))
                    stats["mismatches_known_f11"] += 1
                    continue
                why = f11_explains_mismatch(r, m)
                if why and "F11" in listed_ids():
                    known_hits.append(("F11", "exploration round=%d seed=%d kind=%s: %s" % (r["Round"], r["Seed"], r["Kind"], why)))
                    stats["mismatches_known_f11"] += 1
                    continue
                stats["mismatches"] += 1
                if stats["mismatches"] > 6:
                    break
                ctx.violation(round_payload(r, {"kind": "concurrent-result-differs-from-sequential-baseline", "call": m["Call"],
                                                "sequential_baseline": m["Want"], "observed": m["Got"], "where": m["Where"]}))
                break
            for pmsg in (r.get("Panics") or []):
                if ": fields patterns" in pmsg.split("PANIC:")[0]:
                    # F11(a) again: makeValue panics ("not properly initialized (state: finalized, value: <nil>)") on the
                    # pattern-constraint vertex that another goroutine is finalizing
                    known_hits.append(("F11", "exploration round=%d seed=%d kind=%s: PANIC in a `fields patterns` call: %s" % (
                        r["Round"], r["Seed"], r["Kind"], pmsg.split("PANIC:")[1].strip().split("\n")[0][:120] if "PANIC:" in pmsg else "")))
                    stats["mismatches_known_f11"] += 1
                    continue
                stats["panics"] += 1
                if stats["panics"] <= 6:
                    ctx.violation(round_payload(r, {"kind": "panic-during-concurrent-use", "panic": pmsg}))
                break
        for desc, rep in parse_races(res["stderr"]):
            stats["race_reports"] += 1
            if is_known_race(rep):
                known_hits.append((known_race(rep), "exploration " + str(desc)))
                continue
            stats["unknown_race_reports"] += 1
            sg = race_signature(rep)
            if sg in stats["race_sigs"] or len(stats["race_sigs"]) >= 6:
                continue
            stats["race_sigs"].add(sg)
            r = by_desc.get(desc or "", {})
            ctx.violation(round_payload(r, {"kind": "data-race", "round": desc, "signature": race_signature(rep), "race_report": rep[:6000],
                                            "child_seed": res["seed"]}))
        if "C19-TIMEOUT" in res["stderr"] or res["rc"] in (3, -9):
            m = re.search(r"C19-TIMEOUT ([^\n]*)", res["stderr"])
            desc = m.group(1) if m else None
            # last round started
            started = re.findall(r"(?m)^C19-ROUND (round=[^\n]*)", res["stderr"])
            ctx.violation({"kind": "deadlock-or-timeout", "mode": "explore", "round": desc or (started[-1] if started else None),
                           "child_seed": res["seed"], "stderr_tail": res["stderr"][-5000:],
                           "replay": "build/harness-c19-race explore --only-seed <seed> --kind <kind> --reps 20 --out /tmp/x"})
            stats["timeouts"] += 1
        elif res["rc"] != 0:
            started = re.findall(r"(?m)^C19-ROUND (round=[^\n]*)", res["stderr"])
            r = by_desc.get(started[-1] if started else "", {})
            ctx.violation(round_payload(r, {"kind": "crash-during-concurrent-use", "exit": res["rc"], "round": started[-1] if started else None,
                                            "child_seed": res["seed"], "stderr_tail": res["stderr"][-6000:]}))
            stats["crashes"] += 1


def new_stats():
    return {"rounds": 0, "kinds": collections.Counter(), "executed": 0, "sequential": 0, "goroutines": collections.Counter(),
            "calls_per_program": [], "baseline_error_results": 0, "unstable": 0, "unstable_samples": [], "features": collections.Counter(),
            "call_types": collections.Counter(), "programs": set(), "samples": [], "mismatches": 0, "panics": 0, "race_reports": 0,
            "unknown_race_reports": 0, "timeouts": 0, "crashes": 0, "race_sigs": set(), "mismatches_known_f11": 0}


def run(ctx):
    quick = ctx.tier == "quick"
    t_start = time.time()
    proof = vlib.prove("C19", extra_targets=["theories/Extract/C19.vo"])
    if not quick:
        proof.update(vlib.coqchk("C19"))
        if proof["coqchk_rc"] != 0:
            raise vlib.CheckFailure("coqchk failed: " + proof["coqchk_tail"])
    exe = vlib.build_model("C19", "extract/C19.v", "ocaml/c19_driver.ml")
    harness, hsecs = vlib.build_harness("c19", shims=SHIMS, race=True)
    known_hits = []
    stats = new_stats()
    phase = {"proof+builds": round(time.time() - t_start, 1)}

    if ctx.replay:
        rp = json.load(open(ctx.replay))
        if rp.get("round_seed") is not None:
            edir = os.path.join(ctx.work, "explore")
            os.makedirs(edir, exist_ok=True)
            p = subprocess.run([harness, "explore", "--out", edir, "--name", "ex0", "--only-seed", str(rp["round_seed"]),
                                "--kind", rp["round_kind"], "--reps", "20", "--round-timeout-s", "150"], env=race_env(),
                               stdout=subprocess.DEVNULL, stderr=subprocess.PIPE, text=True, timeout=3000)
            recs = [json.loads(l) for l in open(os.path.join(edir, "ex0.jsonl"))] if os.path.exists(os.path.join(edir, "ex0.jsonl")) else []
            analyse_explore(ctx, [{"i": 0, "seed": 0, "rc": p.returncode, "recs": recs, "stderr": p.stderr}], stats, known_hits)
        elif rp.get("case"):
            q = vlib.run([exe], input=rp["case"] + "\n", timeout=600, stderr=None)
            res = q.stdout.strip()
            if res != rp.get("expected_model", "ok"):
                ctx.violation({"kind": "observed-history-rejected-by-proved-model", "case": rp["case"], "model": res})
        ctx.coverage.update({"obligations": proof["obligations"], "discharged": proof["discharged"], "checker_cmd": proof["checker_cmd"],
                             "trusted_base": TRUSTED, "evaluations": stats["executed"], "replayed": ctx.replay})
        return

    # 1. the models against the real index / cache
    t1 = time.time()
    n_model_corpus = run_model_corpus(exe)
    vm = vm_crosscheck(ctx, exe)
    vm["fixed_model_corpus_cases"] = n_model_corpus
    phase["vm_crosscheck"] = round(time.time() - t1, 1)
    t1 = time.time()
    nmodels = 16 if quick else 80
    minfo, cases, impl, model, mraces = run_models(ctx, harness, exe, nmodels)
    phase["models"] = round(time.time() - t1, 1)
    kinds = collections.Counter()
    mism = 0
    msamples = []
    for c, i, m in zip(cases, impl, model):
        k = c.split(" ", 1)[0]
        kinds[k] += 1
        ok = (i == m)
        if k in ("HIST", "ONCE"):
            ok = (i == "ok" and m == "ok")
        if len(msamples) < 2 and k == "SEQ" and len(c) < 3000:
            msamples.append({"case": c[:600] + ("..." if len(c) > 600 else ""), "impl": i, "model": m})
        if not ok:
            mism += 1
            if mism <= 4:
                what = {"SEQ": "sequential runtime.getKey results differ from get_key on the snapshot of the real table (C19_get_key_sequential)",
                        "HIST": "the observed concurrent history of StringToIndex/IndexToString results is not a history of the proved index machine: "
                                "check_history rejects it (same string -> same index across goroutines, IndexToString(StringToIndex(s)) == s, no index reused, "
                                "table grows by appending, every new slot has a possible appender) or the Go-side read-back failed",
                        "ONCE": "the observed history of par.Cache.Do is not a history of the proved machine: some key was executed != 1 times or a caller got a different result"}[k]
                ctx.violation({"kind": "observed-history-rejected-by-proved-model" if k != "SEQ" else "impl-differs-from-proved-model",
                               "case": c, "impl": i, "model": m, "expected_model": "ok" if k != "SEQ" else i, "what": what,
                               "go_side_failures": (minfo.get("stats") or {}).get("GoSideFailures"),
                               "replay": "bin/check C19 --replay <this file>"})
    gofail = (minfo.get("stats") or {}).get("GoSideFailures") or []
    uid_fail = [g for g in gofail if g.startswith("UID")]
    if uid_fail:
        ctx.violation({"kind": "unique-id-not-unique", "failures": uid_fail, "seed": ctx.seed,
                       "replay": "build/harness-c19-race models --seed %d --out /tmp/x --n %d" % (ctx.seed, nmodels)})
    seen_sigs = set()
    for desc, rep in mraces:
        stats["race_reports"] += 1
        stats["unknown_race_reports"] += 1
        if race_signature(rep) in seen_sigs or len(seen_sigs) >= 3:
            continue
        seen_sigs.add(race_signature(rep))
        ctx.violation({"kind": "data-race", "mode": "models (stress of getKey / IndexToString / Cache.Do / NextUniqueID)", "seed": ctx.seed,
                       "signature": race_signature(rep), "race_report": rep[:6000],
                       "replay": "GORACE='halt_on_error=0 exitcode=0' build/harness-c19-race models --seed %d --out /tmp/x --n %d" % (ctx.seed, nmodels)})

    # 2. direct exploration of the property under the race detector
    if quick:
        nproc, rounds, deadline = 6, 14, 32
    else:
        nproc, rounds, deadline = 8, 400, 450
    t1 = time.time()
    results = run_explore(ctx, harness, nproc, rounds, deadline)
    analyse_explore(ctx, results, stats, known_hits)
    phase["explore"] = round(time.time() - t1, 1)
    t1 = time.time()

    # 3. corpus: fixed (program, calls) witnesses; the one of the known finding confirms it is still present
    wraces_total = 0
    w_known = []
    corpus_info = []
    cdir = os.path.join(vlib.VERIF, "corpus", "C19")
    for nm in sorted(os.listdir(cdir)):
        if not nm.endswith(".cue"):
            continue
        src = open(os.path.join(cdir, nm)).read()
        mcalls = re.search(r"(?m)^// calls: (.*)$", src)
        calls = mcalls.group(1).strip() if mcalls else "describe|syntax none|json"
        wrc, wout, wraces, werr = run_witness(ctx, harness, src, calls, reps=4 if quick else 20)
        wraces_total += len(wraces)
        mm = re.search(r"mismatches=(\d+)", wout)
        nm_mism = int(mm.group(1)) if mm else -1
        mk = re.search(r"(?m)^// known: (\S+)", src)
        known_id = mk.group(1) if mk else None
        fm = re.search(r"(?m)^first-mismatch (.*)$", wout)
        corpus_info.append({"file": nm, "calls": calls, "race_reports": len(wraces), "result_mismatches": nm_mism, "exit": wrc,
                            "known": known_id, "first_mismatch": fm.group(1)[:400] if fm else None})
        if known_id and known_id in listed_ids() and wrc == 0 and nm_mism > 0:
            # the witness of a known finding may also return WRONG results (F11 does): part of the finding
            w_known.append((known_id, "corpus/C19/%s: %d concurrent results differ from the sequential baseline (%s)" % (
                nm, nm_mism, fm.group(1)[:300] if fm else "")))
            nm_mism = 0
        for d, rep in wraces:
            if is_known_race(rep):
                w_known.append((known_race(rep), "corpus/C19/" + nm))
            else:
                stats["unknown_race_reports"] += 1
                ctx.violation({"kind": "data-race", "mode": "corpus witness", "file": "corpus/C19/" + nm, "program": src, "calls": calls.split("|"),
                               "signature": race_signature(rep), "race_report": rep[:6000],
                               "replay": "GORACE=halt_on_error=0 build/harness-c19-race witness --src corpus/C19/%s --calls '%s' --g 8 --reps 40" % (nm, calls)})
        if wrc != 0 or nm_mism != 0:
            ctx.violation({"kind": "concurrent-result-differs-or-crash", "mode": "corpus witness", "file": "corpus/C19/" + nm, "program": src,
                           "calls": calls.split("|"), "exit": wrc, "stdout": wout[-500:], "stderr_tail": werr[-3000:],
                           "replay": "GORACE=halt_on_error=0 build/harness-c19-race witness --src corpus/C19/%s --calls '%s' --g 8 --reps 40" % (nm, calls)})
    phase["corpus_witnesses"] = round(time.time() - t1, 1)
    for k in KNOWN_RACES:
        hits = [w for (i, w) in known_hits + w_known if i == k["id"]]
        if hits:
            ctx.known_finding("%s; observed %d report(s) of this class in this run (%s)" % (
                k["text"], len(hits), "; ".join(sorted(set(hits))[:4])))

    ms = minfo.get("stats") or {}
    cpp = stats["calls_per_program"]
    ctx.coverage.update({
        "obligations": proof["obligations"],
        "discharged": proof["discharged"],
        "checker_cmd": proof["checker_cmd"] + ("; coqchk -silent -o Verif.Properties.C19" if not quick else ""),
        "trusted_base": TRUSTED,
        "theorems": proof["theorems"],
        "axioms_reported": proof["axioms"],
        "audit_files": proof["audit_files"],
        "claim": "proof (partial): theorems cover the shared-state logic (label index, Cache.Do); data-race freedom and per-call sequential answers of the cue.Value API are EXPLORED (race detector), not proved",
        "evaluations": len(cases) + stats["executed"],
        "distinct_nontrivial": kinds["HIST"] + kinds["ONCE"] + len(stats["programs"]),
        "rule": "evaluations = model cases (SEQ/HIST/ONCE lines checked by the extracted model) + API calls executed concurrently on shared values and compared with the sequential baseline. "
                "distinct_nontrivial = concurrent histories of the real index (>= 2 goroutines requesting the same fresh strings) + concurrent Cache.Do histories + distinct generated CUE programs explored",
        "samples": msamples + stats["samples"],
        "model_correspondence": {
            "case_kinds": dict(kinds), "mismatches": mism, "vm_compute_crosscheck": vm,
            "index_calls": ms.get("IdxCalls"), "fresh_strings": ms.get("IdxFresh"), "fresh_strings_requested_by_2plus_goroutines": ms.get("SameFreshSameTime"),
            "calls_on_strings_fresh_at_history_start": ms.get("SectionBHits"), "goroutines_per_history": ms.get("GoroutineHist"),
            "barrier_histories": ms.get("BarrierCases"), "free_running_histories": ms.get("FreeCases"),
            "table_size_start_end": [ms.get("TableStart"), ms.get("TableEnd")],
            "cache_do_calls": ms.get("OnceCalls"), "cache_keys": ms.get("OnceKeys"), "cache_f_executions": ms.get("OnceExecs"),
            "next_unique_id_calls": ms.get("UIDCalls"), "go_side_failures": gofail,
            "traces_validated_against_impl": kinds["HIST"] + kinds["ONCE"],
        },
        "traces_validated_against_impl": kinds["HIST"] + kinds["ONCE"],
        "exploration_under_race_detector": {
            "what": "EXPLORATION (not proof): -race build run as child processes, GORACE=halt_on_error=0, stderr scanned for 'WARNING: DATA RACE'; every concurrent result compared with a sequential baseline",
            "child_processes": nproc, "rounds": stats["rounds"], "round_kinds": dict(stats["kinds"]),
            "distinct_programs": len(stats["programs"]), "concurrent_api_calls_compared": stats["executed"],
            "sequential_api_calls": stats["sequential"], "goroutines_per_round": dict(stats["goroutines"]),
            "calls_per_program_min_max": [min(cpp) if cpp else 0, max(cpp) if cpp else 0],
            "call_types": dict(stats["call_types"]), "program_features": dict(stats["features"]),
            "baseline_results_that_are_errors_or_missing": stats["baseline_error_results"],
            "calls_unstable_sequentially_excluded": stats["unstable"], "unstable_samples": stats["unstable_samples"],
            "result_mismatches": stats["mismatches"], "result_mismatches_of_known_finding_F11": stats["mismatches_known_f11"], "panics": stats["panics"], "timeouts": stats["timeouts"], "crashes": stats["crashes"],
            "race_reports": stats["race_reports"] + wraces_total, "race_reports_of_known_class": len(known_hits) + len(w_known),
            "race_reports_unknown": stats["unknown_race_reports"],
            "corpus_witnesses": corpus_info,
        },
        "harness_build_s": hsecs,
        "phase_s": phase,
        "proof": {k: v for k, v in proof.items() if k.startswith("coqchk") or k in ("make_s",)},
    })
    ctx.assumptions.extend(TRUSTED)


MANIFEST = {
    "category": "proof",
    "text": "PARTIAL. Coq theorems, for every interleaving of the lock sections and any number of threads: the label index (runtime getKey / IndexToString: RLock lookup, Lock + re-check + append) never holds a duplicate, labelMap is the inverse of labels, the same string always gets the same index and different strings different indices, IndexToString(getKey s) = s, indices never change (the table only grows by appending), a call run alone equals the sequential get_key, and the variant without the re-check reaches a duplicate (exhibited schedule); par.Cache.Do runs f at most once per key, every caller that returns gets the result of that one run, no deadlock, every caller returns, different keys do not interfere, and the variant without the per-entry mutex runs f twice. Tie: histories of the real functions observed from 2-16 goroutines are accepted by the extracted executable checkers (proved complete and sound for the machines); sequential getKey agrees exactly with the model on snapshots of the real table. NOT proved: absence of data races and 'each API call on a shared cue.Value returns what it would return alone' - these are explored directly with a -race build (generated programs, PRNG-chosen multisets of LookupPath/Fields/Unify/FillPath/Validate/Default/Syntax/MarshalJSON/YAML/Decode/Kind/Equals/... from 2-16 goroutines on finalized and freshly compiled shared values and on values of different contexts, compared with a sequential baseline; plus two targeted round kinds that always run: Decode into untagged Go structs whose fields match only case-insensitively (new spellings, same Go type, all goroutines at once) and pattern constraints with label aliases looked up through optional / AnyString / AnyIndex selectors on a fresh shared value, every answer compared with the answer of the call run ALONE on a private copy and the whole script re-run on the shared value afterwards; any race report, panic, deadlock or differing result is a violation with program + calls + seed).",
    "note": "Trusted: Coq kernel; hand-written models of index.go getKey/IndexToString and par.Cache.Do (lock sections and sync.Map operations assumed atomic); extraction and drivers; the re-export shim. The race-detector part is exploration: it can only find races on schedules that occur; evidence reports counts. Known finding F10 (in-place sort of a shared Conjunction's Values in export/value.go) is recognised by its stack signature and reported as KNOWN-FINDING.",
    "technique": "Coq proof (invariants over all interleavings of lock-section state machines) + extracted-model acceptance of observed concurrent histories + race-detector exploration against a sequential baseline",
}
