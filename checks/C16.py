"""C16 - the module cache never serves a partial download, whatever crashes or races."""
import json
import os
import re
import vlib

LEVEL = "proof"

TRUSTED = [
    "Coq 8.16.1 kernel; vm_compute used only for the refuted-variant witnesses and non-vacuity examples; no axioms (Print Assumptions: closed)",
    "hand-written Gallina model (Cache/Model.v) of mod/modcache fetch.go+cache.go (Fetch, FetchFromCache, ModFile, downloadZip1, downloadDir, writeDiskCache, lockVersion), modzip.Unzip's effect order, lockedfile.Mutex (flock(2) per open file description) and par.ErrCache.Do; file content abstracted to 'number of correct bytes written'",
    "assumptions of the model: flock(2) mutual exclusion and release at process death; rename(2), mkdir, unlink, O_EXCL create are atomic; a completed system call is durable across SIGKILL of the process (kill != power loss, no fsync/page-cache model); the registry client reports a short body as an error (as ociclient's verifying blob reader does); different module versions use disjoint paths",
    "correspondence: own ptrace(2) tracer (harness/c16/tracer.go) serialising and logging every cache-directory system call of every thread of the unmodified code, SIGKILL injected between two effects; projected label sequences folded through the extracted step function (ExtrOcamlBasic only; nat kept as Coq datatype); final abstract store, per-call results and GetZip counts compared",
    "Go harness harness/c16 (in-memory OCI registry ocimem with fault/delay wrapper, orchestrator, projection of syscalls to model labels), OCaml driver ocaml/c16_driver.ml",
]


def canon_impl(line):
    return [x.strip() for x in line.split("|")]


def match_model(impl, model_alt):
    """impl: 'store | results | gz' ; model_alt: one alternative 'store | results | gz | extras'."""
    i = canon_impl(impl)
    m = [x.strip() for x in model_alt.split("|")]
    if len(m) < 4:
        return "malformed model line"
    if i[0] != m[0]:
        return "final abstract store differs"
    ir, mr = i[1].split(), m[1].split()
    if len(ir) != len(mr):
        return "thread count differs"
    for a, b in zip(ir, mr):
        if a == "?":
            continue  # process was killed: its results are lost
        if a != b:
            return "result of a call differs (impl %s, model %s)" % (a, b)
    ig, mg = i[2].split(), m[2].split()
    for k, a in enumerate(ig):
        if a == "?":
            continue
        if k >= len(mg) or a != mg[k]:
            return "GetZip count of process %d differs (impl %s, model %s)" % (k, a, mg[k] if k < len(mg) else "-")
    if "recover=ok" not in m[3] and "recover=skip" not in m[3]:
        return "model's clean recovery run from the observed final state did not end with the complete directory: " + m[3]
    return None


EFF_ARITY = {"StatDir": "b", "StatMarker": "b", "StatZip": "b", "OpenMod": "b"}


def coq_label(tok):
    """case token -> Coq term of type (label * bool)."""
    p = tok.split(":")
    if p[0] == "S":
        return "(Spawn %s %s, false)" % (p[1], {"F": "KFetch", "C": "KFromCache", "M": "KModFile"}[p[2]])
    if p[0] == "X":
        return "(Crash %s, false)" % p[1]
    name, args = p[2], p[3:]
    if name in EFF_ARITY:
        return "(Eff %s (%s %s), true)" % (p[1], name, "true" if args[0] == "1" else "false")
    e = name if not args else "(%s %s)" % (name, " ".join(args))
    return "(Eff %s %s, false)" % (p[1], e)


def vm_crosscheck(ctx, cases, model, limit):
    """Evaluate the same acceptance function inside Coq (vm_compute) on a few cases and compare with
    the extracted OCaml run: guards the extraction and the driver's parsing/printing."""
    picked = []
    for c, m in zip(cases, model):
        toks = c.split("|", 1)[1].split()
        nums = [int(x) for x in re.findall(r"\d+", c.split(" ", 2)[2])]
        if len(toks) <= 260 and max(nums) < 2500 and "||" not in m and "sum=" in m:
            picked.append((c, m))
        if len(picked) >= limit:
            break
    if not picked:
        return 0
    src = ["From Verif Require Import Cache.Model Extract.C16.", "From Coq Require Import List.", "Import ListNotations."]
    for n, (c, m) in enumerate(picked):
        head = c.split("|", 1)[0].split()
        toks = c.split("|", 1)[1].split()
        src.append("Definition ls%d : list (label * bool) := [%s]." % (n, "; ".join(coq_label(t) for t in toks)))
        src.append("Eval vm_compute in (c16_run (c16_cfg %s %s [%s]) ls%d %s)." % (head[2], head[3], head[4].replace(",", "; "), n, head[5]))
    vf = os.path.join(ctx.work, "xcheck.v")
    open(vf, "w").write("\n".join(src) + "\n")
    p = vlib.run(["timeout", "600", "coqc", "-Q", os.path.join(vlib.COQ, "theories"), "Verif", vf], cwd=ctx.work, check=False)
    if p.returncode != 0:
        raise vlib.CheckFailure("vm_compute cross-check did not compile:\n" + p.stdout[-2000:])
    outs = re.findall(r"=\s*(in[lr]\b.*?)\n\s*:", p.stdout, re.S)
    if len(outs) != len(picked):
        raise vlib.CheckFailure("vm_compute cross-check: %d results for %d cases" % (len(outs), len(picked)))
    for (c, m), o in zip(picked, outs):
        o = " ".join(o.split())
        if not o.startswith("inl"):
            raise vlib.CheckFailure("vm_compute rejects a trace that the extracted model accepts: " + c[:300])
        sums, skipped = eval(o[3:].strip().replace(";", ","))
        want = eval(re.search(r"sum=(\[.*\])", m).group(1))
        sk = int(re.search(r"skipped=(\d+)", m).group(1))
        if sums != [want] or skipped != sk:
            raise vlib.CheckFailure("extraction/driver disagree with vm_compute on %s: %r vs %r" % (c[:120], sums, want))
    return len(picked)


def perturb(rng_state, toks):
    """One small corruption of a label sequence; returns (kind, tokens) or None."""
    # writes are left alone: reordering / dropping one chunk of a multi-chunk write (or of a temp file that
    # is removed again) is an equivalent history, not a corruption
    idx = [i for i, t in enumerate(toks) if t.startswith("E:") and t.split(":")[2] not in EFF_ARITY
           and not t.split(":")[2].startswith("Write")]
    if len(idx) < 4:
        return None, None
    rng_state[0], r = vlib.splitmix64(rng_state[0])
    kind = ["drop", "dup", "swap", "retarget"][r % 4]
    rng_state[0], r = vlib.splitmix64(rng_state[0])
    i = idx[r % len(idx)]
    out = list(toks)
    if kind == "drop":
        del out[i]
    elif kind == "dup":
        out.insert(i, out[i])
    elif kind == "swap":
        th = toks[i].split(":")[1]
        js = [j for j in idx if j > i and toks[j].split(":")[1] == th and toks[j] != toks[i]]
        if not js:
            return None, None
        j = js[0]
        out[i], out[j] = out[j], out[i]
    else:  # the effect is attributed to another (new) thread id
        p = out[i].split(":")
        p[1] = str(int(p[1]) + 97)
        out[i] = ":".join(p)
    return kind, out


def run(ctx):
    import time
    quick = ctx.tier == "quick"
    tm = {}
    t0 = time.time()

    def lap(name):
        nonlocal t0
        tm[name] = round(time.time() - t0, 1)
        t0 = time.time()
    proof = vlib.prove("C16", extra_targets=["theories/Extract/C16.vo"])
    if not quick:
        proof.update(vlib.coqchk("C16"))
        if proof["coqchk_rc"] != 0:
            raise vlib.CheckFailure("coqchk failed: " + proof["coqchk_tail"])
    lap("prove")
    exe = vlib.build_model("C16", "extract/C16.v", "ocaml/c16_driver.ml")
    lap("build_model")
    # VERIF_C16_OVERLAY: JSON {"<path relative to /repo>": "<replacement file>"} - lets a mutated copy of an
    # anchored file be compiled in through the build overlay without touching /repo (mutation testing only).
    shims = json.loads(os.environ.get("VERIF_C16_OVERLAY", "{}")) or None
    harness, hsecs = vlib.build_harness("c16", shims=shims)
    args = [harness, "run", "--seed", str(ctx.seed), "--out", ctx.work, "--tier", ctx.tier, "--jobs", "14"]
    if ctx.replay:
        rp = json.load(open(ctx.replay))
        cf = os.path.join(ctx.work, "replay_cases.txt")
        with open(cf, "w") as f:
            f.write(json.dumps(rp["history"]) + "\n")
        args += ["--replay-cases", cf]
    elif quick:
        args += ["--nconc", "20", "--npairs", "6"]
    else:
        # all pairs of crash points of the primary module shape, 300 sampled pairs for the two other shapes,
        # 240 concurrent histories; VERIF_C16_THOROUGH="<nconc>,<npairs>" scales this down on an overloaded machine
        nconc, npairs = (os.environ.get("VERIF_C16_THOROUGH") or "240,-1").split(",")
        args += ["--nconc", nconc, "--npairs", npairs]
    lap("build_harness")
    vlib.run(args, timeout=3000 if quick else 12000, stderr=None)
    lap("histories_under_tracer")
    cases = open(os.path.join(ctx.work, "cases.txt")).read().split("\n")[:-1]
    impl = open(os.path.join(ctx.work, "impl.txt")).read().split("\n")[:-1]
    results = [json.loads(l) for l in open(os.path.join(ctx.work, "results.jsonl"))]
    p = vlib.run([exe], input="\n".join(cases) + "\n", timeout=3000, stderr=None)
    model = p.stdout.split("\n")[:-1]
    lap("model_run")
    if not (len(cases) == len(impl) == len(model)):
        raise vlib.CheckFailure("line count mismatch cases=%d impl=%d model=%d" % (len(cases), len(impl), len(model)))
    by_id = {r["id"]: r for r in results}
    kinds = {}
    violations = 0
    accepted = 0
    labels = 0
    skipped = 0
    label_kinds = {}
    samples = []
    nontrivial = 0
    crashes = threads = events = ignored = avail = 0
    crash_points = {}
    for r in results:
        kinds[r["kind"]] = kinds.get(r["kind"], 0) + 1
        crashes += r["crashes"]
        threads += r["threads"]
        events += r["events"]
        ignored += r["ignored"]
        avail += r["avail_seen"]
        if r["kind"] == "clean" and r.get("effects"):
            crash_points[r["id"]] = r["effects"][0]
        if r["crashes"] > 0 or r["threads"] >= 4:
            nontrivial += 1
        if r.get("err"):
            raise vlib.CheckFailure("history %s could not be run: %s" % (r["id"], r["err"]))
        for v in (r.get("violations") or []):
            violations += 1
            if violations <= 5:
                ctx.violation({"kind": "property-violated-on-the-real-file-system", "what": v, "history": r["history"],
                               "replay": "bin/check C16 --replay <this file>"})
        for u in (r.get("unmapped") or [])[:1]:
            violations += 1
            if violations <= 5:
                ctx.violation({"kind": "effect-outside-the-modelled-protocol",
                               "what": "a state-changing system call on a protocol path has no counterpart in the model: " + u,
                               "history": r["history"], "replay": "bin/check C16 --replay <this file>"}, no_input=True)
    for c, i, m in zip(cases, impl, model):
        hid = c.split()[1].rsplit(".", 1)[0]
        toks = c.split("|", 1)[1].split()
        labels += len(toks)
        for t in toks:
            parts = t.split(":")
            k = parts[2] if parts[0] == "E" else parts[0]
            label_kinds[k] = label_kinds.get(k, 0) + 1
        why = None
        if m.startswith("REJECT") or m.startswith("DRIVER"):
            why = "the projected system-call sequence is not a run of the model: " + m
        else:
            errs = [match_model(i, alt) for alt in m.split("||")]
            if all(errs):
                why = errs[0]
            else:
                accepted += 1
                sk = re.search(r"skipped=(\d+)", m)
                skipped += int(sk.group(1)) if sk else 0
        if len(samples) < 3 and (hid.startswith("c") and hid.endswith(".23") or hid.startswith("k1")):
            samples.append({"case": c[:600], "impl": i, "model": m[:300]})
        if why:
            violations += 1
            if violations <= 5:
                ctx.violation({"kind": "impl-differs-from-proved-model", "what": why, "case": c[:4000], "impl": i, "model": m,
                               "history": by_id.get(hid, {}).get("history"),
                               "replay": "bin/check C16 --replay <this file>"}, no_input=True)
    # negative stream: corrupted label sequences must not be accepted with the observed outcome
    rs = [ctx.seed * 7919 + 17]
    neg_cases, neg_impl, neg_kind = [], [], []
    for c, i, m in zip(cases, impl, model):
        if m.startswith("REJECT") or len(neg_cases) >= (150 if quick else 1500):
            continue
        head, toks = c.split("|", 1)
        kind, out = perturb(rs, toks.split())
        if out:
            neg_cases.append(head + "| " + " ".join(out))
            neg_impl.append(i)
            neg_kind.append(kind)
    neg_detected = {}
    neg_total = {}
    if neg_cases:
        pn = vlib.run([exe], input="\n".join(neg_cases) + "\n", timeout=3000, stderr=None)
        for k, i, m in zip(neg_kind, neg_impl, pn.stdout.split("\n")[:-1]):
            neg_total[k] = neg_total.get(k, 0) + 1
            if m.startswith("REJECT") or m.startswith("DRIVER") or all(match_model(i, alt) for alt in m.split("||")):
                neg_detected[k] = neg_detected.get(k, 0) + 1
        if sum(neg_detected.values()) * 10 < sum(neg_total.values()) * 8:
            raise vlib.CheckFailure("trace acceptor is insensitive: only %d of %d corrupted traces detected" % (sum(neg_detected.values()), sum(neg_total.values())))
    lap("corrupted_stream")
    xchecked = vm_crosscheck(ctx, cases, model, 2 if quick else 8)
    lap("vm_compute_crosscheck")
    if not samples and cases:
        samples.append({"case": cases[0][:600], "impl": impl[0], "model": model[0][:300]})
    ctx.coverage.update({
        "obligations": proof["obligations"],
        "discharged": proof["discharged"],
        "checker_cmd": proof["checker_cmd"] + ("; coqchk -silent -o Verif.Properties.C16" if not quick else ""),
        "trusted_base": TRUSTED,
        "theorems": proof["theorems"],
        "axioms_reported": proof["axioms"],
        "audit_files": proof["audit_files"],
        "evaluations": len(results),
        "distinct_nontrivial": nontrivial,
        "rule": "one evaluation = one fault history run under the tracer on a fresh cache directory (1-4 stages of 1-3 traced processes x 1-3 goroutines). non-trivial = at least one injected SIGKILL or at least 4 traced Fetch/FetchFromCache/ModFile calls",
        "history_kinds": kinds,
        "crash_points_of_a_clean_fetch": crash_points,
        "traces_validated_against_impl": accepted,
        "version_traces": len(cases),
        "labels_checked": labels,
        "label_kinds": dict(sorted(label_kinds.items())),
        "stat_observations_skipped_as_noise": skipped,
        "syscall_events_traced": events,
        "events_without_model_label": ignored,
        "sigkills_injected": crashes,
        "traced_calls": threads,
        "stages_ending_with_directory_available": avail,
        "violations_found": violations,
        "corrupted_traces_run": neg_total,
        "corrupted_traces_detected": neg_detected,
        "vm_compute_crosschecked_cases": xchecked,
        "samples": samples,
        "harness_build_s": hsecs,
        "phase_seconds": tm,
        "proof": {k: v for k, v in proof.items() if k.startswith("coqchk") or k in ("make_s",)},
    })
    ctx.assumptions.extend(TRUSTED)


MANIFEST = {
    "category": "proof",
    "text": "Coq theorems over all interleavings of any number of processes/goroutines and all crash points of an executable model of modcache.Fetch/FetchFromCache/ModFile: an inductive invariant (directory present and unmarked => complete; cached zip / module file present => complete; flock discipline), reachable_safe (whenever the two-stat downloadDir test answers 'available' the directory is complete, TOCTOU included), recovery (from every reachable quiescent state a clean fetch terminates with the complete directory), refuted protocol variants showing which orderings are necessary. The model is tied to /repo by tracing the system calls of the unmodified code with an own ptrace tracer (SIGKILL at every crash point, pairs, registry faults, concurrent processes) and folding the projected effect sequence through the extracted step function.",
    "note": "Trusted: Coq kernel; hand-written model; flock/rename atomicity and durability of completed syscalls at process death (kill != power loss); extraction + OCaml driver; the tracer and the projection of syscalls to labels. One module version per model instance (versions are independent by path disjointness, checked by projection).",
    "technique": "Coq proof (inductive invariant over a small-step protocol model, fuelled clean-run function with termination proof) + ptrace-based trace refinement check against the real code",
}
