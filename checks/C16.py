"""C16 - the module cache never serves a partial download, whatever crashes or races."""
import json
import os
import re
import vlib

LEVEL = "proof"

TRUSTED = [
    "Coq 8.16.1 kernel; vm_compute used only for the refuted-variant witnesses and non-vacuity examples; no axioms (Print Assumptions: closed)",
    "hand-written Gallina model (Cache/Model.v) of mod/modcache fetch.go+cache.go (Fetch, FetchFromCache, ModFile, downloadZip1, downloadDir, writeDiskCache, lockVersion), modzip.Unzip's effect order, lockedfile.Mutex (flock(2) per open file description) and par.ErrCache.Do; file content abstracted to 'number of correct bytes written'",
    "assumptions of the model: flock(2) mutual exclusion and release at process death; rename(2), mkdir, unlink, O_EXCL create are atomic; a completed system call is durable across SIGKILL of the process (kill != power loss, no fsync/page-cache model); the registry client reports a short body as an error (as ociclient's verifying blob reader does); different module versions use disjoint paths",
    "correspondence: own ptrace(2) tracer (harness/c16/tracer.go) serialising and logging every cache-directory system call of every thread of the unmodified code, SIGKILL injected between two effects; projected label sequences folded through the extracted step function (ExtrOcamlBasic only; nat kept as Coq datatype); final abstract store, per-call results and GetZip counts compared",
    "Go harness harness/c16 (in-memory OCI registry ocimem with fault/delay wrapper, orchestrator, projection of syscalls to model labels), OCaml driver ocaml/c16_driver.ml",
]


def canon_impl(line):
    return [x.strip() for x in line.split("|")]


def match_model(impl, model_alt):
    """impl: 'store | results | gz' ; model_alt: one alternative 'store | results | gz | extras'."""
    i = canon_impl(impl)
    m = [x.strip() for x in model_alt.split("|")]
    if len(m) < 4:
        return "malformed model line"
    if i[0] != m[0]:
        return "final abstract store differs"
    ir, mr = i[1].split(), m[1].split()
    if len(ir) != len(mr):
        return "thread count differs"
    for a, b in zip(ir, mr):
        if a == "?":
            continue  # process was killed: its results are lost
        if a != b:
            return "result of a call differs (impl %s, model %s)" % (a, b)
    ig, mg = i[2].split(), m[2].split()
    for k, a in enumerate(ig):
        if a == "?":
            continue
        if k >= len(mg) or a != mg[k]:
            return "GetZip count of process %d differs (impl %s, model %s)" % (k, a, mg[k] if k < len(mg) else "-")
    if "recover=ok" not in m[3] and "recover=skip" not in m[3]:
        return "model's clean recovery run from the observed final state did not end with the complete directory: " + m[3]
    return None


def run(ctx):
    quick = ctx.tier == "quick"
    proof = vlib.prove("C16", extra_targets=["theories/Extract/C16.vo"])
    if not quick:
        proof.update(vlib.coqchk("C16"))
        if proof["coqchk_rc"] != 0:
            raise vlib.CheckFailure("coqchk failed: " + proof["coqchk_tail"])
    exe = vlib.build_model("C16", "extract/C16.v", "ocaml/c16_driver.ml")
    harness, hsecs = vlib.build_harness("c16")
    args = [harness, "run", "--seed", str(ctx.seed), "--out", ctx.work, "--tier", ctx.tier, "--jobs", "14"]
    if ctx.replay:
        rp = json.load(open(ctx.replay))
        cf = os.path.join(ctx.work, "replay_cases.txt")
        with open(cf, "w") as f:
            f.write(json.dumps(rp["history"]) + "\n")
        args += ["--replay-cases", cf]
    elif quick:
        args += ["--nconc", "20", "--npairs", "6"]
    else:
        args += ["--nconc", "240", "--npairs", "-1"]
    vlib.run(args, timeout=3000, stderr=None)
    cases = open(os.path.join(ctx.work, "cases.txt")).read().split("\n")[:-1]
    impl = open(os.path.join(ctx.work, "impl.txt")).read().split("\n")[:-1]
    results = [json.loads(l) for l in open(os.path.join(ctx.work, "results.jsonl"))]
    p = vlib.run([exe], input="\n".join(cases) + "\n", timeout=3000, stderr=None)
    model = p.stdout.split("\n")[:-1]
    if not (len(cases) == len(impl) == len(model)):
        raise vlib.CheckFailure("line count mismatch cases=%d impl=%d model=%d" % (len(cases), len(impl), len(model)))
    by_id = {r["id"]: r for r in results}
    kinds = {}
    violations = 0
    accepted = 0
    labels = 0
    skipped = 0
    label_kinds = {}
    samples = []
    nontrivial = 0
    crashes = threads = events = ignored = avail = 0
    crash_points = {}
    for r in results:
        kinds[r["kind"]] = kinds.get(r["kind"], 0) + 1
        crashes += r["crashes"]
        threads += r["threads"]
        events += r["events"]
        ignored += r["ignored"]
        avail += r["avail_seen"]
        if r["kind"] == "clean" and r.get("effects"):
            crash_points[r["id"]] = r["effects"][0]
        if r["crashes"] > 0 or r["threads"] >= 4:
            nontrivial += 1
        if r.get("err"):
            raise vlib.CheckFailure("history %s could not be run: %s" % (r["id"], r["err"]))
        for v in (r.get("violations") or []):
            violations += 1
            if violations <= 5:
                ctx.violation({"kind": "property-violated-on-the-real-file-system", "what": v, "history": r["history"],
                               "replay": "bin/check C16 --replay <this file>"})
        for u in (r.get("unmapped") or [])[:1]:
            violations += 1
            if violations <= 5:
                ctx.violation({"kind": "effect-outside-the-modelled-protocol",
                               "what": "a state-changing system call on a protocol path has no counterpart in the model: " + u,
                               "history": r["history"], "replay": "bin/check C16 --replay <this file>"}, no_input=True)
    for c, i, m in zip(cases, impl, model):
        hid = c.split()[1].rsplit(".", 1)[0]
        toks = c.split("|", 1)[1].split()
        labels += len(toks)
        for t in toks:
            parts = t.split(":")
            k = parts[2] if parts[0] == "E" else parts[0]
            label_kinds[k] = label_kinds.get(k, 0) + 1
        why = None
        if m.startswith("REJECT") or m.startswith("DRIVER"):
            why = "the projected system-call sequence is not a run of the model: " + m
        else:
            errs = [match_model(i, alt) for alt in m.split("||")]
            if all(errs):
                why = errs[0]
            else:
                accepted += 1
                sk = re.search(r"skipped=(\d+)", m)
                skipped += int(sk.group(1)) if sk else 0
        if len(samples) < 3 and (hid.startswith("c") and hid.endswith(".23") or hid.startswith("k1")):
            samples.append({"case": c[:600], "impl": i, "model": m[:300]})
        if why:
            violations += 1
            if violations <= 5:
                ctx.violation({"kind": "impl-differs-from-proved-model", "what": why, "case": c[:4000], "impl": i, "model": m,
                               "history": by_id.get(hid, {}).get("history"),
                               "replay": "bin/check C16 --replay <this file>"}, no_input=True)
    if not samples and cases:
        samples.append({"case": cases[0][:600], "impl": impl[0], "model": model[0][:300]})
    ctx.coverage.update({
        "obligations": proof["obligations"],
        "discharged": proof["discharged"],
        "checker_cmd": proof["checker_cmd"] + ("; coqchk -silent -o Verif.Properties.C16" if not quick else ""),
        "trusted_base": TRUSTED,
        "theorems": proof["theorems"],
        "axioms_reported": proof["axioms"],
        "audit_files": proof["audit_files"],
        "evaluations": len(results),
        "distinct_nontrivial": nontrivial,
        "rule": "one evaluation = one fault history run under the tracer on a fresh cache directory (1-4 stages of 1-3 traced processes x 1-3 goroutines). non-trivial = at least one injected SIGKILL or at least 4 traced Fetch/FetchFromCache/ModFile calls",
        "history_kinds": kinds,
        "crash_points_of_a_clean_fetch": crash_points,
        "traces_validated_against_impl": accepted,
        "version_traces": len(cases),
        "labels_checked": labels,
        "label_kinds": dict(sorted(label_kinds.items())),
        "stat_observations_skipped_as_noise": skipped,
        "syscall_events_traced": events,
        "events_without_model_label": ignored,
        "sigkills_injected": crashes,
        "traced_calls": threads,
        "stages_ending_with_directory_available": avail,
        "violations_found": violations,
        "samples": samples,
        "harness_build_s": hsecs,
        "proof": {k: v for k, v in proof.items() if k.startswith("coqchk") or k in ("make_s",)},
    })
    ctx.assumptions.extend(TRUSTED)


MANIFEST = {
    "category": "proof",
    "text": "Coq theorems over all interleavings of any number of processes/goroutines and all crash points of an executable model of modcache.Fetch/FetchFromCache/ModFile: an inductive invariant (directory present and unmarked => complete; cached zip / module file present => complete; flock discipline), reachable_safe (whenever the two-stat downloadDir test answers 'available' the directory is complete, TOCTOU included), recovery (from every reachable quiescent state a clean fetch terminates with the complete directory), refuted protocol variants showing which orderings are necessary. The model is tied to /repo by tracing the system calls of the unmodified code with an own ptrace tracer (SIGKILL at every crash point, pairs, registry faults, concurrent processes) and folding the projected effect sequence through the extracted step function.",
    "note": "Trusted: Coq kernel; hand-written model; flock/rename atomicity and durability of completed syscalls at process death (kill != power loss); extraction + OCaml driver; the tracer and the projection of syscalls to labels. One module version per model instance (versions are independent by path disjointness, checked by projection).",
    "technique": "Coq proof (inductive invariant over a small-step protocol model, fuelled clean-run function with termination proof) + ptrace-based trace refinement check against the real code",
}
