"""C02 sub-part: errors.Sanitize and internal/core/toposort against their proved Coq models.

run_part(ctx, quick) builds the extracted model (coq/theories/Robust/{Sanitize,Topo}.v via
coq/extract/C02s.v) and the Go harness harness/c02s, runs both on the same generated cases
and reports every disagreement as a violation.

Mutation testing without touching the repository: VERIF_C02_OVERLAY="rel=abs,rel=abs" adds
go-build overlay entries (file `rel` of the repository is replaced by the file `abs`).
"""
import json
import os
import time

import vlib

SHIMS = {"cue/errors/export_verif.go": "harness/c02s/shims/errors_export.go.txt"}

WHAT = {
    "SAN": "errors.Sanitize (cue/errors/errors.go removeMultiples / token.Pos.Compare) returns a different "
           "sequence of errors than the model proved order-independent, idempotent and duplicate-free "
           "(SanitizeProofs.sanitize_perm, sanitize_idempotent, sanitize_sorted_nodup)",
    "TOPO": "toposort Graph.Sort differs from the model proved independent of the map enumeration order "
            "(TopoProofs.topo_sort_perm_invariant) and, on DAGs, a complete edge-respecting order",
    "ORD": "field order of {..} & {..} reported by Value.Fields / Value.Syntax differs from merge_orders "
           "(TopoProofs.merge_orders_respects_each_order)",
    "ORDX": "field order of x: s0 & s1 (refs: merge_orders) or of implicitly unified / embedded struct literals "
            "(implicit_orders = order of first occurrence, TopoProofs.implicit_orders_spec) differs from the model",
}


def _overlay_shims():
    shims = dict(SHIMS)
    spec = os.environ.get("VERIF_C02_OVERLAY", "").strip()
    if spec:
        for part in spec.split(","):
            part = part.strip()
            if not part:
                continue
            rel, src = part.split("=", 1)
            # build_harness joins VERIF with src: an absolute src is kept as is by os.path.join
            shims[rel.strip()] = src.strip()
    return shims


def run_part(ctx, quick):
    t0 = time.time()
    rc, out, _ = vlib.coq_build(["theories/Extract/C02s.vo"])
    if rc != 0:
        raise vlib.CheckFailure("coq build of Extract/C02s failed:\n" + out[-3000:])
    exe = vlib.build_model("C02s", "extract/C02s.v", "ocaml/c02s_driver.ml")
    # VERIF_C02_TAGS=c02s_sanonly: SAN cases only (fast rebuilds while mutation-testing cue/errors, cue/token)
    harness, hsecs = vlib.build_harness("c02s", shims=_overlay_shims(), tags=os.environ.get("VERIF_C02_TAGS") or None)
    build_s = round(time.time() - t0, 1)

    work = os.path.join(ctx.work, "santopo")
    os.makedirs(work, exist_ok=True)
    args = [harness, "--seed", str(ctx.seed), "--out", work]
    replay_case = None
    if ctx.replay:
        rp = json.load(open(ctx.replay))
        replay_case = rp.get("santopo_cases") or ([rp["case"]] if str(rp.get("case", "")).split(" ")[0] in WHAT else None)
    if replay_case:
        cf = os.path.join(work, "replay_cases.txt")
        with open(cf, "w") as f:
            f.write("\n".join(replay_case) + "\n")
        args += ["--replay-cases", cf]
    elif quick:
        args += ["--nsan", "800", "--ntopo", "400", "--nord", "300"]
    else:
        args += ["--nsan", "12000", "--ntopo", "6000", "--nord", "3000"]
    t1 = time.time()
    vlib.run(args, timeout=1500)
    cases = open(os.path.join(work, "cases.txt")).read().split("\n")[:-1]
    impl = open(os.path.join(work, "impl.txt")).read().split("\n")[:-1]
    p = vlib.run([exe], input="\n".join(cases) + "\n", timeout=1500, stderr=None)
    model = p.stdout.split("\n")[:-1]
    run_s = round(time.time() - t1, 1)
    if not (len(cases) == len(impl) == len(model)):
        raise vlib.CheckFailure("santopo: line count mismatch cases=%d impl=%d model=%d" % (len(cases), len(impl), len(model)))

    kinds = {"SAN": 0, "TOPO": 0, "ORD": 0, "ORDX": 0}
    distinct = set()
    nontrivial = 0
    mismatches = 0
    samples = []
    latent = {"position": False, "payload": False}
    text_checked = 0
    group_base = {}      # SAN group id -> (base case line, model key sequence, model printed)
    cyclic = 0
    for c, i, m in zip(cases, impl, model):
        k = c.split(" ", 1)[0]
        kinds[k] = kinds.get(k, 0) + 1
        iv, _, iflags = i.partition(" | ")
        mv, _, mflags = m.partition(" | ")
        bad = None
        if iv != mv:
            bad = WHAT.get(k, "unknown case kind")
        if k == "SAN" and bad is None:
            gid = c.split(" ")[1]
            fl = dict(x.split("=", 1) for x in iflags.split() if "=" in x)
            mf = dict(x.split("=", 1) for x in mflags.split() if "=" in x)
            coh = mf.get("coh", "00")
            if fl.get("idem") == "0":
                bad = "errors.Sanitize is not idempotent on this list (model: sanitize_idempotent)"
            base = group_base.setdefault(gid, (c, mv))
            if coh == "11" and base[1] != mv:
                bad = ("the extracted model is order dependent on a coherent list, contradicting "
                       "SanitizeProofs.sanitize_perm (base order: %s -> %s)" % base)
            # rendered text must not depend on the order in which the errors were collected when the
            # list is position-coherent and either record-coherent or free of payload
            # (sanitize_perm / sanitize_keys_perm)
            if coh[0] == "1" and (coh[1] == "1" or fl.get("pf") == "1"):
                text_checked += 1
                if fl.get("txt") == "diff":
                    bad = ("errors.Details renders a permutation of the same coherent error list differently "
                           "(base order: %s)" % base[0])
            elif fl.get("txt") == "diff":
                latent["position" if coh[0] == "0" else "payload"] = True
        if k in ("TOPO", "ORD", "ORDX") and "STUCK" in mv:
            bad = "model got stuck (never expected): " + mv
        if c not in distinct:
            distinct.add(c)
            if k == "SAN":
                # non-trivial: at least 3 records and the result differs from the input order or drops something
                recs = c.split(" ")[3:]
                if len(recs) >= 3 and mv.split(" ")[1:] != [r.rsplit(";", 1)[1] for r in recs]:
                    nontrivial += 1
            elif k == "TOPO":
                if len(c.split("|")[1].split()) >= 2 and len(mv.split()) >= 3:
                    nontrivial += 1
            elif k in ("ORD", "ORDX"):
                if len(mv.split()) >= 3:
                    nontrivial += 1
        if len(samples) < 6 and len(c) < 300 and kinds[k] in (40, 41):
            samples.append({"case": c, "impl": i, "model": m})
        if bad:
            mismatches += 1
            if mismatches <= 5:
                payload = {"kind": "impl-differs-from-proved-model", "case": c, "impl": i, "model": m, "what": bad,
                           "replay": "bin/check C02 --replay <this file>"}
                if k == "SAN":
                    gid = c.split(" ")[1]
                    payload["santopo_cases"] = [group_base[gid][0], c] if gid in group_base and group_base[gid][0] != c else [c]
                ctx.violation(payload)
    stats = {}
    sp = os.path.join(work, "stats.txt")
    if os.path.exists(sp):
        for line in open(sp):
            a, b = line.split()
            stats[a] = int(b)
    return {
        "evaluations": len(cases),
        "distinct_nontrivial": nontrivial,
        "rule": "distinct case lines; SAN: >= 3 records and Sanitize reorders or drops; TOPO: >= 2 edges and >= 3 nodes sorted; "
                "ORD: >= 3 fields. SAN groups = one generated list + 2-3 shuffles (each its own case); TOPO graphs are built "
                "3 times with shuffled insertion order (plus the Go map's own order), each build twice inside the harness; "
                "ORD = x: {..} & {..} [& {..}], ORDX = the same orders as x: s0 & s1 (refs), x: {..} x: {..} (implicit), "
                "x: { {..} {..} } (embed), x: s0 x: s1 (refs-implicit); each compiled twice with fresh contexts, Value.Fields and "
                "Value.Syntax orders must agree; 1/5 of the order sets are unrelated shuffles (cyclic field graphs)",
        "case_kinds": kinds,
        "generator_classes": dict(sorted(stats.items())),
        "samples": samples,
        "mismatches": mismatches,
        "order_independence_of_text_checked": text_checked,
        "latent_order_dependence_observed": bool(latent["position"] or latent["payload"]),
        "latent_order_dependence": latent,
        "harness_build_s": hsecs,
        "build_s": build_s,
        "run_s": run_s,
        "overlay": os.environ.get("VERIF_C02_OVERLAY", ""),
    }
