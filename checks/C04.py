"""C04 - disjunctions and defaults follow the value/default-pair rules of the spec."""
import os
import vlib
from checks import _core

LEVEL = "proof"


import re as _re


def _no_acc(v):
    # in the fold-sensitive class the value cue returns as default may carry inconsistent conjuncts
    # (its own acceptance is part of known finding F2): compare kinds and pinned atom only
    return _re.sub(r"(V[01]+):[01]+:([01]+)", r"\1:\2", v)


def plausible(a, m):
    """impl result `a` on a fold-sensitive case whose spec answer is `m` (with ' LATE <survivors>')."""
    base, _, surv = m.partition(" LATE")
    af, mf = a.split(" "), base.split(" ")
    if af[2] != mf[2]:          # acceptance bits must agree in any case
        return False
    if af[0] == "AMBIG":
        return True
    if af[0] == "CHOSEN":
        return _no_acc(af[1]) in [_no_acc(x) for x in surv.strip().split(";")]
    return False


def _replay_kind(ctx):
    import json
    try:
        payload = json.load(open(ctx.replay))
        return payload.get("payload", payload).get("kind")
    except Exception:
        return None


def run(ctx):
    quick = ctx.tier == "quick"
    proof = vlib.prove("C04", extra_targets=["theories/Extract/Core.vo"])
    if not quick:
        proof.update(vlib.coqchk("C04"))
        if proof["coqchk_rc"] != 0:
            raise vlib.CheckFailure("coqchk failed: " + proof["coqchk_tail"])
    harness, exe, hsecs = _core.build()
    known = {k["id"]: k for k in vlib.known_findings("C04") if k.get("status") == "known"}
    n = 12000 if quick else 300000
    if ctx.replay and _replay_kind(ctx) == C04X_KIND:  # a recorded exploration case: only the stream c04x re-runs it
        n = 0
    cases, impl, model, src, meta = _core.run_mode(ctx, harness, exe, "c04", n)
    mism = viol = 0
    outcomes = {}
    sens = 0
    distinct = set()
    nontrivial = 0
    f2_hits = 0
    for i, (c, a, m, name) in enumerate(zip(cases, impl, model, meta)):
        outcomes[a.split(" ")[0]] = outcomes.get(a.split(" ")[0], 0) + 1
        sensitive = " LATE" in m
        sens += sensitive
        mm = m.split(" LATE")[0]
        if c not in distinct:
            distinct.add(c)
            if "*" in c.split("|", 2)[2] and not a.startswith("NOVALUE"):
                nontrivial += 1
        if a == mm:
            continue
        mism += 1
        kid = next((k for k in known if name.startswith(k)), None)
        if name != "gen":
            if kid:
                ctx.known_finding("%s (harness/core/disj.go corpus): cue gives `%s`, the spec's order-free answer is `%s` [finding %s]" % (name, a, mm, kid))
            else:
                viol += 1
                ctx.violation({"kind": "corpus-case-differs-from-spec", "case": name, "program": src[i], "impl": a, "spec_model": mm})
        elif sensitive and "F2" in known and plausible(a, m):
            f2_hits += 1
        else:
            viol += 1
            if viol <= 5:
                ctx.violation({"kind": "disjunction-result-differs-from-spec", "program": src[i], "impl": a, "spec_model": m,
                               "note": "not in the fold-sensitive class of known finding F2, or the result is not one of the surviving values"})
    if f2_hits:
        ctx.known_finding("F2: %d generated expressions in the fold-sensitive class (a marked disjunct eliminated late, or conflicting defaults) resolve differently from the order-free spec answer" % f2_hits if False else
                          "F2: generated expressions in the fold-sensitive class (a marked disjunct eliminated late, or conflicting defaults) resolve differently from the order-free spec answer")
    # EXPLORATION stream c04x (impl vs impl, NOT covered by the theorems' model): nested / struct-valued
    # disjuncts (harness/core/disjx.go) compared with order / duplicate / failed-disjunct rearrangements
    explo = run_c04x(ctx, harness, quick, known)
    nest = run_nest(ctx, harness, exe, quick, known) if not (ctx.replay and _replay_kind(ctx) == C04X_KIND) else {"skipped": "replay of another stream"}
    ctx.coverage.update({
        "nested_model_stream": nest,
        "exploration_c04x": explo,
        "obligations": proof["obligations"], "discharged": proof["discharged"],
        "checker_cmd": proof["checker_cmd"] + ("; coqchk -silent -o Verif.Properties.C04" if not quick else ""),
        "trusted_base": _core.CORE_TRUSTED + ["the left fold of cue's crossProduct (leftDropsDefault/rightDropsDefault, priorities) is NOT modelled; deviations from the order-free spec are recognised by the model-side predicate fold_sensitive"],
        "theorems": proof["theorems"], "axioms_reported": proof["axioms"],
        "evaluations": len(cases), "distinct_nontrivial": nontrivial,
        "rule": "conjunctions of 0-2 plain operands and 1-3 flat disjunctions of 1-3 disjuncts (atoms, basic types, bounds, small structs with regular fields), marks: none / one / several per disjunction, duplicates frequent; observables: resolution (chosen value / ambiguous / no value), value of the choice, acceptance of 11 probe atoms. non-trivial = distinct case with a mark whose value is not bottom",
        "samples": [{"program": src[i], "impl": impl[i], "model": model[i]} for i in (0, min(20, len(src) - 1))] if n else [],
        "outcomes": outcomes, "fold_sensitive_cases": sens, "mismatches": mism, "mismatches_in_known_class_F2": f2_hits,
        "violations_found": viol, "harness_build_s": hsecs,
    })
    ctx.assumptions.extend(_core.CORE_TRUSTED)


C04X_KIND = "rearrangement-of-disjuncts-changes-outcome (exploration)"
NEST_KIND = "nested-disjunction-result-differs-from-model"


def _nest_rows(x):
    """(kind, rows presence + field acceptance, node acceptance) of a nest result line"""
    f = x.split(" ")
    rows = None
    if f[0] == "CHOSEN" and f[1].startswith("{"):
        rows = [r if r == "-" else "=" + r.rsplit("/", 1)[1] for r in f[1][1:-1].split(",")]
    return f[0], rows, f[2]


def nest_plausible(a, m0):
    """fold-sensitive class (F2) at the node or in a field: the error status, the node's acceptance, the fields present
    and every field's acceptance must still agree; which default is reported may differ."""
    ka, ra, acca = _nest_rows(a)
    km, rm, accm = _nest_rows(m0)
    if acca != accm or (ka == "NOVALUE") != (km == "NOVALUE"):
        return False
    if ra is not None and rm is not None:
        return ra == rm
    return True


def run_nest(ctx, harness, exe, quick, known):
    """Model stream for Core/Nest.v: disjunctions as field values, struct-level disjunctions of such structs, struct probes
    unified in the language.  Exact agreement of resolution, chosen struct (per field: presence, resolution, chosen value,
    acceptance of 11 probe atoms), number of values of an unresolved node and node acceptance, outside the model-computed
    classes SENS (F2) and TWINS (F18(b))."""
    import json
    n = 1500 if quick else 60000
    cases, impl, model, src, meta = _core.run_mode(ctx, harness, exe, "nest", n)
    feats = {}
    try:
        feats = json.load(open(os.path.join(ctx.work, "nest", "features.json")))
    except Exception:
        pass
    outcomes, kinds = {}, {}
    sens = twins = agree = f2 = f18 = viol = ident = 0
    struct_chosen = field_ambig = 0
    distinct = set()
    for i, (c, a, m, name) in enumerate(zip(cases, impl, model, meta)):
        distinct.add(c)
        kinds[name.split(":")[0]] = kinds.get(name.split(":")[0], 0) + 1
        outcomes[a.split(" ")[0]] = outcomes.get(a.split(" ")[0], 0) + 1
        struct_chosen += a.startswith("CHOSEN {")
        field_ambig += "=A/" in a
        s = m.endswith(" SENS")
        m0 = m[:-5] if s else m
        t = m0.endswith(" TWINS")
        m0 = m0[:-6] if t else m0
        sens += s
        twins += t
        if a == m0:
            agree += 1
            continue
        if t and "F18" in known:
            f18 += 1
            continue
        if s and "F2" in known and nest_plausible(a, m0):
            f2 += 1
            continue
        def _n(x):
            f = x.split(" ")
            return int(f[1]) if f[0] == "AMBIG" and len(f) > 1 and f[1].isdigit() else (1 if f[0] == "CHOSEN" else None)
        if a.startswith("AMBIG") and _n(m0) is not None and _n(a) is not None and _n(m0) < _n(a):
            # model incompleteness, not a verdict about cue (DESIGN 10.9): NestCUE identifies the value of a field by its
            # resolution and its acceptance of the probe atoms, so two struct alternatives whose fields differ only outside
            # the probes are merged by the model (fewer surviving values: CHOSEN, or AMBIG m) while cue keeps them apart (AMBIG n, n > m). Counted, not raised;
            # the opposite direction and every other difference stay violations.
            ident += 1
            continue
        viol += 1
        if viol <= 5:
            ctx.violation({"kind": NEST_KIND, "program": src[i], "case": c, "impl": a, "spec_model": m,
                           "note": "x: fields with disjunction values / disjunctions of such structs; model = coq/theories/Core/Nest.v; "
                                   "not in the classes SENS (F2) / TWINS (F18b) computed by the model, or implausible inside them"})
    if f18:
        ctx.known_finding("F18: generated struct disjuncts that differ only in the default marks of a field disjunction after unification "
                          "(model flag TWINS, Core/Nest.v nest_twins) are merged by cue, the first one's marks win")
    if f2:
        ctx.known_finding("F2: generated nested expressions in the fold-sensitive class (node or field) report a different default than the order-free spec answer")
    return {
        "label": "MODEL stream (extracted Core/Nest.v vs cue): disjunctions as field values and disjunctions of such structs",
        "evaluations": len(cases), "distinct_cases": len(distinct), "agree_exactly": agree,
        "case_kinds": kinds, "outcomes": outcomes, "chosen_structs": struct_chosen, "results_with_ambiguous_field": field_ambig,
        "features": feats, "fold_sensitive_cases(SENS)": sens, "twin_cases(TWINS)": twins,
        "mismatches_in_known_class_F2": f2, "mismatches_in_known_class_F18": f18, "model_identity_incomplete_ambig_vs_chosen": ident, "violations_found": viol,
        "samples": [{"program": src[i], "impl": impl[i], "model": model[i]} for i in (0, min(40, len(src) - 1))] if src else [],
    }

# Witness pairs of finding F18 (design/Core.md, proposed in design/C04x.findings.json): the same disjuncts, reordered.
# Evaluated on every run before the generated expressions.  A KNOWN-FINDING line is printed only while a pair
# disagrees AND the id is listed as `known` in known_findings.json; the generator stays out of the class either way.
F18_PAIRS = [
    ("a-inner-order-blocks-merge", "x: {a: 1 | 3} | {a: 1 | 3}\n", "x: {a: 1 | 3} | {a: 3 | 1}\n"),
    ("a-inner-order-blocks-merge-list", "x: [1 | 3] | [1 | 3]\n", "x: [1 | 3] | [3 | 1]\n"),
    ("b-first-twin-decides-nested-default", "x: {a: *1 | 3} | {a: 1 | 3}\n", "x: {a: 1 | 3} | {a: *1 | 3}\n"),
    ("b-first-twin-decides-nested-default-list", "x: [*1 | 3] | [1 | 3]\n", "x: [1 | 3] | [*1 | 3]\n"),
]


# Witness pairs of finding F19 (design/Core.md, proposed in design/C04x.findings.json; found by hand while following a
# side remark of seeded/c04-2/README.txt, NOT in the generated fragment: the expression has TWO disjunction operands).
# Same protocol as F18.  The probes make the lost acceptance visible in the language.
F19_PROBES = ["{a: 1, b: 1}", "{a: 3, b: 1}", "{a: 3, b: 2}", "{a: 4, b: 2}", "{a: 2, b: 1}", "[3]", "[1]"]
F19_PAIRS = [
    ("later-disjunct-dropped", "x: ({a: 1 | 2} | {a: 3 | 4}) & ({b: 1} | {b: 2})\n", "x: ({a: 3 | 4} | {a: 1 | 2}) & ({b: 1} | {b: 2})\n"),
    ("later-disjunct-dropped-same-width", "x: ({a: 1 | 2} | {a: 1 | 3}) & ({b: 1} | {b: 2})\n", "x: ({a: 1 | 3} | {a: 1 | 2}) & ({b: 1} | {b: 2})\n"),
    ("later-disjunct-dropped-failing-second", "x: ({a: 1 | 2} | {a: 1 | 3}) & ({b: 1} | 7)\n", "x: ({a: 1 | 3} | {a: 1 | 2}) & ({b: 1} | 7)\n"),
    ("later-disjunct-dropped-list", "x: ([1 | 2] | [1 | 3]) & ([_] | [int])\n", "x: ([1 | 3] | [1 | 2]) & ([_] | [int])\n"),
]


def run_witness_pairs(ctx, harness, known, fid, pairs, probes, what):
    import json
    d = os.path.join(ctx.work, "c04x-" + fid.lower())
    os.makedirs(d, exist_ok=True)
    rc = os.path.join(d, "pairs.json")
    json.dump([{"name": nm, "expr": a, "variant": b, "probes": probes or []} for nm, a, b in pairs], open(rc, "w"))
    vlib.run([harness, "--mode", "c04x", "--out", d, "--replay-cases", rc], timeout=600)
    rep = json.load(open(os.path.join(d, "report.json")))
    bad = [c for c in rep.get("evaluated") or [] if c.get("differs_raw")]
    listed = fid in known
    if bad and listed:
        w = bad[0]
        ctx.known_finding("%s (c04x witness pairs, %d of %d disagree: %s): %s, e.g. `%s` evaluates to %s (accepts %s) but `%s` to %s (accepts %s)"
                          % (fid, len(bad), len(pairs), ", ".join(c.get("name", "?") for c in bad), what, w["expr"].strip(),
                             w["obs_a"]["disjuncts"], w["obs_a"]["accepts"], w["variant"].strip(), w["obs_b"]["disjuncts"], w["obs_b"]["accepts"]))
    return {"pairs": len(pairs), "disagreeing": len(bad), "disagreeing_names": [c.get("name") for c in bad],
            "listed_in_known_findings": listed}


def run_c04x(ctx, harness, quick, known):
    """Exploration (no model, no theorem): expressions of harness/core/disjx.go, each with 6 rearrangements that
    Properties/C04.v says preserve the outcome (disjunct order, duplicates, weaker copies, failed disjuncts).
    The four observations must be equal.  At most 5 replays."""
    import json
    import time
    f18 = run_witness_pairs(ctx, harness, known, "F18", F18_PAIRS, None,
                            "reordering disjuncts changes the outcome when struct/list disjuncts hold a nested disjunction")
    f19 = run_witness_pairs(ctx, harness, known, "F19", F19_PAIRS, F19_PROBES,
                            "a struct/list disjunct holding a nested disjunction is dropped when a second disjunction operand follows")
    d = os.path.join(ctx.work, "c04x")
    os.makedirs(d, exist_ok=True)
    args = [harness, "--mode", "c04x", "--seed", str(ctx.seed), "--out", d, "--max-replays", "5"]
    if ctx.replay:
        payload = json.load(open(ctx.replay))
        payload = payload.get("payload", payload)
        if payload.get("kind") != C04X_KIND:
            return {"skipped": "replay of another stream", "F18_witness_pairs": f18, "F19_witness_pairs": f19}
        rc = os.path.join(d, "replay-cases.json")
        json.dump([{"expr": payload["expr"], "variant": payload["variant"], "probes": payload.get("probes") or []}], open(rc, "w"))
        args += ["--replay-cases", rc]
    else:
        args += ["--n", str(1500 if quick else 40000), "--k", "6"]
    t0 = time.time()
    vlib.run(args, timeout=3000)
    secs = round(time.time() - t0, 1)
    rep = json.load(open(os.path.join(d, "report.json")))
    for dis in (rep.get("disagreements") or [])[:5]:
        ctx.violation({"kind": C04X_KIND, "expr": dis["expr"], "variant": dis["variant"],
                       "obs_a": dis["obs_a"], "obs_b": dis["obs_b"], "probes": dis.get("probes"),
                       "rearrangement": dis.get("rearrangement"), "shrunk": dis.get("shrunk"),
                       "expr_before_shrinking": dis.get("expr_before_shrinking"), "features": dis.get("features"),
                       "note": "obs = resolution after iterating Default() (CHOSEN value / AMBIG / NOVALUE), Validate(Concrete), "
                               "the sorted set of disjuncts of the evaluated value (* = default), acceptance bits of the probes "
                               "computed in the language as (expr) & probe"})
    feats = rep.get("features", {})
    return {
        "label": "EXPLORATION (impl vs impl on nested / struct-valued disjuncts; not a proof, not tied to the Coq model)",
        "exploration_expressions": rep.get("expressions", 0),
        "exploration_distinct_expressions": rep.get("distinct_expressions", 0),
        "exploration_variants": rep.get("variants", 0),
        "shapes": {k: feats.get(k, 0) for k in ("nested-marked", "dup-outer-inner", "struct-with-disjunction-field",
                                                 "list-with-disjunction", "via-reference")},
        "features": feats,
        "rearrangement_kinds": rep.get("rearrangement_kinds", {}),
        "outcomes": rep.get("outcomes", {}),
        "probes_avg": rep.get("probes_avg"),
        "not_evaluated": rep.get("not_evaluated", 0),
        "disagreements": rep.get("disagreement_count", 0),
        "excluded_class_unmerged_equal_disjuncts": rep.get("unmerged_equal_disjuncts"),
        "F18_witness_pairs": f18,
        "F19_witness_pairs": f19,
        "wall_s": secs,
        "samples": (rep.get("samples") or [])[:2],
        "relations_used": "C04_disjunct_order_independent, C04_duplicate_disjunct, C04_weaker_copy_irrelevant, "
                          "C04_failed_disjunct_irrelevant (never operand order of &: F2; never re-association of marked groups: O-nested)",
        "excluded_classes": "F18(a): an evaluated disjunction holding two disjuncts equal up to the order of a nested disjunction "
                            "(recognised on the evaluated value; then only acceptance is compared); F18(b): marks inside fields "
                            "of struct/list disjuncts that have a twin of the same shape (not generated)",
    }


MANIFEST = {
    "category": "proof",
    "text": "Coq theorems about the order-free value/default semantics of Core/Disj.v (survivors of the cross product, effectively marked disjunctions, defaults, resolution): acceptance is the union over disjuncts distributed over &; a resolution is the unique default or else the unique value and always the value of a surviving choice (never silently chosen); failed disjuncts (marked or not) and duplicates do not change values, default flags or resolution; a choice's value does not depend on operand order; the spec's table rows and the order-free answer for the F2 witness are checked Examples. Tied to cue by exact agreement of resolution, chosen value and atom acceptance on generated expressions outside the model-computed fold-sensitive class; inside that class (known finding F2: cue's left fold is order dependent) the implementation's answer must still be ambiguity or one of the surviving values with identical acceptance. Disjunctions BELOW the top level are modelled too (Core/Nest.v over the generic Core/DisjGen.v): structs whose fields hold disjunctions and disjunctions of such structs; proved: value/default pairs propagate through fields (a surviving struct reports at every field exactly the outcome of everything unified into it), a failed field fails the struct and such a disjunct changes nothing, never-silent resolution, acceptance as union, independence of operand order / disjunct order / duplicates / weaker copies one level up; tied by a second model stream (mode nest) comparing resolution, per-field presence / resolution / chosen value / acceptance and in-language struct probes exactly.",
    "note": "Nested model stream: field disjuncts are scalars, structs are open literals with regular fields, one nesting level (node -> fields); the model-computed classes SENS (F2 where two disjunctions meet, at the node or a field) and TWINS (F18(b)) are compared loosely / set aside, and the generator stays out of F18(a)/F19 by construction (design/Core.md, NestCUE). cue's crossProduct fold is not modelled (no Impl layer): F2 instances are recognised by the predicate fold_sensitive (late elimination of all marked disjuncts of a disjunction, or conflicting defaults) computed by the model. Disjunct structs use regular fields only (known finding F9 concerns optional fields). Permutation invariance of the outcome under reordering of the disjunctions is a theorem (C04_operand_order_independent, C04_nest_operand_order_independent). An additional EXPLORATION stream (mode c04x, harness/core/disjx.go; impl vs impl, no model) compares expressions with parenthesised nested disjunctions (unmarked outer, marked inner; also reached through a reference), struct/list disjuncts whose fields/elements are disjunctions, and an optional plain operand with 6 rearrangements each that the theorems C04_disjunct_order_independent / C04_duplicate_disjunct / C04_weaker_copy_irrelevant / C04_failed_disjunct_irrelevant say preserve the outcome (never operand order of &, never re-association of marked groups), observing the resolution after iterating Default(), Validate(Concrete), the sorted set of disjuncts of the evaluated value and in-language acceptance of probe atoms/structs/lists. It sets aside the class of finding F18 (struct/list disjuncts equal up to the order or the default marks of a nested disjunction are merged depending on disjunct order); the witness pairs of F18 and of F19 (disjuncts dropped when a second disjunction operand follows; outside the generated fragment) are evaluated on every run and reported as KNOWN-FINDING only while they disagree and the id is listed.",
    "technique": "Coq proof about an order-free spec model of defaults + extracted-model differential check with model-side classification of the known order-dependence",
}
