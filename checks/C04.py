"""C04 - disjunctions and defaults follow the value/default-pair rules of the spec."""
import vlib
from checks import _core

LEVEL = "proof"


import re as _re


def _no_acc(v):
    # in the fold-sensitive class the value cue returns as default may carry inconsistent conjuncts
    # (its own acceptance is part of known finding F2): compare kinds and pinned atom only
    return _re.sub(r"(V[01]+):[01]+:([01]+)", r"\1:\2", v)


def plausible(a, m):
    """impl result `a` on a fold-sensitive case whose spec answer is `m` (with ' LATE <survivors>')."""
    base, _, surv = m.partition(" LATE")
    af, mf = a.split(" "), base.split(" ")
    if af[2] != mf[2]:          # acceptance bits must agree in any case
        return False
    if af[0] == "AMBIG":
        return True
    if af[0] == "CHOSEN":
        return _no_acc(af[1]) in [_no_acc(x) for x in surv.strip().split(";")]
    return False


def run(ctx):
    quick = ctx.tier == "quick"
    proof = vlib.prove("C04", extra_targets=["theories/Extract/Core.vo"])
    if not quick:
        proof.update(vlib.coqchk("C04"))
        if proof["coqchk_rc"] != 0:
            raise vlib.CheckFailure("coqchk failed: " + proof["coqchk_tail"])
    harness, exe, hsecs = _core.build()
    known = {k["id"]: k for k in vlib.known_findings("C04") if k.get("status") == "known"}
    n = 12000 if quick else 300000
    cases, impl, model, src, meta = _core.run_mode(ctx, harness, exe, "c04", n)
    mism = viol = 0
    outcomes = {}
    sens = 0
    distinct = set()
    nontrivial = 0
    f2_hits = 0
    for i, (c, a, m, name) in enumerate(zip(cases, impl, model, meta)):
        outcomes[a.split(" ")[0]] = outcomes.get(a.split(" ")[0], 0) + 1
        sensitive = " LATE" in m
        sens += sensitive
        mm = m.split(" LATE")[0]
        if c not in distinct:
            distinct.add(c)
            if "*" in c.split("|", 2)[2] and not a.startswith("NOVALUE"):
                nontrivial += 1
        if a == mm:
            continue
        mism += 1
        kid = next((k for k in known if name.startswith(k)), None)
        if name != "gen":
            if kid:
                ctx.known_finding("%s (harness/core/disj.go corpus): cue gives `%s`, the spec's order-free answer is `%s` [finding %s]" % (name, a, mm, kid))
            else:
                viol += 1
                ctx.violation({"kind": "corpus-case-differs-from-spec", "case": name, "program": src[i], "impl": a, "spec_model": mm})
        elif sensitive and "F2" in known and plausible(a, m):
            f2_hits += 1
        else:
            viol += 1
            if viol <= 5:
                ctx.violation({"kind": "disjunction-result-differs-from-spec", "program": src[i], "impl": a, "spec_model": m,
                               "note": "not in the fold-sensitive class of known finding F2, or the result is not one of the surviving values"})
    if f2_hits:
        ctx.known_finding("F2: %d generated expressions in the fold-sensitive class (a marked disjunct eliminated late, or conflicting defaults) resolve differently from the order-free spec answer" % f2_hits if False else
                          "F2: generated expressions in the fold-sensitive class (a marked disjunct eliminated late, or conflicting defaults) resolve differently from the order-free spec answer")
    ctx.coverage.update({
        "obligations": proof["obligations"], "discharged": proof["discharged"],
        "checker_cmd": proof["checker_cmd"] + ("; coqchk -silent -o Verif.Properties.C04" if not quick else ""),
        "trusted_base": _core.CORE_TRUSTED + ["the left fold of cue's crossProduct (leftDropsDefault/rightDropsDefault, priorities) is NOT modelled; deviations from the order-free spec are recognised by the model-side predicate fold_sensitive"],
        "theorems": proof["theorems"], "axioms_reported": proof["axioms"],
        "evaluations": len(cases), "distinct_nontrivial": nontrivial,
        "rule": "conjunctions of 0-2 plain operands and 1-3 flat disjunctions of 1-3 disjuncts (atoms, basic types, bounds, small structs with regular fields), marks: none / one / several per disjunction, duplicates frequent; observables: resolution (chosen value / ambiguous / no value), value of the choice, acceptance of 11 probe atoms. non-trivial = distinct case with a mark whose value is not bottom",
        "samples": [{"program": src[i], "impl": impl[i], "model": model[i]} for i in (0, min(20, len(src) - 1))],
        "outcomes": outcomes, "fold_sensitive_cases": sens, "mismatches": mism, "mismatches_in_known_class_F2": f2_hits,
        "violations_found": viol, "harness_build_s": hsecs,
    })
    ctx.assumptions.extend(_core.CORE_TRUSTED)


MANIFEST = {
    "category": "proof",
    "text": "Coq theorems about the order-free value/default semantics of Core/Disj.v (survivors of the cross product, effectively marked disjunctions, defaults, resolution): acceptance is the union over disjuncts distributed over &; a resolution is the unique default or else the unique value and always the value of a surviving choice (never silently chosen); failed disjuncts (marked or not) and duplicates do not change values, default flags or resolution; a choice's value does not depend on operand order; the spec's table rows and the order-free answer for the F2 witness are checked Examples. Tied to cue by exact agreement of resolution, chosen value and atom acceptance on generated expressions outside the model-computed fold-sensitive class; inside that class (known finding F2: cue's left fold is order dependent) the implementation's answer must still be ambiguity or one of the surviving values with identical acceptance.",
    "note": "cue's crossProduct fold is not modelled (no Impl layer): F2 instances are recognised by the predicate fold_sensitive (late elimination of all marked disjuncts of a disjunction, or conflicting defaults) computed by the model. Disjunct structs use regular fields only (known finding F9 concerns optional fields). Permutation invariance of the whole value/default pair under reordering of the disjunctions is checked by the harness, not yet a theorem (tuple-level order-freeness is).",
    "technique": "Coq proof about an order-free spec model of defaults + extracted-model differential check with model-side classification of the known order-dependence",
}
