"""C13 - JSON Schema translation preserves which instances are valid."""
import collections
import json
import os
import vlib

LEVEL = "proof"

TRUSTED = [
    "Coq 8.16.1 kernel; no axioms (Print Assumptions: closed under the global context); the regexp engine is a Section variable (every theorem holds for every oracle)",
    "hand-written Gallina model: Schema/Sem.v (JSON Schema 2020-12 validity, from the specification) and Schema/Encode.v (schemaState/finalize and the constraint* functions of encoding/jsonschema as semantic combinators, with the semantics of matchN/matchIf/closed structs/list and struct validators as predicates over JSON values)",
    "correspondence: extracted OCaml model (ExtrOcamlBasic only; N/Z/nat kept as Coq datatypes) vs jsonschema.Extract -> cue.Context.BuildFile -> instance.Unify(schema).Validate(Concrete(true)) built from /repo's working tree via go build -overlay",
    "regexp verdicts of every (pattern, string) pair of a case are computed by Go's regexp package and passed to the model as a table",
    "OCaml driver ocaml/c13_driver.ml (case parsing/printing); Go harness harness/c13 (schema/instance generators, strict JSON-Schema -> AST converter used for the test-suite and for the schemas generated back)",
    "the vendored JSON-Schema-Test-Suite (draft2020-12) as an independent validation of Schema/Sem.v",
    "generator domain restricted as listed in design/C13.md (numbers are multiples of 1/2; constructs whose CUE meaning is decided by evaluator closedness bugs at the file root are kept out)",
]

DEV_CLASSES = {
    "2": "C13-F2 allOf member `false` is dropped (boolean schema has no constraints): the schema accepts instances (decode.go schemaState bool branch; allOf_false_member_refuted)",
    "3": "C13-F3 propertyNames becomes the pattern constraint {[names]: _}, which does not restrict property names (constraints_object.go constraintPropertyNames; propertyNames_refuted)",
    "4": "C13-F4 required name that is not a property is added as name!: _ inside close({...}): additionalProperties:false admits it (constraints_object.go constraintRequired; required_closed_refuted)",
    "5": "C13-F5 prefixItems [a, b, ...] needs every prefix element to be present (constraints_array.go constraintPrefixItems; prefixItems_refuted; also recorded as skips in the vendored test-suite)",
    "7": "C13-F7 matchIf / list.MatchN called with an error value (`false` as if/then/else/contains) fails for every instance",
    "8": "C13-F8 duplicate property names",
    "12": "C13-F13 close({..}) unified with a conjunct that has an open struct alternative ({...} or a literal with `...`): through cue.Value.Unify the closedness is lost (evaluator; e.g. additionalProperties:false next to a hoisted anyOf/allOf/oneOf member or a $ref); schemas of this class are compared but a disagreement is reported as this finding",
    "11": "C13-F11 an error value (`false`, or a subschema no type can satisfy) as a member of a matchN list: correct on its own, but next to a second validator the evaluator rejects list/struct instances (evaluator interaction, observed; schemas of this class are compared but a disagreement is reported as this finding)",
    "9": "C13-F9 oneOf whose members have no constraints and disjoint type masks is encoded by the union of the masks; a member `false` counts as its full mask, so oneOf:[false] accepts instances (constraints_combinator.go constraintOneOf; oneOf_false_member_refuted)",
}

# deviation classes whose CUE meaning depends on evaluator interactions that Schema/Encode.v does not model
UNMODELLED = {"7", "11", "12"}

SCALAR_KEYS = {"type", "enum", "const", "multipleOf", "exclusiveMaximum", "exclusiveMinimum", "maximum", "minimum",
               "maxLength", "minLength", "pattern", "maxProperties", "minProperties", "maxItems", "minItems",
               "uniqueItems", "required"}
REVERSE_SUB_KEYS = {"anyOf", "oneOf", "not", "if", "then", "else", "items", "contains"}


def flat(s):
    return s is True or (isinstance(s, dict) and set(s) <= SCALAR_KEYS)


def reverse_domain(s):
    """Schemas on which Generate(Extract(s)) was validated to accept exactly what the CUE accepts
    (unchanged tree, seeds 1..8): assertion keywords, and anyOf/oneOf/not/if/then/else/items/contains
    over flat members; no properties/patternProperties/additionalProperties/allOf/$ref/false/
    propertyNames/prefixItems/minContains/maxContains (Generate is documented as best effort there)."""
    if s is True:
        return True
    if not isinstance(s, dict):
        return False
    for k, v in s.items():
        if k in SCALAR_KEYS:
            continue
        if k not in REVERSE_SUB_KEYS:
            return False
        if k in ("anyOf", "oneOf"):
            if not all(flat(x) for x in v):
                return False
        elif not flat(v):
            return False
    return True


def run(ctx):
    quick = ctx.tier == "quick"
    proof = vlib.prove("C13", extra_targets=["theories/Extract/C13.vo"])
    if not quick:
        proof.update(vlib.coqchk("C13"))
        if proof["coqchk_rc"] != 0:
            raise vlib.CheckFailure("coqchk failed: " + proof["coqchk_tail"])
    exe = vlib.build_model("C13", "extract/C13.v", "ocaml/c13_driver.ml")
    harness, hsecs = vlib.build_harness("c13")
    suite = os.path.join(vlib.REPO, "encoding", "jsonschema", "testdata", "external", "tests", "draft2020-12")
    args = [harness, "--seed", str(ctx.seed), "--out", ctx.work]
    if ctx.replay:
        rp = json.load(open(ctx.replay))
        cf = os.path.join(ctx.work, "replay_cases.txt")
        with open(cf, "w") as f:
            f.write(rp.get("case", "") + "\n")
        args += ["--replay-cases", cf]
    else:
        args += ["--suite", suite, "--corpus", os.path.join(vlib.VERIF, "corpus", "C13", "cases.jsonl"),
                 "--n", "2500" if quick else "40000", "--ninst", "8"]
    vlib.run(args, timeout=3000, stderr=None)
    rd = lambda n: open(os.path.join(ctx.work, n)).read().split("\n")[:-1]
    cases, impl, info = rd("cases.txt"), rd("impl.txt"), rd("info.txt")
    stats = dict(l.rsplit(" ", 1) for l in rd("stats.txt"))
    p = vlib.run([exe], input="\n".join(cases) + "\n", timeout=3000, stderr=None)
    model = p.stdout.split("\n")[:-1]
    if not (len(cases) == len(impl) == len(model) == len(info)):
        raise vlib.CheckFailure("line count mismatch cases=%d impl=%d model=%d info=%d" % (len(cases), len(impl), len(model), len(info)))

    st = collections.Counter()
    dev_seen = collections.Counter()
    samples = []
    nviol = 0
    distinct = set()
    nontrivial = 0

    def violation(kind, what, i, extra=None):
        nonlocal nviol
        nviol += 1
        if nviol > 6:
            return
        d = json.loads(info[i])
        cs = {"schema": d.get("schema"), "instances": d.get("instances")}
        if "text" in d:
            cs["text"] = d["text"]
        payload = {"kind": kind, "what": what, "schema": d.get("schema"), "instances": d.get("instances"),
                   "impl": impl[i], "model": model[i], "case": json.dumps(cs),
                   "replay": "bin/check C13 --replay <this file>"}
        if "generated" in d:
            payload["generated"] = d["generated"]
        if extra:
            payload.update(extra)
        ctx.violation(payload)

    f14_hits = []
    for i, (c, im, mo) in enumerate(zip(cases, impl, model)):
        tag = c[0]
        if mo.startswith("BADCASE"):
            raise vlib.CheckFailure("model driver could not parse case %d: %s" % (i, mo))
        if tag == "F":
            st["forward_schemas"] += 1
            if c not in distinct:
                distinct.add(c)
                if mo != "U" and "1" in mo.split(" ")[1] and "0" in mo.split(" ")[1]:
                    nontrivial += 1
            if im.startswith("P"):
                st["import_panics"] += 1
                if im != "P known":
                    violation("panic", "the importer or the evaluator panicked while compiling the imported schema", i)
                continue
            if im == "X" or mo == "U":
                if im == "X" and mo == "U":
                    st["extract_error_predicted"] += 1
                else:
                    violation("import-outcome", "jsonschema.Extract error (impl X) and the model's `unsupported` (model U) do not coincide", i)
                continue
            mk, v, e, dev = mo.split(" ")
            ik, ib = im.split(" ")
            if mk == "C":
                if ik == "C" and set(ib) <= set("0"):
                    st["compile_error_predicted"] += 1
                else:
                    violation("import-outcome", "the model predicts that the generated file is an error value as a whole (`poisoned`), the implementation does not report that", i)
                continue
            if ik == "C" and set(ib) <= set("0") and "1" in v and '$defs' in info[i]:
                # C13-F14: an unsatisfiable DEFINITION (e.g. a required property whose schema is false) makes the whole
                # imported file an error value although the definition is only referenced below items/properties, so
                # instances that never reach it (e.g. []) are rejected. cue really does this (cue vet: #d1.c: disallowed).
                st["definition_poisons_file_F14"] += 1
                f14_hits.append(i)
                continue
            if ik == "C":
                st["schema_value_err_but_usable"] += 1
            devhit = False
            for k, (a, b, cc) in enumerate(zip(ib, e, v)):
                if a == "P":
                    st["verdict_panics"] += 1
                    continue
                if a == "Q":
                    violation("panic", "the evaluator panicked on instance %d" % k, i)
                    break
                st["forward_verdicts"] += 1
                if a == "1":
                    st["forward_valid"] += 1
                if a != b and (set(dev.split(",")) & UNMODELLED):
                    st["unmodelled_evaluator_interaction_verdicts"] += 1
                    devhit = True
                    continue
                if a != b:
                    if b != cc or dev != "-":
                        what = "verdict differs from Schema/Encode.v (the faithful model of the importer) on instance %d; spec verdict %s" % (k, cc)
                    else:
                        what = "the imported CUE decides instance %d differently from JSON Schema validity (valid = encode = %s by encode_correct, implementation says %s)" % (k, cc, a)
                    violation("verdict", what, i, {"instance_index": k, "spec_verdict": cc, "encode_verdict": b, "impl_verdict": a})
                    break
                if b != cc:
                    if dev == "-":
                        raise vlib.CheckFailure("extracted model contradicts encode_correct on case %d: %s / %s" % (i, info[i][:500], mo))
                    devhit = True
                    st["known_deviation_verdicts"] += 1
            if devhit:
                for cls in dev.split(","):
                    dev_seen[cls] += 1
            if dev != "-":
                st["schemas_outside_fragment"] += 1
            if len(samples) < 3 and st["forward_schemas"] % 211 == 1 and len(info[i]) < 600:
                samples.append({"case": json.loads(info[i]), "impl": im, "model": mo})
        elif tag == "O":
            st["permuted_schemas"] += 1
            if im.startswith("P"):
                st["import_panics"] += 1
                if im != "P known":
                    violation("panic", "the importer or the evaluator panicked (permuted key order)", i)
                continue
            if im == "X" or mo == "U":
                # Which of two outcomes an unsatisfiable schema gets - "constraints are not possible to
                # satisfy" at import time, or an import that rejects everything - depends on the order in
                # which allOf/anyOf/oneOf narrow allowedTypes; both are fine.  Anything else is not.
                if im == "X" and mo == "U":
                    st["permuted_extract_error_predicted"] += 1
                elif mo == "U" and set(im.split(" ")[1]) <= set("0"):
                    st["permuted_unsatisfiable_imported_rejects_all"] += 1
                elif im == "X" and set(mo.split(" ")[1]) <= set("0"):
                    st["permuted_unsatisfiable_rejected_at_import"] += 1
                else:
                    violation("import-outcome", "with the keys of the schema objects permuted, the import outcome (impl X = jsonschema.Extract error) and the model (U = unsupported) disagree on a schema that has valid instances / accepts instances", i)
                continue
            mk, v, e, dev = mo.split(" ")
            ik, ib = im.split(" ")
            if mk == "C" or dev != "-":
                # outside the fragment the encoding depends on the key order; compared in canonical order only
                st["permuted_outside_fragment"] += 1
                continue
            for k, (a, cc) in enumerate(zip(ib, v)):
                if a in "PQ":
                    continue
                st["permuted_verdicts"] += 1
                if a != cc:
                    violation("key-order", "with the keys of the schema objects written in another order the imported CUE decides instance %d differently from JSON Schema validity (valid = %s, implementation says %s); the schema is inside the fragment of encode_correct in canonical order" % (k, cc, a), i,
                              {"instance_index": k, "permuted_text": json.loads(info[i]).get("text")})
                    break
        elif tag == "R":
            mk, v, e, dev = mo.split(" ")
            ib = im.split(" ")[1]
            d = json.loads(info[i])
            indom = reverse_domain(d["schema"])
            st["reverse_schemas_in_validated_domain" if indom else "reverse_schemas_outside_validated_domain"] += 1
            for k, (a, cc) in enumerate(zip(ib, v)):
                if a in "PQ":
                    continue
                st["reverse_verdicts_in_domain" if indom else "reverse_verdicts_outside_domain"] += 1
                if a != cc:
                    if indom:
                        violation("reverse", "the JSON Schema generated back from the imported CUE decides instance %d differently (valid(generated) = %s, CUE says %s)" % (k, cc, a), i, {"instance_index": k})
                    else:
                        st["reverse_mismatch_outside_validated_domain"] += 1
                    break
        elif tag == "T":
            mk, v, e, dev = mo.split(" ")
            ib = im.split(" ")[1]
            st["suite_schemas"] += 1
            for k, (a, cc) in enumerate(zip(ib, v)):
                st["suite_tests"] += 1
                if a != cc:
                    st["suite_disagreements"] += 1
                    d = json.loads(info[i])
                    ctx.violation({"kind": "model-validation", "what": "Schema/Sem.v `valid` disagrees with the vendored JSON-Schema-Test-Suite (test %d): the specification model is wrong or the suite changed" % k,
                                   "file": d.get("file"), "description": d.get("description"), "schema": d.get("schema"), "instances": d.get("instances"), "suite": ib, "model": v}, no_input=True)
                    break

    for cls in sorted(dev_seen):
        ctx.known_finding(DEV_CLASSES.get(cls, "class " + cls))
    if f14_hits:
        ctx.known_finding("C13-F14 an unsatisfiable definition under $defs turns the whole imported file into an error value: instances that never reach the definition are rejected (%d generated documents, e.g. case %d)" % (len(f14_hits), f14_hits[0]))
    if st["import_panics"] or st["verdict_panics"]:
        ctx.known_finding("C13-F12 evaluator panic `errors.Error is *errors.wrapped, not *adt.ValueError` in adt.(*nodeContext).disjunctError on an imported schema (crash of the pinned tree, belongs to C02)")

    if not ctx.replay and st["suite_tests"] < 500:
        raise vlib.CheckFailure("vendored test-suite not found or too few cases inside the subset (%d)" % st["suite_tests"])

    ctx.coverage.update({
        "obligations": proof["obligations"],
        "discharged": proof["discharged"],
        "checker_cmd": proof["checker_cmd"] + ("; coqchk -silent -o Verif.Properties.C13" if not quick else ""),
        "trusted_base": TRUSTED,
        "theorems": proof["theorems"],
        "axioms_reported": proof["axioms"],
        "audit_files": proof["audit_files"],
        "evaluations": st["forward_verdicts"] + st["permuted_verdicts"] + st["reverse_verdicts_in_domain"] + st["reverse_verdicts_outside_domain"] + st["suite_tests"],
        "distinct_nontrivial": nontrivial,
        "rule": "permuted: every generated schema object is also written with its keys in a random order; inside the fragment its verdicts must equal `valid`. forward: corpus/C13 + generated schemas (depth <= 3, keyword subset, 1 in 5 may use a known-deviation construct, 1 in 25 is an import-error schema) x 8 instances biased to the schema's constants; non-trivial = distinct schema on which the generated instances get both verdicts. reverse: Generate(Extract(s)) parsed back strictly, valid(generated) vs the CUE verdicts; strict only on the validated domain (assertion keywords + anyOf/oneOf/not/if/items/contains over flat members). suite: vendored draft2020-12 cases whose schema and data are inside the subset, run through `valid`",
        "samples": samples,
        "counts": dict(st),
        "harness_stats": stats,
        "known_deviation_classes_hit": {k: dev_seen[k] for k in sorted(dev_seen)},
        "model_validation_suite_tests": st["suite_tests"],
        "model_validation_suite_disagreements": st["suite_disagreements"],
        "harness_build_s": hsecs,
        "proof": {k: v for k, v in proof.items() if k.startswith("coqchk") or k in ("make_s",)},
    })
    ctx.assumptions.extend(TRUSTED)


MANIFEST = {
    "category": "proof",
    "text": "Coq theorem encode_correct: for every schema of the keyword subset (unbounded nesting) that uses none of the listed deviating constructs, and every JSON instance, the predicate built by the importer's encoding strategy (kind-indexed disjunction with allowedTypes/knownTypes mask threading, matchN/matchIf, closed structs with optional fields and patterns, list validators; Schema/Encode.v follows schemaState/finalize and every constraint* function) equals JSON Schema 2020-12 validity (Schema/Sem.v, validated against the vendored test-suite). Each excluded construct has a machine-checked refutation witness. The model is tied to /repo by agreement of Extract+Unify+Validate verdicts (and import-time errors) with the extracted model on generated schemas x instances, and the generated-back JSON Schema is compared on a validated domain. $ref/$defs: documents with named acyclic references are a separate syntax (Schema/Refs.v rschema); theorems C13_ref_semantics (following references = validity of the inlined schema, every fuel), C13_ref_fuel_suffices / C13_ref_fuel_independent (fuel >= number of definitions gives a fuel-independent result for every ordered table) and C13_encode_correct_doc (the main theorem for documents); the correspondence sends the un-inlined document (shared definitions, chains, references below items/properties, dangling references) and the extracted resolve_doc/doc_ok do the inlining.",
    "note": "Trusted: Coq kernel; the hand-written model of the importer and of the CUE validators it targets; regexp oracle = Go regexp; extraction and drivers. Numbers are multiples of 1/2. Known deviations of the pinned tree (allOf count, dropped `false`, propertyNames, required+closed, prefixItems, empty property name) are reported as KNOWN-FINDING, not as violations. Evaluator closedness bugs at the root of a generated file are kept out of the generator domain (design/C13.md). jsonschema.Generate is best effort by its own documentation; the reverse direction is strict only on the validated domain.",
    "technique": "Coq proof (compiler correctness of the encoding by an invariant over the decoder state) + extracted-model differential check against the Go importer + independent test-suite validation of the specification model",
}
