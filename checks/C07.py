"""C07 - printing an evaluated value as CUE and evaluating it again gives the same value."""
import json
import os
import re
import time
import vlib

LEVEL = "proof"

TRUSTED = [
    "Coq 8.16.1 kernel; all C07 theorems closed under the global context (no axioms); vm_compute only in the non-vacuity Examples",
    "hand-written Gallina model coq/theories/Print/Model.v on top of the CoreCUE evaluator model (coq/theories/Core): normal forms, normalize, print_nf, denote, profile projections; it is a specification-layer VALUE printer (the exporter's expression mode - expr.go mergeValues, adt.go, self.go - is not modelled, only observed), plus an implementation-faithful model of export/bounds.go boundSimplifier and adt.MatchBuiltinRange",
    "CoreCUE fragment boundaries (design/Core.md): generated programs stay inside it; printed texts outside it (embedded plain literals, a definition referenced twice) are checked by the direct re-evaluation only",
    "patterns are abstracted to the set of universe labels they match; strings/labels are identifiers",
    "extraction (ExtrOcamlBasic only) + ocaml/c07_driver.ml (S-expression reader/printer, printer of result trees)",
    "Go harness harness/c07: generators, canonical form of cue values through the public API with closedness probed IN THE LANGUAGE, projection of canonical forms, the strict AST -> S-expression converter, the syntactic classifier of the known def-mode finding class (a closed node that receives a further struct conjunct)",
    "the expectation table corpus/C07/testdata_expect.txt for the repository corpus (seed independent)",
]

F3_FIXED = "F3 (fixed by `fix: cue/format, internal/pretty: keep a blank between a `<` bound and a signed operand`): a bound with a negative operand (`< -1`) was written `<-1`; witness corpus/C07/f3.cue is a regression case"
F10 = "F10 definition-mode export (default/All/Definitions+Hidden+Optional/Raw) of a close()d value that receives a further struct conjunct wraps the merged plain literal in close() (expr.go wrapCloseIfNecessary): close({a: 1, b?: int}) & {a: int} is printed as close({...}) & close({a: int}) and no longer admits b (witness corpus/C07/f10.cue)"
F11 = "F11 definition-mode export of a recursively closed value wraps ALL its conjuncts in _#def (export.go Profile.Def): #D0 & {\"_c\"?: {b: 1}} with open #D0 is printed as {_#def, _#def: {...} & {\"_c\"?: {b: 1}}}; conjuncts that were open become closed, `...` of a plain conjunct re-opens the definition (witness corpus/C07/f11.cue)"
F12 = "F12 self-contained definition-mode export hoists a reference into a file-level let that points inside the _#def wrapper (`let _schema_9 = _schema`): the text does not compile on its own (witness corpus/C07/f12.cue; repository corpus entries of class dangling-reference-in-hoisted-let)"
F13 = "F13 value-mode export (Final, `cue eval`) omits an optional field but prints the incomplete reference to it (`r: {a?: 3, b: a}` -> `r: b: a`): the text does not compile on its own (witness corpus/C07/f13.cue; repository corpus entries of class dangling-reference under profile final)"
F15 = "F15 an error value below an optional field is exported as `_|_ // message`; formatted in a one-line struct the closing brace lands inside the line comment and the text does not parse (witness corpus/C07/f15.cue; the same tree formatted without the comment passes every check)"
F8 = "F8 (known finding of C01/C05: in the evaluator an embedding is not a unification; met through the exporter) definition-mode export writes conjuncts as embeddings - struct literals with pattern constraints as embedded plain literals {{...}}, scalar conjuncts as embedded scalars {string, a?: int} - and the evaluator gives such a literal another value than the unification (closedness of embeddings below an embedded literal is lost; {string, a?: int} is string while {a?: int} & string is an error): the printed text evaluates to a different value, the same text with the embeddings rewritten to unifications gives the original value"
F14 = "F14 repository corpus values whose printed text re-evaluates to an error of another class (structural cycle, conflicting values, field not allowed): listed in corpus/C07/testdata_expect.txt, not reduced"


def tok_sat(tok, a):
    """does the atom a (int or the string 's') satisfy one printed/original token"""
    if tok == "int":
        return isinstance(a, int)
    if tok == "uint":
        return isinstance(a, int) and a >= 0
    if tok == "string":
        return a == "s"
    f = tok.split(":")
    if f[0] == "range":
        return isinstance(a, int) and int(f[1]) <= a <= int(f[2])
    if not isinstance(a, int):
        return False
    z = int(f[1])
    return {"gt": a > z, "ge": a >= z, "lt": a < z, "le": a <= z, "ne": a != z}[f[0]]


def bounds_distinguisher(orig, printed):
    """an atom that the printed conjunction admits and the original does not, or vice versa"""
    toks = orig.split() + printed.split()
    pts = set([0])
    for t in toks:
        for x in t.split(":")[1:]:
            try:
                pts.update([int(x) - 1, int(x), int(x) + 1])
            except ValueError:
                pass
    for a in sorted(pts) + ["s"]:
        try:
            if all(tok_sat(t, a) for t in orig.split()) != all(tok_sat(t, a) for t in printed.split()):
                return a
        except (KeyError, IndexError, ValueError):
            return "unparsed-token"
    return None


def read_lines(path):
    return open(path).read().split("\n")[:-1]


def witness_files():
    d = os.path.join(vlib.VERIF, "corpus", "C07")
    out = []
    for nm in sorted(os.listdir(d)):
        if not nm.endswith(".cue"):
            continue
        src = open(os.path.join(d, nm)).read()
        meta = dict(re.findall(r"^// (finding|profile|kind|status): (\S+)", src, re.M))
        out.append((os.path.join(d, nm), meta))
    return out


def run(ctx):
    quick = ctx.tier == "quick"
    timings = {}
    t0 = time.time()

    def lap(name):
        nonlocal t0
        timings[name] = round(time.time() - t0, 1)
        t0 = time.time()

    proof = vlib.prove("C07", extra_targets=["theories/Extract/C07.vo"])
    if not quick:
        proof.update(vlib.coqchk("C07"))
        if proof["coqchk_rc"] != 0:
            raise vlib.CheckFailure("coqchk failed: " + proof["coqchk_tail"])
    exe = vlib.build_model("C07", "extract/C07.v", "ocaml/c07_driver.ml")
    harness, hsecs = vlib.build_harness("c07")
    lap("proof_and_builds_incl_lock_waits")
    known_text = {"F10": F10, "F11": F11, "F12": F12, "F13": F13, "F14": F14, "F15": F15}
    cov = ctx.coverage
    nviol = [0]

    def violation(payload, no_input=False):
        nviol[0] += 1
        if nviol[0] <= 6:
            ctx.violation(payload, no_input=no_input)

    # ---- replay of one recorded case -----------------------------------------------------------
    if ctx.replay:
        rp = json.load(open(ctx.replay))
        if rp.get("conjunction"):
            db = os.path.join(ctx.work, "bounds")
            os.makedirs(db, exist_ok=True)
            vlib.run([harness, "--mode", "bounds", "--case", rp["conjunction"], "--out", db], timeout=600)
            bc = read_lines(os.path.join(db, "cases.txt"))
            bi = read_lines(os.path.join(db, "impl.txt"))
            bm = vlib.run([exe], input="\n".join(bc) + "\n", timeout=600, stderr=None).stdout.split("\n")[:-1]
            cov.update({"replay_output": {"case": bc, "impl": bi, "model": bm}, "evaluations": 1})
            if bi != bm:
                ctx.violation({"kind": "replayed-bounds-case-still-differs", "conjunction": rp["conjunction"], "impl_tokens": bi, "model_tokens": bm,
                               "distinguishing_atom": bounds_distinguisher(rp["conjunction"], bi[0] if bi else "")})
            return
        f = os.path.join(ctx.work, "replay.cue")
        open(f, "w").write(rp.get("program", ""))
        if rp.get("replay_kind") == "disj":
            p = vlib.run([harness, "--mode", "disj", "--file", f], timeout=600, stderr=None)
            m = vlib.run([exe], input=rp.get("case", "") + "\n", timeout=600, stderr=None).stdout.strip().split("\t")
            first = p.stdout.split("\n")[0].split(" ")
            cov.update({"replay_output": p.stdout[:4000], "model": m, "evaluations": 1})
            ok = len(first) == 6 and len(m) == 6 and m[3] == "1" or (len(first) == 6 and len(m) == 6 and first[1] == m[0] and first[2] == m[1] and first[3] == m[2] and first[4] == m[4]
                                                                    and all(v.endswith(":OK") for v in first[5].split(",")))
            if not ok:
                ctx.violation({"kind": "replayed-disjunction-case-still-fails", "program": rp.get("program"), "output": p.stdout[:4000], "model": m})
            return
        mode = "filecheck" if rp.get("replay_kind") == "file" else "replay"
        args = [harness, "--mode", mode, "--file", f]
        if rp.get("profile"):
            args += ["--profile", rp["profile"]]
        p = vlib.run(args, timeout=600, stderr=None)
        bad = [ln for ln in p.stdout.split("\n") if re.match(r"^\w+ (DIFF|PARSE|COMPILE|FORMAT|JSON)", ln)]
        cov.update({"replay_output": p.stdout[:4000], "evaluations": 1})
        if bad:
            ctx.violation({"kind": "replayed-case-still-fails", "program": rp.get("program"), "output": p.stdout[:4000]})
        return

    # ---- 1. witnesses of the known findings (run first) ---------------------------------------
    wit = {}
    for path, meta in witness_files():
        mode = "filecheck" if meta.get("kind") == "file" else "replay"
        p = vlib.run([harness, "--mode", mode, "--file", path, "--profile", meta.get("profile", "default")], timeout=600, stderr=None)
        first = p.stdout.split("\n")[0].split(" ")
        verdict = first[1] if len(first) > 1 else "?"
        flags = first[2] if len(first) > 2 else "-"
        still = not verdict.startswith("OK") or "f15" in flags.split(",")
        wit[meta.get("finding", "?")] = {"file": os.path.relpath(path, vlib.VERIF), "verdict": verdict, "flags": flags, "still_fails": still}
        if still and meta.get("status") == "fixed":
            violation({"kind": "fixed-finding-returned", "finding": meta.get("finding"), "program": open(path).read(),
                       "profile": meta.get("profile", "default"), "output": p.stdout[:2000], "what": F3_FIXED if meta.get("finding") == "F3" else ""})
        elif still and meta.get("finding") in known_text:
            ctx.known_finding(known_text[meta["finding"]])
    cov["finding_witnesses"] = wit
    lap("witnesses")

    # ---- 2. generated CoreCUE programs x option profiles --------------------------------------
    n = 1600 if quick else 16000
    d = os.path.join(ctx.work, "run")
    os.makedirs(d, exist_ok=True)
    p = vlib.run([harness, "--mode", "run", "--seed", str(ctx.seed), "--n", str(n), "--out", d], timeout=3000)
    lap("harness_programs")
    gen_stats = dict((m.group(1), int(m.group(2))) for m in re.finditer(r"stat (\S+) (\d+)", p.stdout or ""))
    cases = read_lines(os.path.join(d, "cases.txt"))
    impl = read_lines(os.path.join(d, "impl.txt"))
    src = open(os.path.join(d, "src.txt")).read().split("### ")[1:]
    pm = vlib.run([exe], input="\n".join(cases) + "\n", timeout=3000, stderr=None)
    model = pm.stdout.split("\n")[:-1]
    if not (len(cases) == len(impl) == len(model) == len(src)):
        raise vlib.CheckFailure("line count mismatch cases=%d impl=%d model=%d src=%d" % (len(cases), len(impl), len(model), len(src)))
    st = {}

    def bump(k, by=1):
        st[k] = st.get(k, 0) + by

    per_profile = {}
    sizes = []
    distinct = set()
    nontrivial = 0
    nf_printed = []   # (index, S-expression) of model-printed normal forms, to be evaluated by cue
    samples = []
    for i, (c, a, m) in enumerate(zip(cases, impl, model)):
        prof = src[i].split("\n", 1)[0].split(" ")[1]
        verdict, flags, want, got = a.split(" ")
        flags = [] if flags == "-" else flags.split(",")
        mf = m.split("\t")
        payload = {"program": src[i].split("\n", 1)[1].split("--- printed\n")[0], "profile": prof,
                   "printed_text": src[i].split("--- printed\n")[1] if "--- printed\n" in src[i] else "",
                   "case": c, "impl": a, "model": m, "replay": "bin/check C07 --replay <this file>"}
        if len(mf) != 5:
            violation(dict(payload, kind="model-driver-failed"), no_input=True)
            continue
        m_orig, m_printed, m_nf, nf_sx, m_impl = mf
        if m_impl != "-":
            bump("impl-layer-model-" + ("predicts-reevaluated-text" if m_impl == got else "differs-from-reevaluated-text") + ("-in-known-class" if "suspect" in flags else ""))
        pp = per_profile.setdefault(prof, {"cases": 0, "ok": 0, "known": 0})
        pp["cases"] += 1
        sizes.append(want.count("{"))
        if c not in distinct:
            distinct.add(c)
            # non-trivial: a closed scope, a pattern or an optional/required field is involved and the value has a nested struct
            if ("(r " in c or "(c " in c or "(p " in c or " ? " in c or " ! " in c) and want.count("{") >= 2:
                nontrivial += 1
        # (0) the model's (projected) value of the ORIGINAL is what cue computed for it
        if m_orig != want:
            bump("original-value-differs-from-model")
            violation(dict(payload, kind="core-correspondence-broken", what="the (projected) canonical form of the original value differs between cue and the CoreCUE model", want_impl=want, want_model=m_orig), no_input=True)
            continue
        suspect = "suspect" in flags
        # (a) DIRECT: re-evaluated text vs the original under the profile's projection
        if "f8" in flags:
            bump("F8-instances-through-export")
            ctx.known_finding(F8)
        if "f15" in flags:
            bump("F15-instances")
            ctx.known_finding(F15)
        if verdict == "OK":
            bump("direct-ok")
            pp["ok"] += 1
        elif suspect:
            # known findings F10/F11: a closed node that receives a further conjunct
            pp["known"] += 1
            confirmed = (m_printed == got and m_printed != "-") or m_impl == got
            bump("known-def-mode-class" + ("-impl-equals-Impl-model" if m_impl == got else ("-confirmed-by-model-reading-of-the-text" if confirmed else "-unconfirmed")))
            printed = payload["printed_text"]
            if "_#def" in printed:
                ctx.known_finding(F11)
            if "close(" in printed or "_#def" not in printed:
                ctx.known_finding(F10)
            if len(samples) < 4 and confirmed:
                samples.append({"known_finding_instance": payload["program"], "profile": prof, "printed": printed[:400], "original": want, "reevaluated": got})
        else:
            bump("direct-" + verdict)
            violation(dict(payload, kind="printed-text-" + {"DIFF": "evaluates-to-a-different-value", "PARSE": "does-not-parse", "COMPILE": "does-not-compile-on-its-own", "FORMAT": "cannot-be-formatted"}.get(verdict, verdict),
                           original_projected=want, reevaluated=got))
        # (b) MODEL: the printed AST, strictly converted, evaluated by the model
        conv = [f for f in flags if f.startswith("conv:")]
        if conv:
            bump("converter-rejected")
            st.setdefault("converter_rejections", {})
            st["converter_rejections"][conv[0]] = st["converter_rejections"].get(conv[0], 0) + 1
            if not suspect and verdict == "OK":
                # the generator stays inside the fragment: a rejected print is a new output shape
                violation(dict(payload, kind="printed-ast-outside-the-corecue-fragment", what=conv[0]), no_input=True)
        elif m_printed != "-":
            if "outfrag" in flags or suspect:
                bump("model-b-outside-validated-fragment" + ("-agrees" if m_printed == m_orig else "-differs"))
            elif m_printed == m_orig:
                bump("model-b-ok")
            else:
                bump("model-b-DIFF")
                violation(dict(payload, kind="model-value-of-printed-text-differs-from-model-value-of-original", model_original=m_orig, model_printed=m_printed), no_input=(verdict == "OK"))
        # (c) the proved round trip on this very value: print_nf (project (normalize conjuncts))
        if m_nf == "OUT":
            bump("nf-outside-printable-fragment")
        elif m_nf == m_orig:
            bump("nf-roundtrip-ok")
            if len(nf_printed) < (600 if quick else 4000) and prof in ("default", "final"):
                nf_printed.append((i, nf_sx))
        else:
            bump("nf-roundtrip-DIFF")
            violation(dict(payload, kind="extracted-model-contradicts-theorem-print_roundtrip", model_nf=m_nf, model_original=m_orig), no_input=True)
        if len(samples) < 2 and verdict == "OK" and want.count("{") >= 2 and prof == "all":
            samples.append({"program": payload["program"], "profile": prof, "printed": payload["printed_text"][:400], "canonical": want[:300]})

    # ---- 3. the model's own printer, read by cue -----------------------------------------------
    if nf_printed:
        f = os.path.join(ctx.work, "nf.txt")
        open(f, "w").write("\n".join(s for _, s in nf_printed) + "\n")
        pe = vlib.run([harness, "--mode", "evalsexp", "--file", f], timeout=3000, stderr=None)
        outs = pe.stdout.split("\n")[:-1]
        if len(outs) != len(nf_printed):
            raise vlib.CheckFailure("evalsexp line count mismatch %d vs %d" % (len(outs), len(nf_printed)))
        for (i, sx), o in zip(nf_printed, outs):
            want = impl[i].split(" ")[2]
            if o == want:
                bump("model-printer-read-by-cue-ok")
            elif o.startswith("RENDER-FAIL"):
                bump("model-printer-not-renderable")
            else:
                bump("model-printer-read-by-cue-DIFF")
                violation({"kind": "cue-reads-the-models-normal-form-print-differently", "program": src[i].split("\n", 1)[1].split("--- printed\n")[0],
                           "profile": src[i].split("\n", 1)[0].split(" ")[1], "model_print_sexp": sx, "cue_value": o, "original_projected": want}, no_input=True)

    lap("model_and_model_printer_read_by_cue")
    # ---- 4. bounds.go: exact agreement of the written tokens ------------------------------------
    nb = 30000 if quick else 300000
    db = os.path.join(ctx.work, "bounds")
    os.makedirs(db, exist_ok=True)
    vlib.run([harness, "--mode", "bounds", "--seed", str(ctx.seed), "--n", str(nb), "--out", db], timeout=3000)
    bc = read_lines(os.path.join(db, "cases.txt"))
    bi = read_lines(os.path.join(db, "impl.txt"))
    bm = vlib.run([exe], input="\n".join(bc) + "\n", timeout=3000, stderr=None).stdout.split("\n")[:-1]
    if not (len(bc) == len(bi) == len(bm)):
        raise vlib.CheckFailure("bounds line count mismatch")
    bdist = set()
    brew = 0
    for c, a, m in zip(bc, bi, bm):
        bdist.add(c)
        if "uint" in a or "range:" in a:
            brew += 1
        if a != m:
            bump("bounds-DIFF")
            dist = bounds_distinguisher(c[2:], a)
            violation({"kind": "bounds.go-output-differs-from-range_rewrite" + ("-and-admits-different-atoms" if dist is not None else ""),
                       "conjunction": c[2:], "impl_tokens": a, "model_tokens": m, "distinguishing_atom": dist,
                       "what": "export.Simplified.Value(&adt.Conjunction{...}) vs the model proved sound (range_rewrite_sound); with a distinguishing atom the printed conjunction is not equivalent to the printed one: the property fails on this value"},
                      no_input=(dist is None))
    bump("bounds-cases", len(bc))

    lap("bounds")
    # ---- 4b. disjunctions with defaults: value.go *adt.Disjunction / adt.Default vs DisjModel ----
    nd = 2500 if quick else 25000
    dd = os.path.join(ctx.work, "disj")
    os.makedirs(dd, exist_ok=True)
    pdj = vlib.run([harness, "--mode", "disj", "--seed", str(ctx.seed), "--n", str(nd), "--out", dd], timeout=3000)
    dstats = dict((m.group(1), int(m.group(2))) for m in re.finditer(r"stat (\S+) (\d+)", (pdj.stdout or "") + (getattr(pdj, "stderr", "") or "")))
    dc = read_lines(os.path.join(dd, "cases.txt"))
    di = read_lines(os.path.join(dd, "impl.txt"))
    dsrc = open(os.path.join(dd, "src.txt")).read().split("### ")[1:]
    dm = vlib.run([exe], input="\n".join(dc) + "\n", timeout=3000, stderr=None).stdout.split("\n")[:-1] if dc else []
    if not (len(dc) == len(di) == len(dm) == len(dsrc)):
        raise vlib.CheckFailure("disj line count mismatch %d %d %d %d" % (len(dc), len(di), len(dm), len(dsrc)))
    dj = {"cases": len(dc), "distinct": len(set(dc)), "fold_sensitive_skipped": 0, "ok": 0, "with_default_taken": 0,
          "final_prints_several_disjuncts": 0, "concrete_after_defaults": 0, "profiles_checked": 0}
    ddistinct = set()
    for c, a, m, sr in zip(dc, di, dm, dsrc):
        prog = sr.split("\n", 1)[1]
        mf = m.split("\t")
        af = a.split(" ")
        payload = {"program": prog.split("--- ")[0], "printed_per_profile": prog[prog.find("--- "):][:1500], "case": c, "impl": a, "model": m,
                   "replay_kind": "disj", "replay": "bin/check C07 --replay <this file>"}
        if len(mf) != 6 or len(af) != 5:
            violation(dict(payload, kind="disj-model-driver-failed"), no_input=True)
            continue
        m_acc, m_facc, m_tag, m_fs, m_set, m_rt = mf
        i_acc, i_dacc, i_tag, i_set, verdicts = af
        if m_rt != "RT-OK":
            violation(dict(payload, kind="extracted-model-contradicts-theorem-print_marked_roundtrip"), no_input=True)
            continue
        if m_fs == "1":
            # operand-order sensitive default bookkeeping of the evaluator (C04's known finding F2): not this property's subject
            dj["fold_sensitive_skipped"] += 1
            continue
        bad = None
        if m_acc != i_acc:
            bad = ("disj-core-correspondence-broken", "atoms accepted by the original value differ between cue and the Core/Disj model", True)
        elif m_facc != i_dacc or m_tag != i_tag:
            bad = ("disj-default-differs-from-model", "Default() of the original value differs between cue and take_defaults of the model", True)
        elif any(not v.endswith(":OK") for v in verdicts.split(",")):
            bad = ("printed-disjunction-evaluates-to-a-different-value", "the printed text, compiled on its own, does not have the observables of the original (definition-mode profiles) / of its default (value-mode profiles): " + verdicts, False)
        elif m_set != i_set:
            bad = ("final-print-differs-from-print_final", "the set of disjuncts written under Final() differs from the model's print_final (take_defaults + one disjunct per surviving value)", False)
        if bad:
            violation(dict(payload, kind=bad[0], what=bad[1]), no_input=bad[2])
            bump("disj-" + bad[0])
            continue
        dj["ok"] += 1
        dj["profiles_checked"] += len(verdicts.split(","))
        if m_acc != m_facc:
            dj["with_default_taken"] += 1
        if "|" in m_set:
            dj["final_prints_several_disjuncts"] += 1
        if m_tag == "C":
            dj["concrete_after_defaults"] += 1
        if c not in ddistinct:
            ddistinct.add(c)
        if len(samples) < 6 and "|" in m_set and m_acc != m_facc:
            samples.append({"disjunction_case": payload["program"], "final_disjunct_set": m_set, "printed": payload["printed_per_profile"][:300]})
    dj["generator"] = dstats
    lap("disjunctions")
    # ---- 5. repository corpus (seed independent) ------------------------------------------------
    dc = os.path.join(ctx.work, "corpus")
    os.makedirs(dc, exist_ok=True)
    vlib.run([harness, "--mode", "corpus", "--root", os.path.join(vlib.REPO, "cue", "testdata"), "--out", dc], timeout=3000)
    cc = read_lines(os.path.join(dc, "cases.txt"))
    ci = read_lines(os.path.join(dc, "impl.txt"))
    expect = {}
    for ln in read_lines(os.path.join(vlib.VERIF, "corpus", "C07", "testdata_expect.txt")):
        f = ln.split(" ")
        expect[(f[0], f[1])] = f[2]
    corpus = {"cases": len(cc), "ok": 0, "ok_json_equal": 0, "expected_failures_seen": 0, "expected_failures_now_ok": 0, "files": len(set(x.split(" ")[1] for x in cc))}
    for c, r in zip(cc, ci):
        _, rel, prof = c.split(" ")
        exp = expect.get((rel, prof))
        if r.startswith("OK"):
            corpus["ok"] += 1
            if r == "OK-JSON":
                corpus["ok_json_equal"] += 1
            if exp:
                corpus["expected_failures_now_ok"] += 1
        elif exp == r:
            corpus["expected_failures_seen"] += 1
            if "hoisted-let" in r:
                ctx.known_finding(F12)
            elif r == "COMPILE:dangling-reference" and prof == "final":
                ctx.known_finding(F13)
            else:
                ctx.known_finding(F14)
        else:
            bump("corpus-new-failure")
            try:
                txt = open(os.path.join(vlib.REPO, "cue", "testdata", rel)).read()
                txt = txt.split("-- in.cue --\n", 1)[1].split("\n-- ", 1)[0]
            except Exception:
                txt = ""
            violation({"kind": "repository-corpus-file-no-longer-round-trips", "file": "cue/testdata/" + rel, "profile": prof, "result": r,
                       "expected": exp or "OK", "program": txt, "replay_kind": "file"})
    lap("repository_corpus")
    cov.update({
        "timings_s": timings,
        "obligations": proof["obligations"], "discharged": proof["discharged"],
        "checker_cmd": proof["checker_cmd"] + ("; coqchk -silent -o Verif.Properties.C07" if not quick else ""),
        "trusted_base": TRUSTED, "theorems": proof["theorems"], "axioms_reported": proof["axioms"],
        "audit_files": proof["audit_files"],
        "evaluations": len(cases) + len(bc) + len(cc) + len(dc) + st.get("model-printer-read-by-cue-ok", 0),
        "distinct_nontrivial": nontrivial + len(bdist) + dj["with_default_taken"],
        "disjunctions": dj,
        "rule": "generated CoreCUE programs (1-3 root conjuncts: schema literals with regular/optional/required fields, patterns, '...', definitions, close(), literals embedding a definition/close, data structs; scalars incl. bounds with negative operands; labels that need quoting) that evaluate without error, each printed under the profiles default, Final, Concrete, All, Raw (programs without definitions only), Definitions+Hidden+Optional; non-trivial = distinct (program, profile) with a closed scope, pattern or optional/required field and a nested struct in the value. bounds: distinct random conjunctions of int/string and integer bounds (1-6 values, operands incl. 0, negatives and the limits of the sized integer types)",
        "samples": samples,
        "generator": gen_stats, "per_profile": per_profile, "outcomes": st,
        "input_distribution": {"struct_nodes_avg": round(sum(sizes) / max(1, len(sizes)), 2), "struct_nodes_max": max(sizes or [0]),
                               "values_with_closed_node_and_further_conjunct": gen_stats.get("programs-suspect", 0),
                               "erroneous_programs_skipped": gen_stats.get("programs-erroneous", 0)},
        "bounds": {"cases": len(bc), "distinct": len(bdist), "rewritten_to_predeclared": brew},
        "repository_corpus": corpus,
        "violations_total": nviol[0], "harness_build_s": hsecs,
        "proof": {k: v for k, v in proof.items() if k.startswith("coqchk") or k in ("make_s",)},
    })
    ctx.assumptions.extend(TRUSTED)


MANIFEST = {
    "category": "proof",
    "text": "Coq theorems on the CoreCUE evaluator model: for every list of conjunct groups whose normal form is printable (scalar-valued patterns), printing the normal form computed from the conjuncts and evaluating the printed expression gives exactly the result tree of the original - fields, presence, kinds, accepted and pinned atoms, closedness at every node (print_roundtrip = eval_print + normalize_sound + normalize_wf, by induction on depth, every label universe and fuel); the Final/Concrete/All projections commute with denotation and survive print+eval (project_sound, project_print_sound); the canonical shape of a scalar is equivalent (canon_scal_equiv); the bounds.go / MatchBuiltinRange rewriting to int/uint/sized types admits exactly the same atoms for every constraint list in every order (range_rewrite_sound). Tied to cue by (a) the direct check: format.Node(Value.Syntax(opts)) of generated evaluable programs must parse and compile on its own and re-evaluate to the same canonical form (closedness probed in the language) under the profile's projection, (b) the printed AST strictly converted to a CoreCUE expression must have the model value of the original, (c) the model's own printed normal form is read by cue and must give the same canonical form, (d) exact token agreement of bounds.go with range_rewrite, (f) disjunctions with default marks over scalar disjuncts: print_marked_roundtrip (the evaluated disjunction printed with its marks has the same value/default pair), print_final_resolve / print_final_values (under TakeDefaults = Final/Concrete/cue eval/cue export the text resolves like the original and its values are the original defaults), tied on generated conjunctions of scalars and marked disjunctions under all six profiles (observables of value and default, set of disjuncts written under Final() = print_final), (e) the evaluable in.cue files of cue/testdata against a triaged expectation table.",
    "note": "partial: the exporter's expression mode (expr.go mergeValues, adt.go reference re-linking, self.go let hoisting, export.Def's _#def wrapper) is not modelled - the model printer is a specification-layer value printer; those parts are covered only by the direct re-evaluation check. Struct-valued patterns are outside the printable normal forms (reported as OUT). Disjunctions are modelled with scalar disjuncts only; cases in the operand-order sensitive class of C04/F2 are skipped and counted. Known findings on the unchanged tree (reported as KNOWN-FINDING, not violations; F3 `< -1` printed `<-1` is fixed and its witness a regression case): F10 close() re-wrapping; F11 _#def wraps all conjuncts; F12/F13 dangling references; F14 untriaged corpus errors. Mismatches inside the syntactic class of F10/F11 (a closed node receiving a further struct conjunct, definition-mode profiles) are never raised as violations.",
    "technique": "Coq proof (print/normalize round trip over the CoreCUE conjunct-set evaluator, profile projections, bound rewriting) + direct round-trip check on the implementation + extracted-model differential check of printed ASTs",
}
