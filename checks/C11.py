"""C11 - YAML output reads back as the same data; JSON fed to the YAML decoder means JSON."""
import json
import os
import vlib

LEVEL = "proof"

TRUSTED = [
    "Coq 8.16.1 kernel; vm_compute only inside Examples/witness theorems; no axioms (Print Assumptions: closed)",
    "hand-written Gallina model (Yaml/Scalar.v) of internal/encoding/yaml/goccy/encode.go encodeScalar/quoteScalar/shouldQuote/needsSingleQuoting/blockLiteralSafe/yamlUnprintable/decodesAsNonString and key handling of encodeDecls, goccy/decode.go scalarString/numberKind; this is the encoder the pinned tree runs by default (cueexperiment YAMLGoccy)",
    "third party modelled, validated by exact agreement only: github.com/goccy/go-yaml token.IsNeedQuoted, reserved words, LiteralBlockHeader, StringNode.String literal layout, quoteWith, Go strconv.Quote; YAML 1.2 reading of plain / single / double quoted one-line scalars and literal blocks",
    "oracles instantiated per case from the implementation's libraries: unicode.IsPrint, token.ToNumber, token.isNumber, token.isTimestamp (go:linkname), cue/literal Quote+Unquote verdict",
    "extraction (ExtrOcamlBasic, no Extract Constant), ocaml/c11_driver.ml (UTF-8 <-> code points, case parsing), harness/c11 (generators, templates that cut the scalar text out of the encoded document, projection canon())",
    "whole documents (Yaml/Doc.v): emit_toks/parse_toks proved inverse for all data; the byte renderer emit_doc / line lexer lex_lines / read_value are tied to yaml.Encode / yaml.Extract by exact agreement on generated documents and streams (W/Z cases), the lexer-renderer link is not proved; base64 is Go's",
    "strings are valid UTF-8 (CUE strings); the legacy go.yaml.in/yaml/v3 path (CUE_EXPERIMENT=yamlgoccy=0) is not modelled",
]

QUIRKS = {
    "1": "C11-reader-dots: plain scalar starting with '...' in column 0 is read as a document end marker (goccy scanDocumentEnd)",
    "2": "C11-reader-merge-key: plain key ending in '<<' is read as a merge key (goccy isMergeKey)",
    "3": "C11-reader-literal-tab: literal block whose first content line starts with a tab is misread (goccy scanMultiLine)",
    "4": "C11-reader-cuelit: string value starting with two double quotes is turned into an unreadable CUE literal by decode.go quotedString (literal hash form, = C09-autohash-leading-quotes)",
    "5": "C11-reader-blank-literal: literal block made of newlines only, followed by another node: 'could not find multi-line content' (goccy parser)",
}


def unhex(h):
    return b"" if h == "-" else bytes.fromhex(h)


def kv(line):
    d = {}
    for w in line.split():
        if "=" in w:
            k, v = w.split("=", 1)
            d[k] = v
    return d


def spec_gap(kind, s):
    """Name of the encoder-side class (theorem C11_style_choice_refuted_*) for a probe the model
    reads back wrongly without any reader deviation."""
    if kind == "L":
        if s == b"\n":
            return "C11-literal-newline: literal block with header '|' (clip) chosen for a lone newline; reads back as the empty string"
        return "C11-literal-leading-blank: literal block without indentation indicator chosen for a string whose first content line starts with a blank"
    if kind == "SG":
        return "C11-single-go-escapes: goccy single-quoted style with Go escapes for a non-printable rune (quoteWith): the escape text is read back literally"
    if kind == "SC":
        return "C11-cue-single-linebreak: cue singleQuoted for a '? ' / '?' string containing a line break"
    if kind == "P":
        return "unclassified: a plain scalar chosen by the encoder does not read back (C11-dots-root is fixed: strings starting with '...' are double quoted)"
    return "unclassified"


def run(ctx):
    quick = ctx.tier == "quick"
    proof = vlib.prove("C11", extra_targets=["theories/Extract/C11.vo"])
    if not quick:
        proof.update(vlib.coqchk("C11"))
        if proof["coqchk_rc"] != 0:
            raise vlib.CheckFailure("coqchk failed: " + proof["coqchk_tail"])
    exe = vlib.build_model("C11", "extract/C11.v", "ocaml/c11_driver.ml")
    harness, hsecs = vlib.build_harness("c11")
    args = [harness, "run", "--seed", str(ctx.seed), "--out", ctx.work]
    if ctx.replay:
        rp = json.load(open(ctx.replay))
        cf = os.path.join(ctx.work, "replay_cases.txt")
        with open(cf, "w") as f:
            f.write(rp.get("case", "") + "\n")
        args += ["--replay-cases", cf]
    elif quick:
        args += ["--nprobe", "25000", "--ndoc", "2500", "--njson", "2500", "--nwhole", "2500", "--nstream", "300"]
    else:
        args += ["--nprobe", "250000", "--ndoc", "25000", "--njson", "25000", "--nwhole", "40000", "--nstream", "5000"]
    p = vlib.run(args, timeout=3000)
    dist = {}
    oracle_disagree = 0
    for line in p.stdout.split("\n"):
        w = line.split()
        if len(w) == 3 and w[0] == "dist":
            dist[w[1]] = int(w[2])
        if len(w) == 2 and w[0] == "oracle-disagree":
            oracle_disagree = int(w[1])
    cases = open(os.path.join(ctx.work, "cases.txt")).read().split("\n")[:-1]
    impl = open(os.path.join(ctx.work, "impl.txt")).read().split("\n")[:-1]
    mp = vlib.run([exe], input="\n".join(cases) + "\n", timeout=3000, stderr=None)
    model = mp.stdout.split("\n")[:-1]
    if not (len(cases) == len(impl) == len(model)):
        raise vlib.CheckFailure("line count mismatch cases=%d impl=%d model=%d" % (len(cases), len(impl), len(model)))
    if oracle_disagree:
        raise vlib.CheckFailure("unicode.IsPrint and strconv.IsPrint disagree on %d runes (one oracle is used for both)" % oracle_disagree)

    kinds = {"P": 0, "D": 0, "J": 0, "B": 0, "W": 0, "Z": 0}
    styles = {}
    distinct = set()
    nontrivial = 0
    mism = 0
    samples = []
    known = {}
    stats = {"probe_roundtrip_ok": 0, "probe_roundtrip_known_bad": 0, "probe_emit_exact": 0, "probe_style_agree": 0,
             "probe_unmodelled_layout": 0, "doc_ok": 0, "doc_known_bad": 0, "json_same": 0, "json_known_tab": 0,
             "json_rejected_by_json_decoder": 0, "fixed_known_cases": 0, "oracle_hypotheses_checked": 0, "bytes_empty_ok": 0,
             "whole_emit_exact": 0, "whole_read_and_roundtrip_ok": 0, "whole_known_class": 0, "whole_known_class_failing": 0,
             "whole_unmodelled_key_layout": 0, "stream_emit_exact": 0, "stream_read_and_roundtrip_ok": 0}

    def violation(kind, c, i, m, what):
        nonlocal mism
        mism += 1
        if mism <= 5:
            ctx.violation({"kind": kind, "case": c, "impl": i, "model": m, "what": what,
                           "replay": "bin/check C11 --replay <this file>"})

    for c, i, m in zip(cases, impl, model):
        k = c.split(" ", 1)[0]
        kinds[k] = kinds.get(k, 0) + 1
        new = c not in distinct
        distinct.add(c)
        if k == "P":
            cw = c.split()
            iw, mw = kv(i), kv(m)
            if "style" not in mw:
                violation("model-driver-failed", c, i, m, "the model driver could not process the case")
                continue
            s, text = unhex(cw[2]), unhex(cw[3])
            # hypotheses of the theorems about the oracles, validated on every case
            flags = kv(c).get("f", "00000")
            nps = kv(c).get("np", "-")
            npset = set() if nps == "-" else set(nps.split(","))
            if (flags[1] == "1" and flags[2] != "1") or (b"\n" in s and "a" not in npset) or (b"\r" in s and "d" not in npset):
                violation("oracle-hypothesis-violated", c, i, m,
                          "token.ToNumber succeeded but token.isNumber is false, or unicode.IsPrint holds for a line break: "
                          "a hypothesis of C11_style_choice_safe_when / C11_double_roundtrip does not hold for the implementation's libraries")
                continue
            stats["oracle_hypotheses_checked"] += 1
            has_break = (b"\n" in s) or (b"\r" in s)
            unmod = mw["kind"] == "SC" and has_break
            styles[mw["kind"]] = styles.get(mw["kind"], 0) + 1
            spec_rt = mw["read"] != "NONE" and unhex(mw["read"]) == s
            model_rt = 1 if (spec_rt and mw["quirk"] == "0") else 0
            impl_rt = int(iw["rt"])
            if new and (len(s) > 1 or mw["kind"] != "P"):
                nontrivial += 1
            if unmod:
                stats["probe_unmodelled_layout"] += 1
            else:
                if iw["style"] != mw["style"]:
                    violation("style-choice-differs-from-model", c, i, m,
                              "the scalar style read off the encoder's output differs from choose_style (Yaml/Scalar.v); "
                              "impl round trip rt=%d" % impl_rt)
                    continue
                stats["probe_style_agree"] += 1
                if unhex(mw["emit"]) != text:
                    violation("emitted-text-differs-from-model", c, i, m,
                              "same style, but the text the encoder wrote differs from the model's emitter")
                    continue
                stats["probe_emit_exact"] += 1
            if impl_rt == 1 and model_rt == 1:
                stats["probe_roundtrip_ok"] += 1
            elif impl_rt == 0 and model_rt == 0:
                stats["probe_roundtrip_known_bad"] += 1
                if mw["quirk"] != "0" and spec_rt:
                    key = "reader deviation: " + QUIRKS[mw["quirk"]]
                else:
                    key = "encoder choice: " + spec_gap(mw["kind"], s)
                if key not in known:
                    known[key] = {"count": 0, "witness": {"ctx": cw[1], "string": s.decode("utf-8", "replace"), "yaml": text.decode("utf-8", "replace")}}
                known[key]["count"] += 1
            elif impl_rt == 0 and model_rt == 1:
                violation("round-trip-fails", c, i, m,
                          "yaml.Extract(yaml.Encode(v)) != v for this string in this position, and the model "
                          "(style choice + YAML reading + listed reader deviations) predicts a correct round trip")
                continue
            else:
                # the implementation round-trips a case of a known finding: not a violation of the property
                stats["fixed_known_cases"] += 1
            if len(samples) < 4 and kinds["P"] % 997 == 5:
                samples.append({"case": c[:300], "impl": i[:200], "model": m[:300]})
        elif k in ("W", "Z"):
            # whole documents / streams: the encoder's text must be the model's emit_doc / emit_stream
            # byte for byte; the model reader must read it back as the data and the implementation must
            # round-trip it, unless the document contains a string of a known class (decided by the model)
            cw = c.split(" ")
            mw = kv(m)
            if "emit" not in mw:
                violation("model-driver-failed", c, i, m, "the model driver could not process the case")
                continue
            tree, text = cw[2], cw[3]
            if k == "Z" and tree.count(",") >= 1 and mw["read"] != "NONE":
                # yaml.Extract returns a one-document stream as the document itself
                inner = tree[1:-2]
                if tree == "[" + inner + ",]" and mw["read"] == inner:
                    tree = inner
            if new and len(tree) > 40:
                nontrivial += 1
            pre = "whole" if k == "W" else "stream"
            if mw["unmod"] == "1":
                stats["whole_unmodelled_key_layout"] += 1
                continue
            if mw["emit"] != text:
                violation("document-text-differs-from-model", c, i[:400], "emit=" + mw["emit"][:4000],
                          "yaml.Encode wrote %r, the document model (Yaml/Doc.v emit_doc: block structure, indentation, "
                          "inline [] / {}, key and scalar styles) writes %r" % (unhex(text)[:600], unhex(mw["emit"])[:600]))
                continue
            stats[pre + "_emit_exact"] += 1
            impl_rt = i.startswith("rt=1")
            model_rt = mw["read"] == tree
            if mw["risky"] == "1":
                stats["whole_known_class"] += 1
                if not impl_rt:
                    stats["whole_known_class_failing"] += 1
            elif impl_rt and model_rt:
                stats[pre + "_read_and_roundtrip_ok"] += 1
            elif not impl_rt:
                violation("document-round-trip-fails", c, i[:400], m[:400],
                          "yaml.Extract(yaml.Encode(v)) != v for this document (text %r); no string of it is in a known class "
                          "and the model reader returns %s" % (unhex(text)[:600], "the document" if model_rt else "something else"))
                continue
            else:
                violation("model-reader-differs", c, i[:400], m[:400],
                          "the implementation round-trips the document but the model reader (Yaml/Doc.v read_doc) does not read "
                          "the encoder's text %r back as the data" % (unhex(text)[:600],), )
                continue
            if len(samples) < 9 and kinds[k] % 701 == 7:
                samples.append({"case": c[:300], "impl": i[:100], "model": m[:300]})
        elif k == "B":
            # an empty bytes value is written as `!!binary ""` and reads back in every position
            # (C11-empty-bytes, fixed)
            if i == "rt=1":
                stats["bytes_empty_ok"] += 1
            else:
                violation("round-trip-fails", c, i, m,
                          "an empty bytes value in this position does not survive yaml.Encode / yaml.Extract "
                          "(cue: {a: '', b: 1})")
        elif k == "D":
            if new and c.count("=") + c.count(",") >= 6:
                nontrivial += 1
            if i == "rt=1":
                stats["doc_ok"] += 1
            elif i.startswith("rt=0 explained=1"):
                stats["doc_known_bad"] += 1
            else:
                violation("document-round-trip-fails", c, i, m,
                          "yaml.Extract(yaml.Encode(v)) != v for this document, every string of it round-trips on its own "
                          "in the same kind of position (or the document still fails with the failing strings replaced)")
            if len(samples) < 6 and kinds["D"] % 499 == 3:
                samples.append({"case": c[:300], "impl": i[:200]})
        elif k == "J":
            iw = kv(i)
            tab = c.endswith("tab=1")
            if new and len(c) > 60:
                nontrivial += 1
            if iw["json"] != "ok":
                stats["json_rejected_by_json_decoder"] += 1
            elif iw["same"] == "1":
                stats["json_same"] += 1
                if tab:
                    stats["fixed_known_cases"] += 1
            elif tab and iw["yaml"] == "err":
                stats["json_known_tab"] += 1
                key = "C11-json-tab-colon: JSON text with a tab between an object key and its colon is rejected by the YAML decoder (goccy scanner: 'tab character cannot use as a map key directly')"
                if key not in known:
                    known[key] = {"count": 0, "witness": {"json": unhex(c.split()[1]).decode("utf-8", "replace")[:200]}}
                known[key]["count"] += 1
            else:
                violation("json-differs-under-yaml-decoder", c, i, m,
                          "yaml.Extract(json) and json.Extract(json) give different data (or the YAML decoder rejects the JSON text)")
    for key in sorted(known):
        ctx.known_finding("%s [%d cases, e.g. %s]" % (key, known[key]["count"], json.dumps(known[key]["witness"], ensure_ascii=True)[:240]))
    if not samples and cases:
        samples.append({"case": cases[0][:300], "impl": impl[0][:200], "model": model[0][:300]})
    ctx.coverage.update({
        "obligations": proof["obligations"],
        "discharged": proof["discharged"],
        "checker_cmd": proof["checker_cmd"] + ("; coqchk -silent -o Verif.Properties.C11" if not quick else ""),
        "trusted_base": TRUSTED,
        "theorems": proof["theorems"],
        "axioms_reported": proof["axioms"],
        "audit_files": proof["audit_files"],
        "evaluations": len(cases),
        "distinct_nontrivial": nontrivial,
        "rule": "P: one string from the adversarial pool placed as root / map value / key / list element, top level or nested, last or followed by a node; "
                "the encoder's style and text must equal choose_style/emit of the model, and the implementation round-trips iff the model reads the text back as the string "
                "and no listed reader deviation applies. D: random nested documents (direct check of the property; failures must be explained by strings whose own probe fails "
                "and vanish when those are replaced). J: generated JSON texts, yaml.Extract vs json.Extract. non-trivial: P string longer than one rune or not plain; "
                "D with >= 6 nodes; J longer than 60 hex chars; W/Z (whole documents / streams: encoder text == emit_doc byte for byte, model reader and implementation "
                "both read it back as the data unless the model flags a known class) with a tree text longer than 40 chars; counted over distinct case lines",
        "samples": samples,
        "case_kinds": kinds,
        "styles_chosen": styles,
        "input_distribution": dist,
        "exploration": stats,
        "known_classes": {k: v["count"] for k, v in known.items()},
        "traces_validated_against_impl": stats["probe_emit_exact"],
        "mismatches": mism,
        "harness_build_s": hsecs,
        "proof": {k: v for k, v in proof.items() if k.startswith("coqchk") or k in ("make_s",)},
    })
    ctx.assumptions.extend(TRUSTED)


MANIFEST = {
    "category": "proof",
    "text": "Coq theorems about the YAML scalar layer, for all strings: the double-quoted form written by the encoder reads back as the string; single-quoted and literal-block forms read back exactly under stated conditions, with witnesses where the encoder's own choice violates them; a plain scalar chosen by the encoder always resolves to a string and is syntactically a plain scalar except for '...' in column 0; JSON scalars resolve to the same kinds. Whole documents: for every data tree the indentation-based block parser inverts the encoder's token layout (also embedded in any column); inline string values read back as the string outside the stated classes and never as a non-string. The model is tied to /repo by exact agreement of the chosen style and the emitted text on generated strings in all positions, by agreement of the round-trip verdict, by byte-for-byte agreement of the whole-document emitter (and stream emitter) with yaml.Encode / yaml.EncodeStream on generated nested documents with the model reader reading the implementation's text back, by direct round trips of random nested documents and by yaml.Extract(json) == json.Extract(json).",
    "note": "partial: the link between the byte renderer and the line lexer of the document model is tied, not proved; comments, anchors, tags, flow style from source positions and CompactSequences are not modelled; go.yaml.in/yaml/v3 (legacy path) and invalid UTF-8 are not modelled; third-party scanner behaviour is modelled at the scalar level and validated by correspondence.",
    "technique": "Coq proof (induction over strings for the scalar codecs, decision-table reasoning for the style choice) + extracted-model differential check + direct round-trip exploration",
}
