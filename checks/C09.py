"""C09 - the parser is total and literals round-trip through quoting."""
import json
import os
import vlib

LEVEL = "proof"

SHIMS = {"cue/literal/export_verif.go": "harness/c09/shims/literal_export.go.txt"}

TRUSTED = [
    "Coq 8.16.1 kernel; vm_compute only in Examples (closed witnesses); no axioms (Print Assumptions: closed)",
    "hand-written Gallina transcription of cue/literal/quote.go (Form.Append, appendEscaped, appendEscapedRune, isPrint, singleLineHashCount, requiredHashCount), cue/literal/string.go (ParseQuotes, Unquote, QuoteInfo.Unquote, unquoteChar, hasClosingDelimPrefix, skipWhitespaceAfterNewline, isSimple), cue/literal/indent.go (IndentTabs with strings.Repeat / strings.ReplaceAll for a non-empty search string) and of Go's unicode/utf8 DecodeRuneInString / AppendRune / DecodeLastRuneInString, strconv.IsPrint Latin-1 fast path, unicode.IsSpace",
    "strconv.IsPrint / IsGraphic for runes > 0xFF are universally quantified in the theorems; the harness supplies Go's verdicts per case for the correspondence",
    "correspondence: extracted OCaml model (ExtrOcamlBasic only; N/Z/nat kept as Coq datatypes) vs the Go implementation built from /repo's working tree via go build -overlay; re-export shim cue/literal/export_verif.go (error classes by identity); a sub-sample re-evaluated with vm_compute by coqc",
    "OCaml driver ocaml/c09_driver.ml, Go harness harness/c09 (generators, error-class projection), checks/C09.py (comparison, Go-rule sanitize used as expected value)",
    "parser / scanner (cue/parser, cue/scanner) are NOT modelled: their totality, position invariants and agreement with cue/literal are direct exploration on the implementation (evidence key `exploration`), not theorems",
]

KNOWN_HASHLIT = ("C09-hash-literal-two-quotes-scanner: a single-line #-delimited literal whose content starts with two quote "
                 "characters followed by '#', e.g. ##\"\"\"#\"## (content \"\"#), is accepted by literal.Unquote but read as a "
                 "multi-line opener by the scanner (exploration class hash-string-content-starts-with-two-quotes; Form.Quote no "
                 "longer produces such literals since fix autohash)")
U32_WHAT = ("literal.Unquote panics or accepts a truncated string on a \\U escape >= 2^31: the behaviour of an int32 "
            "accumulator (regression of fix unquote-U; former finding C09-unquote-U-int32); the model proves that Unquote never "
            "panics (C09_unquote_impl_no_panic) and rejects every \\U value > 0x10FFFF; the literal is the failing input")


def go_sanitize(b):
    """What ranging over a Go string and re-encoding gives: every byte at which
    utf8.DecodeRune fails becomes U+FFFD (one per byte)."""
    out = bytearray()
    i, n = 0, len(b)
    while i < n:
        c = b[i]
        if c < 0x80:
            out.append(c)
            i += 1
            continue
        if 0xC2 <= c <= 0xDF:
            need, lo, hi = 1, 0x80, 0xBF
        elif 0xE0 <= c <= 0xEF:
            need, lo, hi = 2, (0xA0 if c == 0xE0 else 0x80), (0x9F if c == 0xED else 0xBF)
        elif 0xF0 <= c <= 0xF4:
            need, lo, hi = 3, (0x90 if c == 0xF0 else 0x80), (0x8F if c == 0xF4 else 0xBF)
        else:
            need = 0
        ok = need > 0 and i + need <= n - 1
        if ok and not (lo <= b[i + 1] <= hi):
            ok = False
        if ok:
            for k in range(2, need + 1):
                if not (0x80 <= b[i + k] <= 0xBF):
                    ok = False
        if ok:
            out += b[i:i + need + 1]
            i += need + 1
        else:
            out += b"\xef\xbf\xbd"
            i += 1
    return bytes(out)


def unhex(h):
    return b"" if h == "-" else bytes.fromhex(h)


def hexs(b):
    return b.hex() if b else "-"


def coq_list(b):
    return "[" + "; ".join(str(x) for x in b) + "]"


def coq_outcome(r):
    if r.startswith("ok:"):
        return "Ok " + coq_list(unhex(r[3:]))
    if r == "panic":
        return "Panic"
    if r == "fuel":
        return "OutOfFuel"
    names = {"syntax": "ESyntax", "opening-newline": "EMissingOpeningNewline", "closing-newline": "EMissingClosingNewline",
             "unmatched-quote": "EUnmatchedQuote", "surrogate": "ESurrogate", "invalid-utf8": "EInvalidUTF8",
             "escaped-last-newline": "EEscapedLastNewline", "whitespace": "EInvalidWhitespace"}
    return "Err " + names[r[4:]]


def xcheck(ctx, cases, model):
    """Re-evaluate a deterministic sub-sample with vm_compute inside Coq: the
    extraction (and the driver glue) must agree with the kernel's evaluation."""
    ucases, qcases, icases = [], [], []
    for idx, (c, m) in enumerate(zip(cases, model)):
        p = c.split(" ")
        if p[0] == "I" and len(p[1]) <= 200 and idx % 11 == 0 and len(icases) < 40:
            mr = m.split(" ")[0]
            icases.append("(%s, (%s)%%Z, %s)" % (coq_list(unhex(p[1])), p[2], coq_outcome(mr)))
        if p[0] == "U" and len(p[1]) <= 240 and idx % 23 == 0 and len(ucases) < 60:
            ucases.append("(%s, %s)" % (coq_list(unhex(p[1])), coq_outcome(m.split(" ")[0])))
        if p[0] == "Q" and len(p[2]) <= 160 and idx % 41 == 0 and len(qcases) < 40:
            k, ml, auto, ah, ascii_, gr, ind = p[1].split(":")
            b = lambda x: "true" if x == "1" else "false"
            form = "c09_mk_form %s %s %s %s %s %s %s" % (b("1" if k == "s" else "0"), b(ml), b(auto), b(ah), b(ascii_), b(gr), ind)
            tbl = "[]"
            if p[3] != "-":
                ents = []
                for e in p[3].split(","):
                    r, pg = e.split(".")
                    ents.append("(%d%%N, (%s, %s))" % (int(r, 16), b(pg[0]), b(pg[1])))
                tbl = "[" + "; ".join(ents) + "]"
            qcases.append("(%s, (%s), %s, %s)" % (tbl, form, coq_list(unhex(p[2])), coq_list(unhex(m.split(" ")[0]))))
    src = ("From Verif Require Import Utf8.Model Lit.Quote Lit.Unquote Extract.C09.\n"
           "From Coq Require Import List NArith ZArith.\nImport ListNotations.\nOpen Scope N_scope.\n"
           "Definition ucases : list (str * outcome str) := [%s].\n"
           "Definition qcases : list (tbl * form * str * str) := [%s].\n"
           "Definition icases : list (str * Z * outcome str) := [%s].\n"
           "Eval vm_compute in (c09_xcheck_unquote ucases, c09_xcheck_quote qcases).\n"
           "Eval vm_compute in (c09_xcheck_indent icases).\n"
           % (";\n ".join(ucases), ";\n ".join(qcases), ";\n ".join(icases)))
    vf = os.path.join(ctx.work, "xcheck.v")
    with open(vf, "w") as f:
        f.write(src)
    p = vlib.run(["timeout", "600", "coqc", "-Q", os.path.join(vlib.COQ, "theories"), "Verif", vf], cwd=ctx.work, check=False)
    ok = p.returncode == 0 and "= (true, true)" in p.stdout and "= true\n" in p.stdout.replace("\r", "")
    return {"unquote_cases": len(ucases), "quote_cases": len(qcases), "indent_cases": len(icases), "agree": ok, "out": p.stdout[-400:] if not ok else ""}


def lead2(form, s):
    q = 0x22 if form[0] == "s" else 0x27
    return len(s) >= 2 and s[0] == q and s[1] == q and (len(s) == 2 or s[2] != 0x23)


def run(ctx):
    import time
    quick = ctx.tier == "quick"
    tm = {}
    t0 = time.time()

    def lap(name):
        nonlocal t0
        tm[name] = round(time.time() - t0, 1)
        t0 = time.time()
    proof = vlib.prove("C09", extra_targets=["theories/Extract/C09.vo"])
    lap("prove")
    if not quick:
        proof.update(vlib.coqchk("C09"))
        if proof["coqchk_rc"] != 0:
            raise vlib.CheckFailure("coqchk failed: " + proof["coqchk_tail"])
    exe = vlib.build_model("C09", "extract/C09.v", "ocaml/c09_driver.ml")
    harness, hsecs = vlib.build_harness("c09", shims=SHIMS)
    lap("build")

    # ---- replay of a recorded violation --------------------------------------
    explore_replay = None
    args = [harness, "--mode", "lit", "--seed", str(ctx.seed), "--out", ctx.work]
    if ctx.replay:
        rp = json.load(open(ctx.replay))
        if rp.get("input_hex") is not None and rp.get("explore_kind"):
            explore_replay = rp
            cf = os.path.join(ctx.work, "replay_cases.txt")
            open(cf, "w").close()
            args += ["--replay-cases", cf]
        else:
            cf = os.path.join(ctx.work, "replay_cases.txt")
            with open(cf, "w") as f:
                f.write(rp.get("case", "") + "\n")
            args += ["--replay-cases", cf]
    elif quick:
        args += ["--nq", "4000", "--nu", "4000", "--ncodec", "1500", "--ni", "3000"]
    else:
        args += ["--nq", "150000", "--nu", "150000", "--ncodec", "40000", "--ni", "100000"]
    vlib.run(args, timeout=3000)
    cases = open(os.path.join(ctx.work, "cases.txt")).read().split("\n")[:-1]
    impl = open(os.path.join(ctx.work, "impl.txt")).read().split("\n")[:-1]
    corpus_n = 0
    corpus_file = os.path.join(vlib.VERIF, "corpus", "C09", "cases.txt")
    if not ctx.replay and os.path.exists(corpus_file):
        # corpus first: minimized regression cases (witnesses of the known classes, past disagreements)
        cdir = os.path.join(ctx.work, "corpus")
        os.makedirs(cdir, exist_ok=True)
        vlib.run([harness, "--mode", "lit", "--out", cdir, "--replay-cases", corpus_file], timeout=600)
        c0 = open(os.path.join(cdir, "cases.txt")).read().split("\n")[:-1]
        i0 = open(os.path.join(cdir, "impl.txt")).read().split("\n")[:-1]
        corpus_n = len(c0)
        cases, impl = c0 + cases, i0 + impl
    p = vlib.run([exe], input="\n".join(cases) + "\n", timeout=3000, stderr=None) if cases else None
    model = p.stdout.split("\n")[:-1] if p else []
    if not (len(cases) == len(impl) == len(model)):
        raise vlib.CheckFailure("line count mismatch cases=%d impl=%d model=%d" % (len(cases), len(impl), len(model)))

    lap("lit_run")
    kinds = {}
    dist = {"forms": {}, "content": {"invalid-utf8": 0, "newlines": 0, "quotes-or-backslash": 0, "controls": 0, "non-ascii": 0, "empty": 0},
            "len_hist": {}, "unquote_results": {}, "hash_counts": {},
            "indent_tabs": {"I_reindented": 0, "I_returned_as_is": 0, "I_panic_negative_n": 0, "I_literal_accepted": 0,
                            "I_literal_rejected": 0, "I_value_preserved": 0, "J_multiline_k>0_bytewise_requote": 0,
                            "J_multiline_k=0": 0, "J_single_line": 0, "n_hist": {}}}
    distinct = set()
    nontrivial = 0
    mism = 0
    viol = 0
    samples = []
    known_auto = 0
    xval_lits = []      # (index, model quote hex) for pass 2
    sanitize_selftest = 0

    def lhist(n):
        for lim in (0, 4, 16, 64, 256, 1024):
            if n <= lim:
                return "<=%d" % lim
        return ">1024"

    def report(payload, no_input=False):
        nonlocal viol
        viol += 1
        if viol <= 6:
            payload["replay"] = "bin/check C09 --replay <this file>"
            ctx.violation(payload, no_input=no_input)

    for idx, (c, i, m) in enumerate(zip(cases, impl, model)):
        pc = c.split(" ")
        k = pc[0]
        kinds[k] = kinds.get(k, 0) + 1
        new = c not in distinct
        distinct.add(c)
        if k == "Q":
            form, s = pc[1], unhex(pc[2])
            mp = m.split(" ")
            if len(mp) != 3:
                raise vlib.CheckFailure("model output malformed: " + m[:200])
            mq, mi, _m32 = mp
            ip = i.split(" ")
            iq, ir = (ip[0], ip[1]) if len(ip) == 2 else ("", ip[0])
            expected = "ok:" + hexs(s if form[0] == "b" else go_sanitize(s))
            bad_class = False   # fix autohash: no (form, text) class is exempt from the round trip any more
            if new:
                dist["forms"][form[:9]] = dist["forms"].get(form[:9], 0) + 1
                dist["len_hist"][lhist(len(s))] = dist["len_hist"].get(lhist(len(s)), 0) + 1
                hc = len(unhex(iq)) - len(unhex(iq).lstrip(b"#")) if iq else 0
                dist["hash_counts"][str(hc)] = dist["hash_counts"].get(str(hc), 0) + 1
                ct = dist["content"]
                if not s:
                    ct["empty"] += 1
                if go_sanitize(s) != s:
                    ct["invalid-utf8"] += 1
                if b"\n" in s:
                    ct["newlines"] += 1
                if any(x in s for x in (b'"', b"'", b"\\")):
                    ct["quotes-or-backslash"] += 1
                if any(x < 0x20 and x != 0x0a for x in s) or 0x7f in s:
                    ct["controls"] += 1
                if any(x >= 0x80 for x in s):
                    ct["non-ascii"] += 1
                # non-trivial: the quoted body differs from the text (escaping, indentation or hashes happened)
                if iq and len(s) >= 2 and unhex(iq)[1:-1] != s:
                    nontrivial += 1
            if ir != expected and not bad_class:
                # the property itself fails on this input: Unquote(Quote(s)) != s
                mism += 1
                report({"kind": "round-trip-fails", "case": c, "impl": i, "model": m, "expected": expected,
                        "what": "literal.Unquote(form.Quote(s)) differs from s (bytes forms) / sanitize(s) (string forms); "
                                "the Coq model proves the round trip for every public Form and every byte sequence "
                                "(C09_unquote_quote_all)"})
            elif iq != mq or ir != mi:
                mism += 1
                report({"kind": "impl-differs-from-proved-model", "case": c, "impl": i, "model": mq + " " + mi,
                        "what": "Form.Quote output (bytewise) or Unquote of it differs from the model proved to round-trip; "
                                "the round trip on the implementation itself still holds for this input"}, no_input=True)
            elif mi != expected and not bad_class:
                mism += 1
                report({"kind": "model-contradicts-theorem", "case": c, "model": m, "expected": expected}, no_input=True)
            if bad_class:
                known_auto += 1
            xval_lits.append((idx, mq, expected, bad_class))
            if len(samples) < 4 and new and len(c) < 300 and kinds[k] % 397 == 5:
                samples.append({"case": c, "impl": i, "model": m})
        elif k == "U":
            mi, m32 = m.split(" ")
            if new:
                rk = i if i.startswith("err") or i == "panic" else "ok"
                dist["unquote_results"][rk] = dist["unquote_results"].get(rk, 0) + 1
                if i.startswith("ok:") and len(pc[1]) >= 8:
                    nontrivial += 1
            if i != mi and (i == "panic" or (i == m32 and mi != m32)):
                # Unquote itself violates the property on this literal: a Go panic, or the
                # int32 wrap-around of a \\U escape (accepted / truncated instead of rejected)
                mism += 1
                report({"kind": "unquote-panics-or-int32-wrap", "case": c, "literal_hex": pc[1], "impl": i, "model": mi,
                        "int32_layer": m32, "what": U32_WHAT})
            elif i != mi:
                mism += 1
                report({"kind": "impl-differs-from-proved-model", "case": c, "impl": i, "model": mi,
                        "what": "literal.Unquote(x) (value or error class) differs from the model's unquote on this literal text"},
                       no_input=True)
            if len(samples) < 7 and new and len(c) < 200 and kinds[k] % 499 == 7:
                samples.append({"case": c, "impl": i, "model": m})
        elif k == "I":
            ip, mp = i.split(" "), m.split(" ")
            n = int(pc[2])
            it = dist["indent_tabs"]
            if new:
                it["n_hist"][str(n) if -1 <= n <= 4 else ("<-1" if n < 0 else ">4")] = it["n_hist"].get(str(n) if -1 <= n <= 4 else ("<-1" if n < 0 else ">4"), 0) + 1
                if ip[0] == "panic":
                    it["I_panic_negative_n"] += 1
                elif ip[0] == "ok:" + pc[1]:
                    it["I_returned_as_is"] += 1
                else:
                    it["I_reindented"] += 1
                    nontrivial += 1
                it["I_literal_accepted" if ip[2].startswith("ok:") else "I_literal_rejected"] += 1
            if ip[0] == "panic" and n >= 0:
                mism += 1
                report({"kind": "indent-tabs-panics", "case": c, "literal_hex": pc[1], "n": n, "impl": i, "model": m,
                        "what": "literal.IndentTabs panics for a non-negative indentation; the model is total for n >= 0 "
                                "(C09_indent_tabs_go_total)"})
            elif ip[0] != "panic" and ip[2].startswith("ok:") and ip[1] != ip[2]:
                # the property: re-indentation never changes what an accepted literal means
                mism += 1
                report({"kind": "indent-tabs-changes-value", "case": c, "literal_hex": pc[1], "n": n, "impl": i, "model": m,
                        "what": "literal.Unquote(literal.IndentTabs(lit, n)) differs from literal.Unquote(lit) for a literal that "
                                "Unquote accepts: re-indentation changed (or broke) the value; lit and n are the failing input"})
            elif i != m:
                mism += 1
                report({"kind": "impl-differs-from-proved-model", "case": c, "impl": i, "model": m,
                        "what": "literal.IndentTabs(lit, n) (bytewise), or Unquote of it, differs from the model's indent_tabs"},
                       no_input=True)
            elif ip[0] != "panic" and ip[2].startswith("ok:"):
                if new:
                    it["I_value_preserved"] += 1
            if len(samples) < 9 and new and len(c) < 200 and kinds[k] % 211 == 9:
                samples.append({"case": c, "impl": i, "model": m})
        elif k == "J":
            form, s_, n = pc[1], unhex(pc[2]), int(pc[4])
            fp = form.split(":")
            eff_ml = fp[1] == "1" or (fp[2] == "1" and b"\n" in s_)
            kk = int(fp[6])
            ip = i.split(" ")
            expected = "ok:" + hexs(s_ if form[0] == "b" else go_sanitize(s_))
            it = dist["indent_tabs"]
            if new:
                it["J_single_line" if not eff_ml else ("J_multiline_k>0_bytewise_requote" if kk > 0 else "J_multiline_k=0")] += 1
                if eff_ml and kk != n:
                    nontrivial += 1
            if len(ip) != 4:
                mism += 1
                report({"kind": "indent-tabs-panics", "case": c, "impl": i, "model": m,
                        "what": "Form.Quote or literal.IndentTabs panics on this (form, text, n)"})
            elif ip[3] != expected:
                mism += 1
                report({"kind": "indent-tabs-changes-value", "case": c, "impl": i, "model": m, "expected": expected,
                        "what": "literal.Unquote(literal.IndentTabs(form.Quote(s), n)) differs from s (bytes forms) / sanitize(s): "
                                "re-indenting a literal written by Quote changed its value (C09_unquote_indent_tabs_quote)"})
            elif eff_ml and kk > 0 and ip[1] != ip[2]:
                mism += 1
                report({"kind": "indent-tabs-differs-from-requote", "case": c, "impl": i, "model": m,
                        "what": "IndentTabs(f.Quote(s), n) differs bytewise from f.WithTabIndent(n).Quote(s) for a multi-line literal "
                                "written with k > 0 tabs (proved equal for the model: C09_indent_tabs_quote)"})
            elif not eff_ml and ip[1] != ip[0]:
                mism += 1
                report({"kind": "indent-tabs-differs-from-requote", "case": c, "impl": i, "model": m,
                        "what": "IndentTabs changed a single-line literal written by Quote"})
            elif i != m:
                mism += 1
                report({"kind": "impl-differs-from-proved-model", "case": c, "impl": i, "model": m,
                        "what": "Quote / IndentTabs / re-Quote (bytewise) or Unquote differ from the model"}, no_input=True)
            if len(samples) < 11 and new and len(c) < 200 and kinds[k] % 197 == 3:
                samples.append({"case": c, "impl": i, "model": m})
        else:
            if k == "S":
                sanitize_selftest += 1
                if hexs(go_sanitize(unhex(pc[1]))) != i:
                    raise vlib.CheckFailure("checks/C09.py go_sanitize disagrees with Go's range loop on " + pc[1])
            if i != m:
                mism += 1
                report({"kind": "impl-differs-from-proved-model", "case": c, "impl": i, "model": m,
                        "what": "unicode/utf8 (DecodeRuneInString/DecodeLastRuneInString/AppendRune/range) differs from the UTF-8 model"},
                       no_input=True)

    lap("compare")
    # ---- pass 2: cross-validation impl_unquote(model_quote(s)) ----------------
    xval = 0
    if xval_lits:
        lf = os.path.join(ctx.work, "model_quotes.txt")
        with open(lf, "w") as f:
            for _, mq, _, _ in xval_lits:
                f.write(mq + "\n")
        p2 = vlib.run([harness, "--mode", "unq", "--in", lf], timeout=3000, stderr=None)
        out2 = p2.stdout.split("\n")[:-1]
        if len(out2) != len(xval_lits):
            raise vlib.CheckFailure("cross-validation: line count mismatch")
        for (idx, mq, expected, bad_class), r in zip(xval_lits, out2):
            xval += 1
            if r != expected and not bad_class:
                mism += 1
                report({"kind": "cross-validation-fails", "case": cases[idx], "model_quote": mq, "impl_unquote": r,
                        "expected": expected,
                        "what": "literal.Unquote applied to the MODEL's quote of s does not return s"}, no_input=True)

    lap("pass2")
    # ---- extraction cross-check with vm_compute --------------------------------
    xc = {"skipped": "replay"}
    if not ctx.replay:
        xc = xcheck(ctx, cases, model)
        if not xc["agree"]:
            raise vlib.CheckFailure("vm_compute and the extracted model disagree: " + xc["out"])

    lap("xcheck")

    # ---- exploration: scanner / literal / parser agreement, parser totality ----
    exploration = {}
    eargs = None
    if explore_replay:
        eargs = [harness, "--mode", "explore-replay", "--kind", explore_replay["explore_kind"],
                 "--input-hex", explore_replay["input_hex"], "--out", ctx.work]
        if explore_replay.get("lit_kind"):
            eargs += ["--lit-kind", explore_replay["lit_kind"]]
    elif not ctx.replay:
        eargs = [harness, "--mode", "explore", "--seed", str(ctx.seed), "--out", ctx.work,
                 "--nmut", "1500" if quick else "40000", "--nlit", "4000" if quick else "150000"]
    if eargs:
        vlib.run(eargs, timeout=3000)
        ex = json.load(open(os.path.join(ctx.work, "explore.json")))
        ex_reported = 0
        for fl in ex.get("failures", []):
            viol_payload = {"kind": "exploration-" + fl.get("class", "failure"), "explore_kind": fl.get("kind", "parse"),
                            "input_hex": fl.get("input_hex", ""), "lit_kind": fl.get("lit_kind"), "opts": fl.get("opts"),
                            "what": fl.get("what", ""),
                            "note": "direct exploration of the implementation (parser panic / position invariant / "
                                    "scanner-literal-parser disagreement); input_hex is the failing input"}
            # exploration failures carry a failing input: always record the first few,
            # even when the differential part already used up its replay budget
            viol += 1
            ex_reported += 1
            if ex_reported <= 3:
                viol_payload["replay"] = "bin/check C09 --replay <this file>"
                ctx.violation(viol_payload)
        for cls, info in sorted(ex.get("known_candidates", {}).items()):
            if cls == "hash-string-content-starts-with-two-quotes":
                ctx.known_finding(KNOWN_HASHLIT)
            else:
                ctx.known_finding("exploration class %s: %s (witness hex %s)" % (cls, info.get("what", "")[:300], info.get("witness_hex", "")))
        tw = ex.get("threeway", {})
        exploration = {
            "note": "direct exploration of the implementation, NOT theorems: parser totality and position invariants by AST walk; "
                    "three-way agreement scanner / literal.Unquote|ParseNum / parser.ParseExpr",
            "corpus_files": ex.get("corpus_files"), "corpus_source": ex.get("corpus_source"),
            "parse_inputs": ex.get("parse_inputs"), "parse_calls": ex.get("parse_calls"), "parse_ok": ex.get("parse_ok"),
            "parse_err": ex.get("parse_err"), "parse_expr_calls": ex.get("parse_expr_calls"),
            "mutation_kinds": ex.get("mutation_kinds"), "size_hist": ex.get("size_hist"),
            "nodes_visited": ex.get("nodes_visited"), "invariant_checks": ex.get("invariant_checks"),
            "invariant_checks_by": ex.get("invariant_checks_by"), "invariants": ex.get("invariants"),
            "relaxations": ex.get("relaxations"), "relaxed_counts": ex.get("relaxed_counts"),
            "failures_total": ex.get("failures_total"), "failure_classes": ex.get("failure_classes"),
            "known_candidates": {k: {"count": v.get("count"), "witness_hex": v.get("witness_hex"), "verdict": v.get("verdict")}
                                 for k, v in ex.get("known_candidates", {}).items()},
            "threeway": {"cases": tw.get("cases"), "compared": tw.get("compared"), "verdicts": tw.get("verdicts"),
                         "by_kind": tw.get("by_kind"), "disagreements": tw.get("disagreements"),
                         "excluded_classes": {k: {"count": v.get("count"), "why": v.get("why")} for k, v in tw.get("excluded_classes", {}).items()},
                         "num_kind_checks": tw.get("num_kind_checks"), "crlf_invariance_checks": tw.get("crlf_invariance_checks"),
                         "quoted_form_checks": tw.get("quoted_form_checks")},
            "idents": {k: v for k, v in (ex.get("idents") or {}).items() if k in ("cases", "verdicts", "by_kind", "disagreements", "legend")}
                      | {"excluded_classes": {k: {"count": v.get("count"), "why": v.get("why")}
                                              for k, v in (ex.get("idents") or {}).get("excluded_classes", {}).items()}},
            "wall_ms": ex.get("wall_ms"),
        }

    lap("explore")
    if not samples and cases:
        samples.append({"case": cases[0][:300], "impl": impl[0][:300], "model": model[0][:300]})
    ctx.coverage.update({
        "obligations": proof["obligations"],
        "discharged": proof["discharged"],
        "checker_cmd": proof["checker_cmd"] + ("; coqchk -silent -o Verif.Properties.C09" if not quick else ""),
        "trusted_base": TRUSTED,
        "theorems": proof["theorems"],
        "axioms_reported": proof["axioms"],
        "audit_files": proof["audit_files"],
        "evaluations": len(cases) + xval,
        "distinct_nontrivial": nontrivial,
        "rule": "cases: Q = (form, text) pairs: fixed corpus x {String,Bytes} x {single,multi,optional-multi} x {hashes} plus random public "
                "Forms (tabs 0-3, optional hashes, ASCII-only, graphic-only) over adversarial text (quotes next to # runs, trailing "
                "backslash, CR/CRLF/LF runs, mixed indentation, NUL/controls, Latin-1 specials, U+2028/U+FEFF/U+FFFD, astral, invalid "
                "UTF-8 incl. surrogates as bytes, leading quote pairs): Quote bytewise + Unquote(Quote) vs model, and Unquote on the model's "
                "Quote (pass 2); U = literal texts: hand-assembled (escapes with right/wrong hash counts, \\x \\u \\U octal, surrogate "
                "pairs, CRLF, indentation variants, escaped newlines, interpolation starts) and mutated literals (malformed stream): "
                "Unquote value or error class vs model; D/E/S = unicode/utf8 decode, decode-last, encode, range. non-trivial: Q with "
                "len(text) >= 2 whose quoted body differs from the text; U accepted (ok) with >= 4 bytes; I whose result differs from the literal; "
                "J multi-line with n != k; counted over distinct case lines",
        "samples": samples,
        "case_kinds": kinds,
        "corpus_cases": corpus_n,
        "input_distribution": dist,
        "cross_validation": {"impl_unquote_of_model_quote": xval, "quotes_compared_bytewise": kinds.get("Q", 0)},
        "known_class_counts": {"autohash-leading-quotes (fixed, must be 0)": known_auto, "U-escape-int32 (regression layer, must be 0)": 0},
        "sanitize_selftest_cases": sanitize_selftest,
        "vm_compute_crosscheck": xc,
        "mismatches": mism,
        "harness_build_s": hsecs,
        "phase_seconds": tm,
        "exploration": exploration,
        "proof": {k: v for k, v in proof.items() if k.startswith("coqchk") or k in ("make_s",)},
    })
    ctx.assumptions.extend(TRUSTED)


MANIFEST = {
    "category": "proof",
    "text": "Coq theorems over a byte-level transcription of cue/literal quote.go and string.go (and Go's UTF-8 codec), for every "
            "byte sequence, every Form the exported API can build (String/Bytes, single line, multi-line with n tabs, optional "
            "multi-line, optional hashes, ASCII-only, graphic-only), every hash count and ANY Unicode printability tables: "
            "Unquote(Quote(f, s)) = s for bytes forms and for valid UTF-8 in string forms, and exactly sanitize(s) (each "
            "undecodable byte becomes U+FFFD) otherwise, without exception (WithOptionalHashes falls back to regular quoting for "
            "text starting with two quote characters); "
            "requiredHashCount / singleLineHashCount are sufficient (no accidental closing delimiter or escape introducer); the "
            "modelled Unquote never runs out of fuel and never panics on ANY input (\\U escapes accumulate in a uint32 and every "
            "value > 0x10FFFF is a syntax error; an int32 accumulator provably panics and is kept as regression layer, so that "
            "a reappearance is reported as a violation with the literal). The model is tied to /repo by bytewise "
            "agreement of Quote, exact agreement of Unquote (value or error class) on valid and mutated literals, and "
            "cross-validation in both directions. literal.IndentTabs (indent.go) is modelled with strings.ReplaceAll: for every text, "
            "public form and n, IndentTabs(f.Quote(s), n) is bytewise f.WithTabIndent(n).Quote(s) when Quote wrote a multi-line literal "
            "with k > 0 tabs (refuted with witness for k = 0: empty lines get indented), so re-indentation never changes the value read "
            "back; IndentTabs is total for n >= 0 and panics exactly for n < 0; the tie compares IndentTabs bytewise on generated, "
            "mutated and Quote-written literals and checks Unquote(IndentTabs(lit, n)) = Unquote(lit) on every accepted literal "
            "(that general statement is checked, not proved). Parser totality, AST position invariants and scanner/literal/parser agreement "
            "are explored directly on the implementation (not proved).",
    "note": "Trusted: Coq kernel; the hand-written model of quote.go/string.go/utf8; strconv.IsPrint/IsGraphic tables > 0xFF are "
            "quantified over (no hypotheses); extraction + OCaml/Go drivers; the recursive-descent parser and the scanner are not "
            "modelled (exploration only). Number literal values belong to C06.",
    "technique": "Coq proof (loop invariants over the escape/unescape loops, suffix invariants for totality) + extracted-model "
                 "differential check + direct exploration of parser/scanner",
}
