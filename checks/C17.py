"""C17 - cue mod tidy reaches a correct fixpoint; module files round-trip."""
import collections
import json
import os
import re
import vlib

LEVEL = "proof"

TRUSTED = [
    "Coq 8.16.1 kernel; vm_compute only inside the witness Examples; no axioms (Print Assumptions: closed)",
    "hand-written Gallina model coq/theories/Tidy/Model.v of internal/mod/modload tidy.go + query.go, modpkgload import.go + pkgload.go, modrequirements requirements.go (published view only; no replace directives, build attributes, cue.mod/pkg; standard-library imports dropped by the driver)",
    "correspondence: extracted OCaml model (ExtrOcamlBasic only, N/nat kept as Coq datatypes) vs modload.Tidy / CheckTidy of the working tree built with go build -overlay, on generated universes served by an in-memory registry (harness/c17)",
    "OCaml driver ocaml/c17_driver.ml (case parsing, interning of path elements, printing), Go harness harness/c17 (generators, in-memory registry, layout of the facts into CUE files, projection of results, error classification by message substring)",
    "module file codec: hand-written Gallina model coq/theories/Tidy/ModFile.v of mod/modfile Parse/ParseNonStrict/ParseLegacy/Format + schema.cue #File + modfiledata File.init + module.NewVersion/CheckPath, tied by exact comparison on generated module.cue data trees (harness/c17/mc.go renders trees as CUE text); NO theorem about this part yet; the older direct exploration (MF cases) is kept",
]

FINDINGS = {
    "F-C17-1": "tidy is not idempotent: Tidy(Tidy(x)) / CheckTidy(Tidy(x)) fail with an ambiguous import after a transitive provider was promoted to a requirement (model witness Tidy.Examples.w1)",
    "F-C17-2": "tidy is not idempotent: Tidy(Tidy(x)) / CheckTidy(Tidy(x)) cannot resolve an unversioned import because the written requirements change the implicit default major version (model witness Tidy.Examples.w2)",
    "F-C17-4": "tidy is not idempotent: Tidy(Tidy(x)) succeeds with a different requirement list (or hits a dangling requirement): the requirements of a module promoted to a root are read only on the next run and change how imports inside dependencies resolve (model witness Tidy.Examples.w5)",
    "F-C17-5": "modfile.Parse accepts a `description` field (known to schema.cue) and silently drops it: modfile.File has no such field, so Format(Parse(x)) - what cue mod tidy / cue mod fix write back - loses it (model: Tidy.ModFile, C17_codec_drops_description_refuted)",
    "F-C17-6": "strict modfile.Parse accepts a dependency without a version at language.version >= v0.17.0 (v?: in #Dep; #Strict is never applied): the parsed File has Version \"\" (DepVersions b.test@v1=\"\", default major \"\") and modfile.Format of the parsed file fails (model: C17_codec_parse_then_format_fails_refuted)",
    "F-C17-3": "tidied requirements are not closed under minimal version selection: a listed module requires a higher version of another listed module than the one written (model witness Tidy.Examples.w3)",
}


def fields(s):
    out = {}
    for part in s.split(" ; "):
        k, _, v = part.partition("=")
        out[k.strip()] = v.strip()
    return out


CLS = {"missing": 0, "ambiguous": 1, "fetch": 2}


def agree(i, m, check=False):
    """impl observable vs model observable.  None: the model does not decide (MULTI)."""
    if m == "MULTI":
        return None
    if i.startswith("OK") or m.startswith("OK"):
        return sorted(i.split()) == sorted(m.split())
    if i.startswith("ERR:") and m.startswith("ERR:"):
        c, bits = i[4:], m[4:]
        return c in CLS and bits[CLS[c]] != "-"
    if check and i == "REJECT" and m.startswith("ERR:"):
        return m[4] == "m"
    return i == m


def parse_ver(v):
    core, _, pre = v[1:].partition("-")
    a, b, c = (int(x) for x in core.split("."))
    return (a, b, c, 0 if pre else 1)


def split_dep(w):
    w = w.rstrip("*")
    i = w.rindex("@")
    return w[:i], w[i + 1:]


def mvs_gaps(case, result):
    """Listed modules whose written version is below what another listed module requires."""
    secs = case.split("|")
    listed = {}
    for w in result.split()[1:]:
        b, v = split_dep(w)
        listed[(b, parse_ver(v)[0])] = (v, w.rstrip("*"))
    nodes = {n for (_, n) in listed.values()}
    gaps = []
    for w in secs[5].split():
        src, _, d = w.partition(">")
        if src not in nodes:
            continue
        b, v = split_dep(d)
        k = (b, parse_ver(v)[0])
        if k in listed and parse_ver(listed[k][0]) < parse_ver(v):
            gaps.append("%s requires %s@%s, written %s" % (src, b, v, listed[k][0]))
    return gaps


def run(ctx):
    quick = ctx.tier == "quick"
    proof = vlib.prove("C17", extra_targets=["theories/Extract/C17.vo"])
    if not quick:
        proof.update(vlib.coqchk("C17"))
        if proof["coqchk_rc"] != 0:
            raise vlib.CheckFailure("coqchk failed: " + proof["coqchk_tail"])
    exe = vlib.build_model("C17", "extract/C17.v", "ocaml/c17_driver.ml")
    harness, hsecs = vlib.build_harness("c17")
    args = [harness, "--seed", str(ctx.seed), "--out", ctx.work]
    if ctx.replay:
        rp = json.load(open(ctx.replay))
        cf = os.path.join(ctx.work, "replay_cases.txt")
        with open(cf, "w") as f:
            f.write(rp.get("case", "") + "\n")
        args += ["--replay-cases", cf]
    else:
        args += ["--corpus", os.path.join(vlib.VERIF, "corpus", "C17", "cases.txt")]
        if quick:
            args += ["--nuni", "1500", "--nmf", "1800", "--reps", "2"]
        else:
            args += ["--nuni", "20000", "--nmf", "24000", "--reps", "3"]
        if os.environ.get("C17_NUNI"):      # development aid (mutation runs)
            args[args.index("--nuni") + 1] = os.environ["C17_NUNI"]
    vlib.run(args, timeout=3000)
    cases = open(os.path.join(ctx.work, "cases.txt")).read().split("\n")[:-1]
    impl = open(os.path.join(ctx.work, "impl.txt")).read().split("\n")[:-1]
    # the extracted model decides every case; a deterministic sub-sample is also printed as
    # Coq terms and re-evaluated by vm_compute inside Coq (guards extraction + driver glue)
    xv = os.path.join(ctx.work, "xcheck.v")
    nuni_cases = sum(1 for c in cases if c.startswith("U "))
    every = max(1, nuni_cases // (15 if quick else 100))
    p = vlib.run([exe, "--coq", xv, str(every)], input="\n".join(cases) + "\n", timeout=3000, stderr=None)
    model = p.stdout.split("\n")[:-1]
    nx = open(xv).read().count("Example xc_")
    px = vlib.run(["timeout", "1500", "coqc", "-Q", os.path.join(vlib.COQ, "theories"), "Verif", xv], cwd=ctx.work, check=False)
    xcheck_ok = px.returncode == 0
    if not xcheck_ok:
        ctx.violation({"kind": "extraction-disagrees-with-vm_compute", "coqc_output": px.stdout[-3000:],
                       "what": "a case evaluated by the extracted OCaml model and by vm_compute inside Coq gave different results"},
                      no_input=True)
    if not (len(cases) == len(impl) == len(model)):
        raise vlib.CheckFailure("line count mismatch cases=%d impl=%d model=%d" % (len(cases), len(impl), len(model)))

    dist = collections.Counter()
    mf = collections.Counter()
    known = collections.Counter()
    distinct = set()
    nontrivial = 0
    mismatches = 0
    undecided = 0
    samples = []
    nviol = 0

    def violation(payload, **kw):
        nonlocal nviol
        nviol += 1
        if nviol <= 6:
            ctx.violation(payload, **kw)

    mc = collections.Counter()
    mc_samples = []
    desc_key = "k" + "description".encode().hex()
    for c, i, m in zip(cases, impl, model):
        if c.startswith("MC "):
            if i != m:
                mismatches += 1
                violation({"kind": "module-file-codec-differs-from-model", "case": c, "impl": i, "model": m,
                           "what": "modfile.Parse / ParseNonStrict / ParseLegacy / Format (P, N, L, F; FT = fields dropped) on this module.cue data tree differ from Tidy.ModFile.parse_strict / parse_nonstrict / parse_legacy / format",
                           "replay": "bin/check C17 --replay <this file>"})
                continue
            f = fields(i)
            mc["P:" + f["P"].split()[0] + " N:" + f["N"].split()[0] + " F:" + f["F"].split()[0]] += 1
            if f["F"] == "ERR":
                known["F-C17-6"] += 1
            if desc_key in f["FT"].split():
                known["F-C17-5"] += 1
            if len(mc_samples) < 2 and f["P"].startswith("OK") and "deps" in c and len(c) < 700:
                mc_samples.append({"case": c, "impl": i})
            continue
        if c.startswith("MF "):
            kind = " ".join(c.split()[1:3]) if c.split()[1] == "REJ" else "RT"
            mf[kind] += 1
            if i not in ("RT=ok", "REJ=yes"):
                violation({"kind": "module-file-codec", "case": c, "impl": i,
                           "what": "modfile.Parse(modfile.Format(f)) differs from f, or a malformed/unknown field was accepted (direct exploration, no model)",
                           "replay": "bin/check C17 --replay <this file>"})
            continue
        if i.startswith("BADCASE") or m.startswith("BADCASE"):
            violation({"kind": "harness-rejected-its-own-case", "case": c, "impl": i, "model": m}, no_input=True)
            continue
        fi, fm = fields(i), fields(m)
        ok = True
        for k in ("T", "TT", "CK", "CK0"):
            if k in ("TT", "CK") and fm["T"] == "MULTI":
                continue
            a = agree(fi[k], fm[k], k.startswith("CK"))
            if a is None:
                undecided += 1
            elif not a:
                ok = False
        t = fi["T"]
        dist["tidy:" + (t.split()[0] if t.startswith("OK") else t)] += 1
        dist["check-input:" + fi["CK0"]] += 1
        if c not in distinct:
            distinct.add(c)
            if t.startswith("OK") and len(t.split()) >= 3:
                nontrivial += 1
        if len(samples) < 3 and t.startswith("OK") and len(t.split()) >= 3 and len(c) < 900:
            samples.append({"case": c, "impl": i, "model": m})
        if fi["PERM"] != "same":
            violation({"kind": "order-dependence", "case": c, "impl": i, "model": m,
                       "what": "modload.Tidy gives a different result when files, imports, module.cue entries or registry listings are permuted",
                       "replay": "bin/check C17 --replay <this file>"})
            continue
        if not ok:
            mismatches += 1
            # does the property itself fail on this input, beyond the known findings?
            prop_fails = t.startswith("OK") and (fi["TT"] != t or fi["CK"] != "ACCEPT" or mvs_gaps(c, t))
            violation({"kind": "impl-differs-from-proved-model", "case": c, "impl": i, "model": m,
                       "property_fails_on_this_input": bool(prop_fails),
                       "what": "modload.Tidy / CheckTidy (T: tidy, TT: tidy of the result, CK: check of the result, CK0: check of the input) differ from Tidy.Model.tidy_model / check_model",
                       "replay": "bin/check C17 --replay <this file>"}, no_input=not prop_fails)
            continue
        if not t.startswith("OK"):
            continue
        # impl == Impl model.  Spec: idempotent, accepted by the check, closed under MVS.
        if fi["TT"] != t or fi["CK"] != "ACCEPT":
            dist["tidy-of-result:" + fi["TT"].split()[0]] += 1
            if fi["TT"] == "ERR:ambiguous":
                known["F-C17-1"] += 1
            elif fi["TT"] == "ERR:missing":
                known["F-C17-2"] += 1
            elif fi["TT"].startswith("OK") or fi["TT"] == "ERR:fetch":
                known["F-C17-4"] += 1
            else:
                violation({"kind": "not-idempotent-unclassified", "case": c, "impl": i, "model": m,
                           "what": "Tidy(Tidy(x)) != Tidy(x) or CheckTidy rejects Tidy(x), outside the two known mechanisms",
                           "replay": "bin/check C17 --replay <this file>"})
        else:
            dist["tidy-of-result:same"] += 1
        gaps = mvs_gaps(c, t)
        if gaps:
            known["F-C17-3"] += 1
            dist["mvs-gap"] += 1

    # findings are reported as KNOWN-FINDING only once the coordinator has merged them into
    # known_findings.json (bin/check turns unknown ids into violations); until then they are counted
    try:
        merged = {e.get("id") for e in json.load(open(os.path.join(vlib.VERIF, "known_findings.json")))
                  if e.get("property") == "C17" and e.get("status") == "known"}
    except Exception:
        merged = set(FINDINGS)
    pending = {}
    for k in sorted(known):
        if k in merged:
            ctx.known_finding("%s (%d generated instances this run): %s" % (k, known[k], FINDINGS[k]))
        else:
            pending[k] = known[k]
    if not samples and cases:
        samples.append({"case": cases[0][:600], "impl": impl[0], "model": model[0]})
    nuni = sum(1 for c in cases if c.startswith("U "))
    ctx.coverage.update({
        "obligations": proof["obligations"],
        "discharged": proof["discharged"],
        "checker_cmd": proof["checker_cmd"] + ("; coqchk -silent -o Verif.Properties.C17" if not quick else ""),
        "trusted_base": TRUSTED,
        "theorems": proof["theorems"],
        "axioms_reported": proof["axioms"],
        "audit_files": proof["audit_files"],
        "evaluations": len(cases),
        "universes": nuni,
        "distinct_nontrivial": nontrivial,
        "rule": "universe cases: corpus witnesses + generated universes of 2-6 module paths x 1-3 versions (nested module paths, several majors, default flags, unversioned imports in dependencies, missing packages, stale/inconsistent/unused module.cue entries, dangling requirements); each runs Tidy, Tidy of the result, CheckTidy of result and input, and `reps` re-runs with shuffled files/imports/entries/listings and PRNG latency; all compared with the extracted model. non-trivial: distinct case lines whose tidy succeeds with >= 2 requirements. module-file cases (direct exploration): generated File values round-tripped through Format/Parse/ParseNonStrict, and 16 kinds of malformed module.cue texts that must be rejected",
        "samples": samples,
        "input_distribution": dict(sorted(dist.items())),
        "model_undecided_MULTI": undecided,
        "vm_compute_crosscheck": {"cases": nx, "agree": xcheck_ok},
        "modfile_exploration": dict(sorted(mf.items())),
        "modfile_model_tie": {"cases": sum(mc.values()), "verdict_classes": dict(sorted(mc.items())), "samples": mc_samples},
        "findings_pending_merge": pending,
        "known_finding_instances": dict(known),
        "mismatches": mismatches,
        "harness_build_s": hsecs,
        "proof": {k: v for k, v in proof.items() if k.startswith("coqchk") or k in ("make_s",)},
    })
    ctx.assumptions.extend(TRUSTED)


MANIFEST = {
    "category": "proof",
    "text": "partial. Coq theorems about an implementation-faithful model of cue mod tidy (published view): CheckTidy accepts a requirement set iff it satisfies the declarative IsTidy (every import of every reachable package resolves uniquely, the entries are exactly the providers, nothing unused); an accepted set is a fixpoint of Tidy; Tidy's result is the provider set of an error-free load under its working requirements; the result does not depend on the order or multiplicity of files, imports, module.cue entries or registry listings; updateRoots leaves every root at its selected version; the resolve loop ends within #registry modules + 1 rounds. The model REFUTES idempotence, acceptance of Tidy's own output and MVS-closure (witness theorems, each replayed on the real code: known findings F-C17-1..4). The model is tied to /repo by exact agreement of Tidy, Tidy o Tidy and CheckTidy with the extracted model on generated universes; the module file codec (Parse/ParseNonStrict/ParseLegacy/Format, schema, Init, module path checks) is modelled in Gallina and tied by exact agreement on generated module.cue trees (verdict class, parsed File, DepVersions, default majors, Format output, dropped fields), but no theorem about it is proved yet.",
    "note": "Trusted: Coq kernel; the hand-written model; extraction and the OCaml/Go drivers. Not modelled: replace directives and local-module.cue, build attributes, _tool/_test files, cue.mod/pkg, package-name mismatches, one module path loaded at two versions (reported MULTI, not compared). The module file codec model has no theorems yet (tie only); labels differing from known fields only by case, duplicate labels, ParseLocal/FormatLocal/FixLegacy are outside the generator.",
    "technique": "Coq proof (closure invariants, fixpoint characterisation, canonical-form argument for order independence, counting measure for the fuel) + refutation witnesses + extracted-model differential check + extracted-model differential check of the module file codec + its direct exploration",
}
