"""C03 - unifying scalars, types and bounds is exact set intersection."""
import json
import os
from fractions import Fraction

import vlib

LEVEL = "proof"

TRUSTED = [
    "Coq 8.16.1 kernel; vm_compute only inside the two witness theorems (refuted / order-dependent bottom); no axioms (Print Assumptions: closed)",
    "hand-written Gallina model (coq/theories/Scalar/Model.v) of adt.SimplifyBounds/opInfo, insertValueConjunct (scalar, lowerBound, upperBound, checks), updateNodeType, validateValue + the checks loop of unify.go, BoundExpr.evaluate, BoundValue.Kind/validate, BinOp comparison arms, scheduleConjunct's value-now/evaluator-later order, predeclared.go ranges",
    "cockroachdb/apd (third party) is modelled: Context.Add/Sub with 34-digit round-half-up and the Inexact bit, Ceil/Floor via Modf, Decimal.Sign/Int64/Cmp; validated only by the correspondence",
    "regular expressions are an oracle (Section variable re_match); per case the verdict table is computed by Go's regexp",
    "extraction: ExtrOcamlBasic only, N/Z/positive kept as Coq datatypes, no Extract Constant; OCaml driver ocaml/c03_driver.ml (token parsing/printing)",
    "Go harness harness/c03 (generators, rendering of atoms as CUE literals - each literal is read back and compared with its token -, projection of cue.Value to bottom / incomplete / atom)",
]

FINDING = ("C03-F1 SimplifyBounds readjusts a fractional bound for an int-kinded node with apd Ceil/Floor at "
           "34-digit precision: when the integral part has >= 35 digits the adjusted bound is rounded and a "
           "satisfiable conjunction evaluates to bottom (witness: int & >=12345678901234567890123456789012345.5 "
           "& <=12345678901234567890123456789012348, satisfied by 12345678901234567890123456789012346); "
           "implementation == Impl model (Scalar/Model.v) != Spec (Scalar/Spec.v), Coq: impl_refuted, all_safe = false")


def parse_num(tok):
    """token of a number atom -> Fraction (None for other atoms)"""
    if tok[0] == "i":
        return Fraction(int(tok[1:]))
    if tok[0] == "f":
        body = tok[2:]
        c, e = body.split("e")
        v = Fraction(int(c)) * Fraction(10) ** int(e)
        return -v if tok[1] == "-" else v
    return None


def same_atom(t, u):
    """same kind and same value (1.0 and 1.00 are the same float; 1 and 1.0 are different atoms)"""
    if t == u:
        return True
    if t[0] != u[0] or t[0] not in "if":
        return False
    return parse_num(t) == parse_num(u)


def probes_around(toks):
    """atoms around the operands of a SimplifyBounds case, for the search of a failing input"""
    out = []
    for t in toks:
        if t not in out:
            out.append(t)
        v = parse_num(t)
        if v is None:
            if t[0] in "sy":
                for extra in (t[0] + "-", t + "00", t[0] + "61"):
                    if extra not in out:
                        out.append(extra)
            continue
        fl = v.numerator // v.denominator
        for z in (fl - 1, fl, fl + 1, fl + 2):
            for a in ("i%d" % z, "f%s%de-1" % ("-" if z < 0 else "+", abs(z) * 10), "f%s%de-1" % ("-" if 2 * z + 1 < 0 else "+", abs(2 * z + 1) * 5)):
                if a not in out:
                    out.append(a)
    return out[:40]


KIND_TYPE = {4: "Tint", 8: "Tfloat", 12: "Tnumber", 16: "Tstring", 32: "Tbytes"}


def run_pair(ctx, harness, exe, lines, tag):
    """run given case lines through the implementation and the model"""
    d = os.path.join(ctx.work, tag)
    os.makedirs(d, exist_ok=True)
    cf = os.path.join(d, "in.txt")
    with open(cf, "w") as f:
        f.write("\n".join(lines) + "\n")
    vlib.run([harness, "--seed", str(ctx.seed), "--out", d, "--replay-cases", cf], timeout=3000)
    cases = open(os.path.join(d, "cases.txt")).read().split("\n")[:-1]
    impl = open(os.path.join(d, "impl.txt")).read().split("\n")[:-1]
    p = vlib.run([exe], input="\n".join(cases) + "\n", timeout=3000, stderr=None)
    model = p.stdout.split("\n")[:-1]
    return cases, impl, model


def split_ev(case, impl, model):
    """-> (constraint tokens, probe tokens, impl expr verdict, [(impl text, impl unify)], model expr verdict,
    spec bits, [model verdict], all_safe)"""
    parts = case.split("|")
    cs = parts[0].split()[1:]
    probes = parts[1].split() if len(parts) > 1 else []
    iw = impl.split()
    mw = model.split()
    ipairs = [tuple(x.split(",")) for x in iw[1:]]
    bits = mw[1] if len(mw) > 1 and mw[1] != "-" else ""
    return cs, probes, iw[0], ipairs, mw[0], bits, mw[3:], (mw[2] == "1" if len(mw) > 2 else True)


def property_failures(cs, probes, ie, ipairs, bits):
    """inputs on which the implementation contradicts the SPEC (the property itself)"""
    fails = []
    for j, a in enumerate(probes):
        if j >= len(bits) or j >= len(ipairs):
            break
        want = bits[j] == "1"
        for how, got in zip(("expr & atom", "expr.Unify(atom)"), ipairs[j]):
            acc = got.startswith("=")
            if acc != want:
                fails.append({"expr": cs, "atom": a, "via": how, "impl": got,
                              "spec": "atom satisfies every conjunct" if want else "atom violates a conjunct"})
            elif acc and not same_atom(got[1:], a):
                fails.append({"expr": cs, "atom": a, "via": how, "impl": got,
                              "spec": "the result of a successful unification is that atom"})
        if want and ie == "B":
            fails.append({"expr": cs, "atom": a, "via": "expr", "impl": "bottom", "spec": "satisfiable (this atom satisfies every conjunct)"})
    return fails



# ---------------------------------------------------------------- vm_compute cross-check ----

def coq_str(tok_hex):
    bs = b"" if tok_hex == "-" else bytes.fromhex(tok_hex)
    return "[" + "; ".join("%d%%N" % b for b in bs) + "]"


def coq_atom(t):
    if t == "n":
        return "ANull"
    if t[0] == "b":
        return "(ABool %s)" % ("true" if t[1] == "1" else "false")
    if t[0] == "i":
        return "(AInt (%d)%%Z)" % int(t[1:])
    if t[0] == "f":
        c, e = t[2:].split("e")
        return "(AFloat (mkdec %s %s%%N (%s)%%Z))" % ("true" if t[1] == "-" else "false", c, e)
    return "(%s %s)" % ("AStr" if t[0] == "s" else "ABytes", coq_str(t[1:]))


COQ_OP = {"lt": "OLt", "le": "OLe", "gt": "OGt", "ge": "OGe", "ne": "ONe", "ma": "OMatch", "nm": "ONMatch"}
COQ_TYPE = {"null": "TNull", "bool": "TBool", "int": "TInt", "float": "TFloat", "number": "TNumber",
            "string": "TString", "bytes": "TBytes"}


def coq_constr(t):
    if t[0] == "A":
        return "(CElem (KAtom %s))" % coq_atom(t[1:])
    if t[0] == "T":
        return "(CElem (KType %s))" % COQ_TYPE[t[1:]]
    if t[0] == "B":
        op, a = t[1:].split(",", 1)
        return "(CElem (KBound %s %s))" % (COQ_OP[op], coq_atom(a))
    return "(CRange R%s%s)" % (t[1].upper(), t[2:])


def coq_table(part):
    ents = []
    for w in part.split():
        p, q, v = w.split(":")
        ents.append("(%s, %s, %s)" % (coq_str(p), coq_str(q), "true" if v == "1" else "false"))
    return "[" + "; ".join(ents) + "]"


def atoms_in_order(cs, probes):
    out = []
    for t in cs:
        if t[0] == "A":
            out.append(t[1:])
        elif t[0] == "B":
            out.append(t[1:].split(",", 1)[1])
    return out + list(probes)


def vm_cross_check(ctx, sample):
    """Evaluate the sampled cases with vm_compute inside Coq and compare with the extracted model's output."""
    import re as _re
    lines = ["From Verif Require Import Scalar.Spec Scalar.Model Extract.C03.",
             "From Coq Require Import List ZArith NArith Bool.", "Import ListNotations.", "Open Scope Z_scope."]
    expected = []
    for c, m in sample:
        parts = c.split("|")
        w = parts[0].split()
        if w[0] == "SB":
            tbl = coq_table(parts[1]) if len(parts) > 1 else "[]"
            lines.append("Eval vm_compute in [c03_sb_code %s %s%%N (mkbound %s %s) (mkbound %s %s)]." % (
                tbl, w[1], COQ_OP[w[2]], coq_atom(w[3]), COQ_OP[w[4]], coq_atom(w[5])))
            expected.append([{"X": 0, "Y": 1, "N": 2, "B": 3}[m]])
        else:
            cs = w[1:]
            probes = parts[1].split() if len(parts) > 1 else []
            tbl = coq_table(parts[2]) if len(parts) > 2 else "[]"
            order = atoms_in_order(cs, probes)
            mw = m.split()

            def code(v):
                if v == "B":
                    return -2
                if v == "I":
                    return -3
                t = v[1:]
                return order.index(t) if t in order else -1
            bits = mw[1] if mw[1] != "-" else ""
            expected.append([code(mw[0]), int(mw[2])] + [code(v) for v in mw[3:]] + [int(b) for b in bits])
            lines.append("Eval vm_compute in (c03_ev_codes %s [%s] [%s] [%s])." % (
                tbl, "; ".join(coq_atom(a) for a in order), "; ".join(coq_constr(t) for t in cs),
                "; ".join(coq_atom(a) for a in probes)))
    vf = os.path.join(ctx.work, "vmcheck.v")
    with open(vf, "w") as f:
        f.write("\n".join(lines) + "\n")
    # no global coq lock: only reads the .vo files that vlib.prove() of this run has just (re)built
    p = vlib.run(["timeout", "900", "coqc", "-Q", os.path.join(vlib.COQ, "theories"), "Verif", "-o",
                  os.path.join(ctx.work, "vmcheck.vo"), vf], cwd=ctx.work, check=False)
    if p.returncode != 0:
        raise vlib.CheckFailure("vm_compute cross-check file does not compile:\n" + p.stdout[-3000:])
    got = []
    for mm in _re.finditer(r"=\s*\[(.*?)\]\s*:\s*list Z", p.stdout, _re.S):
        body = mm.group(1).strip()
        got.append([int(x) for x in body.replace("\n", " ").split(";")] if body else [])
    if len(got) != len(expected):
        raise vlib.CheckFailure("vm_compute cross-check: %d results for %d cases" % (len(got), len(expected)))
    bad = [(sample[i][0], expected[i], got[i]) for i in range(len(got)) if got[i] != expected[i]]
    if bad:
        raise vlib.CheckFailure("extracted OCaml model and vm_compute disagree (extraction/driver broken): %r" % (bad[:2],))
    return len(got)


def is_malformed(cs):
    """kind-conflicting or invalid-operand conjunction (the malformed stream)"""
    fams = set()
    for t in cs:
        if t in ("Blt,n", "Bge,b1"):
            return True
        if t[0] == "R":
            fams.add("N")
        elif t[0] == "T":
            fams.add({"int": "N", "float": "N", "number": "N"}.get(t[1:], t[1:]))
        else:
            a = t[1:] if t[0] == "A" else t[1:].split(",", 1)[1]
            if t[0] == "B" and t[1:3] == "ne" and a == "n":
                continue
            fams.add({"i": "N", "f": "N", "s": "string", "y": "bytes", "b": "bool", "n": "null"}[a[0]])
    return len(fams) > 1

def run(ctx):
    import time
    quick = ctx.tier == "quick"
    phase = {}
    t0 = time.time()

    def lap(name):
        nonlocal t0
        phase[name] = round(time.time() - t0, 1)
        t0 = time.time()
    proof = vlib.prove("C03", extra_targets=["theories/Extract/C03.vo"])
    lap("proof")
    if not quick:
        proof.update(vlib.coqchk("C03"))
        if proof["coqchk_rc"] != 0:
            raise vlib.CheckFailure("coqchk failed: " + proof["coqchk_tail"])
    exe = vlib.build_model("C03", "extract/C03.v", "ocaml/c03_driver.ml")
    lap("extract_and_ocaml_build")
    harness, hsecs = vlib.build_harness("c03")
    lap("go_build")
    args = [harness, "--seed", str(ctx.seed), "--out", ctx.work]
    corpus = os.path.join(vlib.VERIF, "corpus", "C03", "cases.txt")
    if ctx.replay:
        rp = json.load(open(ctx.replay))
        cf = os.path.join(ctx.work, "replay_cases.txt")
        with open(cf, "w") as f:
            f.write(rp.get("case", "") + "\n")
        args += ["--replay-cases", cf]
    elif quick:
        args += ["--corpus", corpus, "--sb-dense", "1", "--sb-random", "1500", "--singles", "1", "--pairs", "1",
                 "--rand", "2500", "--maxlen", "3", "--big", "1500", "--strs", "800"]
    else:
        args += ["--corpus", corpus, "--sb-dense", "1", "--sb-random", "40000", "--singles", "1", "--pairs", "2",
                 "--triples-mini", "1", "--rand", "40000", "--maxlen", "4", "--big", "25000", "--strs", "10000"]
    vlib.run(args, timeout=3000)
    lap("implementation_run")
    cases = open(os.path.join(ctx.work, "cases.txt")).read().split("\n")[:-1]
    impl = open(os.path.join(ctx.work, "impl.txt")).read().split("\n")[:-1]
    stats = ""
    sp = os.path.join(ctx.work, "stats.txt")
    if os.path.exists(sp):
        stats = open(sp).read().strip()
    p = vlib.run([exe], input="\n".join(cases) + "\n", timeout=3000, stderr=None)
    model = p.stdout.split("\n")[:-1]
    lap("model_run")
    if not (len(cases) == len(impl) == len(model)):
        raise vlib.CheckFailure("line count mismatch cases=%d impl=%d model=%d" % (len(cases), len(impl), len(model)))

    # guard the extraction / driver glue: a deterministic sub-sample is recomputed by vm_compute
    step = max(1, len(cases) // 160)
    sample = [(c, m) for n, (c, m) in enumerate(zip(cases, model)) if n % step == 0 and len(c) < 1500][:200]
    vm_checked = vm_cross_check(ctx, sample) if not ctx.replay else 0
    lap("vm_compute_cross_check")

    malformed = 0
    fixed_instances = 0
    evaluations = 0
    nontrivial = 0
    distinct = set()
    verdicts = {"B": 0, "I": 0, "=": 0}
    sb_classes = {"X": 0, "Y": 0, "N": 0, "B": 0}
    mismatches = 0
    known = 0
    sb_mismatch = []
    samples = []
    reported = 0

    def report(payload, no_input):
        nonlocal reported
        reported += 1
        if reported <= 6:
            ctx.violation(payload, no_input=no_input)

    for c, i, m in zip(cases, impl, model):
        if m.startswith("ERROR") or m == "BADCASE":
            raise vlib.CheckFailure("model driver rejected case %r: %s" % (c[:300], m))
        if c.startswith("SB"):
            evaluations += 1
            sb_classes[i] = sb_classes.get(i, 0) + 1
            if c not in distinct:
                distinct.add(c)
                if i != "N":
                    nontrivial += 1
            if i != m:
                mismatches += 1
                sb_mismatch.append((c, i, m))
            continue
        cs, probes, ie, ipairs, me, bits, mper, safe = split_ev(c, i, m)
        evaluations += 1 + 2 * len(probes)
        if is_malformed(cs):
            malformed += 1
        verdicts[ie[0]] = verdicts.get(ie[0], 0) + 1
        for pr in ipairs:
            for v in pr:
                verdicts[v[0]] = verdicts.get(v[0], 0) + 1
        if c not in distinct:
            distinct.add(c)
            # non-trivial: at least two conjuncts and both outcomes occur among the probes
            outs = set(pr[0][0] for pr in ipairs)
            if len(cs) >= 2 and len(outs) >= 2:
                nontrivial += 1
        if len(samples) < 4 and len(c) < 300 and len(cs) >= 2 and evaluations % 7 == 3:
            samples.append({"case": c, "impl": i, "model": m})
        agree = (ie == me) and len(ipairs) == len(mper) and all(pa == mv and ua == mv for (pa, ua), mv in zip(ipairs, mper))
        fails = property_failures(cs, probes, ie, ipairs, bits)
        if agree:
            if fails:
                # implementation == Impl model != Spec: the recognised class.  By C03_accumulate_exact_when /
                # C03_bottom_only_if_unsat_when this is impossible when all_safe holds.
                if safe:
                    raise vlib.CheckFailure("model == implementation != spec on an all_safe case, contradicting the "
                                            "proved theorems (extraction or driver broken): " + c[:400])
                known += 1
                ctx.known_finding(FINDING)
            continue
        if not safe and not fails:
            # outside all_safe the Impl model is known to deviate from the Spec (C03-F1).  An implementation
            # that agrees with the Spec there (e.g. after a fix of C03-F1) does not violate the property.
            fixed_instances += 1
            continue
        mismatches += 1
        if fails:
            report({"kind": "impl-violates-property", "case": c, "impl": i, "model": m, "failing_inputs": fails[:5],
                    "what": "the implementation disagrees with the proved model AND with the set semantics of the property on the listed (expression, atom)",
                    "replay": "bin/check C03 --replay <this file>"}, False)
        else:
            report({"kind": "impl-differs-from-proved-model", "case": c, "impl": i, "model": m,
                    "what": "Scalar.Model.run (insertValueConjunct + SimplifyBounds + validateValue) no longer predicts the evaluator; no input violating the set semantics was found among the probes",
                    "replay": "bin/check C03 --replay <this file>"}, True)

    # SimplifyBounds disagreements: look for an end-to-end input on which the property fails
    if sb_mismatch:
        lines = []
        for c, i, m in sb_mismatch[:40]:
            w = c.split("|")[0].split()
            k = int(w[1])
            ops = "B%s,%s B%s,%s" % (w[2], w[3], w[4], w[5])
            pr = " ".join(probes_around([w[3], w[5]]))
            for kt in ([KIND_TYPE[k]] if k in KIND_TYPE else []) + [""]:
                for order in (ops, "B%s,%s B%s,%s" % (w[4], w[5], w[2], w[3])):
                    for cs_ in ((kt + " " + order).strip(), (order + " " + kt).strip()):
                        line = "EV " + cs_ + " | " + pr
                        if line not in lines:
                            lines.append(line)
        found = []
        try:
            c2, i2, m2 = run_pair(ctx, harness, exe, lines, "sbsearch")
            for c, i, m in zip(c2, i2, m2):
                if m.startswith("ERROR"):
                    continue
                cs, probes, ie, ipairs, me, bits, mper, safe = split_ev(c, i, m)
                agree = (ie == me) and all(pa == mv and ua == mv for (pa, ua), mv in zip(ipairs, mper))
                f = property_failures(cs, probes, ie, ipairs, bits)
                if f and not agree:
                    found.append({"case": c, "impl": i, "model": m, "failing_inputs": f[:5]})
        except vlib.CheckFailure as e:  # the search is best effort
            vlib.log("sb search failed: %s" % e)
        for n, (c, i, m) in enumerate(sb_mismatch[:3]):
            payload = {"kind": "SimplifyBounds-differs-from-proved-model", "case": c, "impl": i, "model": m,
                       "what": "adt.SimplifyBounds returned %s where the model proved sound (simplify_sound) returns %s" % (i, m),
                       "replay": "bin/check C03 --replay <this file>"}
            if found:
                payload["failing_inputs"] = found[:3]
                payload["what"] += "; end to end the property fails on the listed expression/atom"
            report(payload, not found)

    lap("diff")
    if not samples and cases:
        samples.append({"case": cases[0][:300], "impl": impl[0][:300], "model": model[0][:300]})
    ctx.coverage.update({
        "obligations": proof["obligations"],
        "discharged": proof["discharged"],
        "checker_cmd": proof["checker_cmd"] + ("; coqchk -silent -o Verif.Properties.C03" if not quick else ""),
        "trusted_base": TRUSTED,
        "theorems": proof["theorems"],
        "axioms_reported": proof["axioms"],
        "audit_files": proof["audit_files"],
        "evaluations": evaluations,
        "case_lines": len(cases),
        "distinct_nontrivial": nontrivial,
        "explanation": "malformed stream = conjunctions mixing kind families or with an invalid operand (<null, >=true); "
                       "spec_deviations_predicted_by_impl_model = cases where implementation == Impl model != Spec (finding C03-F1, all with all_safe = false)",
        "rule": "evaluations = SimplifyBounds calls + evaluated CUE values (expr, expr & atom, expr.Unify(atom)). "
                "non-trivial, over distinct case lines: SB = SimplifyBounds returned an operand or bottom (not nil); "
                "EV = conjunction of >= 2 constraints for which the probe atoms include both an accepted and a rejected atom",
        "input_distribution": stats,
        "observed_verdicts": {"bottom": verdicts.get("B", 0), "incomplete": verdicts.get("I", 0), "atom": verdicts.get("=", 0)},
        "simplify_bounds_results": sb_classes,
        "samples": samples,
        "mismatches": mismatches,
        "spec_deviations_predicted_by_impl_model": known,
        "malformed_stream_cases": malformed,
        "unsafe_cases_where_impl_equals_spec_not_model": fixed_instances,
        "vm_compute_cross_checked_cases": vm_checked,
        "harness_build_s": hsecs,
        "phase_seconds": phase,
        "proof": {k: v for k, v in proof.items() if k.startswith("coqchk") or k in ("make_s",)},
    })
    ctx.assumptions.extend(TRUSTED)


MANIFEST = {
    "category": "proof",
    "text": "Coq theorems for ALL decimals, strings, bytes, kind masks and conjunct lists (no alphabet bound): numeric comparison is by exact rational value; int and float stay distinct; adt.SimplifyBounds (every cell of its table, the int readjustment, the fast path, the Inexact escape) returns an operand only when it is equivalent to the pair and bottom only when no atom satisfies both; by induction over insertValueConjunct steps the node's state admits exactly the atoms satisfying every inserted conjunct, hence: an atom the evaluator reports satisfies every conjunct and is the only candidate, an atom violating a conjunct never unifies (both unconditional), and - under the side condition all_safe (no fractional bound with an integral part of >= 35 digits) - an atom unifies iff it satisfies every conjunct with that atom as result, bottom only if unsatisfiable, verdict independent of conjunct order. The side condition is necessary: C03_impl_refuted is a vm_compute witness (finding C03-F1, reproduced on the pinned tree and reported as KNOWN-FINDING). The model is tied to /repo by exact agreement of adt.SimplifyBounds results and of bottom / incomplete / atom verdicts of cue.Context.CompileString (expr, expr & atom, expr.Unify(atom)) with the extracted model on exhaustive dense enumerations and random near-equal high-precision decimals and strings.",
    "note": "Trusted: Coq kernel; hand-written model of simplify.go, the scalar part of insertValueConjunct, updateNodeType, validateValue, BoundValue.Kind/validate, BinOp comparisons, scheduleConjunct's value/evaluator order, predeclared ranges; cockroachdb/apd Add/Sub/Ceil/Floor/Modf/Int64/Sign at precision 34 is modelled and validated only by the correspondence; regexps are an oracle (per-case verdict table from Go regexp); extraction (ExtrOcamlBasic, cross-checked against vm_compute on a sub-sample every run), OCaml driver, Go harness. Exhaustive enumeration is <= 2 constraints (quick) / <= 3 over a mini alphabet (thorough), longer conjunctions are sampled. getValidators (printed form of non-concrete values), disjunctions, data priorities, apd overflow/subnormal are not modelled.",
    "technique": "Coq proof (soundness of the bound-simplification table over all decimals/strings, accumulator invariant by induction over the conjunct list) + extracted-model differential check against adt.SimplifyBounds and cue.Context.CompileString",
}
