"""C06 - arithmetic, comparison and numeric builtins are exact."""
import json
import os
import subprocess
import vlib

LEVEL = "proof"

TRUSTED = [
    "Coq 8.16.1 kernel (vm_compute inside the witness/refutation theorems and examples); no axioms (Print Assumptions: closed)",
    "hand-written Gallina model of apd v3 (Finite form: NumDigits, upscale, add, Mul, Quo, Round half-up, roundAddOne, Reduce, Cmp, quantize/RoundToIntegral*, setString, setExponent range check) - third-party code, validated only by this correspondence",
    "hand-written model of internal/core/adt/decimal.go (numOp, intDivOp), binop.go (cmpTonode, number/string/bytes comparison dispatch), internal/internal.go (BaseContext precision 34, reduceKeepingFloats), cue/literal/num.go (ParseNum, decimal, multipliers), math/big Div/Mod/Quo/Rem",
    "extraction (ExtrOcamlBasic only; N/Z/positive kept as Coq datatypes; no Extract Constant), OCaml driver ocaml/c06_driver.ml (hex <-> positive, case parsing)",
    "Go harness harness/c06 (generators; rendering of operands as CUE literals; projection of cue.Value to kind/sign/coefficient/exponent through adt.Num cross-checked with Value.MantExp)",
    "apd exponent limits (|adjusted exponent| > 100000) are modelled for literals only (out of range = error since the fix of F9); arithmetic operands stay inside |exp| <= 2000 (quick: 300), <= 600 digits (quick: 300)",
]

F1 = ("F1 int/decimal + - * rounded to 34 significant digits (internal.BaseContext precision in adt/decimal.go numOp): "
      "impl == Impl model != exact Spec on %d generated expressions (%d of them `int op int`), e.g. `%s` -> %s (exact: %s); witness theorem C06_int_add_exact_refuted (10^36 + 1)")
F5 = ("F5 multiplier literal product rounded to 34 digits before RoundToIntegralExact (cue/literal/num.go decimal): "
      "impl == Impl model != specified value on %d generated literals, e.g. `%s` -> %s; witness theorem C06_mult_literal_exact_refuted")
F8 = ("F8 fractional multiplier literal rejected where doc/ref/spec.md says the result is truncated (e.g. 1.3Ki = 1331): "
      "impl == Impl model == error on %d generated literals, e.g. `%s`; witness theorem C06_mult_literal_truncation_refuted")


def run_model(exe, cases, jobs):
    """Run the extracted model over the cases, in `jobs` parallel chunks."""
    if not cases:
        return []
    jobs = max(1, min(jobs, len(cases) // 200 + 1))
    chunks = [cases[i::jobs] for i in range(jobs)]
    procs = []
    for ch in chunks:
        p = subprocess.Popen([exe], stdin=subprocess.PIPE, stdout=subprocess.PIPE, text=True)
        procs.append(p)
    # feed and collect (communicate sequentially is fine: each process buffers its whole output)
    import threading
    outs = [None] * jobs

    def work(k):
        o, _ = procs[k].communicate("\n".join(chunks[k]) + "\n", timeout=3000)
        outs[k] = o.split("\n")[:-1]
    ths = [threading.Thread(target=work, args=(k,)) for k in range(jobs)]
    for t in ths:
        t.start()
    for t in ths:
        t.join()
    res = [None] * len(cases)
    for k in range(jobs):
        if procs[k].returncode != 0 or outs[k] is None or len(outs[k]) != len(chunks[k]):
            raise vlib.CheckFailure("model driver failed on chunk %d (rc=%s)" % (k, procs[k].returncode))
        res[k::jobs] = outs[k]
    return res


def coq_expr(toks):
    """Prefix token stream -> Gallina term of type Eval.expr."""
    t = toks[0]
    r = toks[1:]
    arith = {"+": "OpAdd", "-": "OpSub", "*": "OpMul", "/": "OpQuo"}
    cmp = {"==": "CEq", "!=": "CNe", "<": "CLt", "<=": "CLe", ">": "CGt", ">=": "CGe"}
    call = {"div": "FDiv", "mod": "FMod", "quo": "FQuo", "rem": "FRem"}
    if t in arith or t in cmp or t in call:
        a, r = coq_expr(r)
        b, r = coq_expr(r)
        if t in arith:
            return "(EArith %s %s %s)" % (arith[t], a, b), r
        if t in cmp:
            return "(ECmp %s %s %s)" % (cmp[t], a, b), r
        return "(ECall %s %s %s)" % (call[t], a, b), r
    if t.startswith("bnd"):
        a, r = coq_expr(r)
        b, r = coq_expr(r)
        return "(EBound %s %s %s)" % (cmp[t[3:]], a, b), r
    if t == "neg":
        a, r = coq_expr(r)
        return "(ENeg %s)" % a, r
    if t[0] == "i":
        return "(ELit (mkNum KInt (mkDec false %d%%N 0%%Z)))" % int(t[1:], 16), r
    h, e = t[1:].split("^")
    return "(ELit (mkNum KFloat (mkDec false %d%%N (%s)%%Z)))" % (int(h, 16), e), r


def vm_crosscheck(ctx, cases, model, limit):
    """Evaluate a deterministic sub-sample with vm_compute inside coqc and compare with the
    extracted model (guards extraction and the driver glue)."""
    picked = []
    nl = ne = 0
    for c, m in zip(cases, model):
        f = c.split()
        if f[0] in ("L", "LV") and nl < limit and len(c) < 300:
            picked.append((c, m))
            nl += 1
        elif f[0] == "E" and ne < limit and len(c) < 400 and (hash(c) % 7 == 0 or ne < 5):
            picked.append((c, m))
            ne += 1
        if nl >= limit and ne >= limit:
            break
    if not picked:
        return 0
    lines = ["From Verif Require Import Num.Decimal Num.IntDiv Num.Eval Num.NumLit Num.NumLitSpec.",
             "From Coq Require Import List NArith ZArith.", "Import ListNotations.", "Open Scope N_scope.",
             "Definition shown (x : num) := (2, (match nk x with KInt => 0 | KFloat => 1 end), neg (nd x), coeff (nd x), (exp (nd x) <? 0)%Z, Z.abs_N (exp (nd x))).",
             "Definition show (r : lit_result) := match r with LErr => (0,0,false,0,false,0) | LNaN k => (1, (match k with KInt => 0 | KFloat => 1 end), false, 0, false, 0) | LNum x => shown x end.",
             "Definition showe (r : result value) := match r with Err => (0,0,false,0,false,0) | Ok (VBool b) => (3, (if b then 1 else 0), false, 0, false, 0) | Ok (VNum x) => shown x end."]
    for c, _ in picked:
        f = c.split()
        if f[0] == "E":
            term, rest = coq_expr(f[1:])
            lines.append("Eval vm_compute in showe (eval true %s)." % term)
        else:
            h = f[1]
            bs = [] if h == "-" else [str(int(h[i:i + 2], 16)) for i in range(0, len(h), 2)]
            lines.append("Eval vm_compute in show (lit_parse [%s])." % "; ".join(bs))
    vf = os.path.join(ctx.work, "crosscheck.v")
    with open(vf, "w") as f:
        f.write("\n".join(lines) + "\n")
    p = vlib.run(["timeout", "600", "coqc", "-Q", os.path.join(vlib.COQ, "theories"), "Verif", vf], cwd=ctx.work, check=False)
    if p.returncode != 0:
        raise vlib.CheckFailure("vm_compute cross-check failed to compile:\n" + p.stdout[-2000:])
    import re
    got = re.findall(r"=\s*\(([^)]*)\)\s*:", p.stdout.replace("\n", " "))
    if len(got) != len(picked):
        raise vlib.CheckFailure("vm_compute cross-check: %d results for %d cases" % (len(got), len(picked)))
    for (c, m), g in zip(picked, got):
        t = [x.strip() for x in g.split(",")]
        mm = m.split(" # ")[0].split()
        isE = c.startswith("E ")
        if t[0] == "0":
            exp = ["err"]
        elif t[0] == "1":
            exp = ["nan", "if"[int(t[1])]]
        elif t[0] == "3":
            exp = ["b", t[1]]
        else:
            exp = ["n" if isE else "num", "if"[int(t[1])], "-" if t[2] == "true" else "+", "%x" % int(t[3]),
                   str(-int(t[5]) if t[4] == "true" else int(t[5]))]
        if exp != mm:
            raise vlib.CheckFailure("extracted model and vm_compute disagree on %s: %s vs %s" % (c, m, exp))
    return len(picked)


def run(ctx):
    import time
    quick = ctx.tier == "quick"
    phase = {}
    t0 = time.time()
    proof = vlib.prove("C06", extra_targets=["theories/Extract/C06.vo"])
    phase["prove"] = round(time.time() - t0, 1)
    if not quick:
        proof.update(vlib.coqchk("C06"))
        if proof["coqchk_rc"] != 0:
            raise vlib.CheckFailure("coqchk failed: " + proof["coqchk_tail"])
    exe = vlib.build_model("C06", "extract/C06.v", "ocaml/c06_driver.ml")
    harness, hsecs = vlib.build_harness("c06")
    args = [harness, "--seed", str(ctx.seed), "--out", ctx.work]
    corpus = os.path.join(vlib.VERIF, "corpus", "C06", "cases.txt")
    if ctx.replay:
        rp = json.load(open(ctx.replay))
        cf = os.path.join(ctx.work, "replay_cases.txt")
        with open(cf, "w") as f:
            f.write(rp.get("case", "") + "\n")
        args += ["--replay-cases", cf]
    elif quick:
        # exponents beyond +-300 make the extracted model slow (10^2000 in unary-recursive N arithmetic);
        # the thorough tier goes to +-2000
        args += ["--tier", "quick", "--n", "9000", "--nlit", "5000", "--nstr", "600", "--maxdigits", "300",
                 "--maxexp", "300", "--bounds", "1", "--corpus", corpus]
    else:
        args += ["--tier", "thorough", "--n", "200000", "--nlit", "80000", "--nstr", "10000", "--maxdigits", "600",
                 "--maxexp", "2000", "--bounds", "1", "--corpus", corpus]
    t0 = time.time()
    vlib.run(args, timeout=3000)
    phase["harness_run"] = round(time.time() - t0, 1)
    cases = open(os.path.join(ctx.work, "cases.txt")).read().split("\n")[:-1]
    impl = open(os.path.join(ctx.work, "impl.txt")).read().split("\n")[:-1]
    t0 = time.time()
    model = run_model(exe, cases, 14)
    phase["model_run"] = round(time.time() - t0, 1)
    if not (len(cases) == len(impl) == len(model)):
        raise vlib.CheckFailure("line count mismatch cases=%d impl=%d model=%d" % (len(cases), len(impl), len(model)))
    t0 = time.time()
    nvm = vm_crosscheck(ctx, cases, model, 40 if quick else 300)
    phase["vm_crosscheck"] = round(time.time() - t0, 1)

    kinds = {}
    outcome = {}
    ops = {}
    digit_hist = {"<=16": 0, "17-34": 0, "35-40": 0, "41-100": 0, ">100": 0}
    distinct = set()
    nontrivial = 0
    mismatches = 0
    f1 = []
    f5 = []
    f8 = []
    samples = []
    for c, i, m in zip(cases, impl, model):
        f = c.split()
        k = f[0]
        kinds[k] = kinds.get(k, 0) + 1
        mres, _, mcls = m.partition(" # ")
        oc = (i.split() or ["?"])[0]
        outcome[k + ":" + oc] = outcome.get(k + ":" + oc, 0) + 1
        if k == "E":
            ops[f[1]] = ops.get(f[1], 0) + 1
        if c not in distinct:
            distinct.add(c)
            if k == "E":
                big = 0
                for t in f[2:]:
                    if t[0] in "if":
                        h = t[1:].split("^")[0]
                        nd = len(str(int(h, 16)))
                        big = max(big, nd)
                b = "<=16" if big <= 16 else "17-34" if big <= 34 else "35-40" if big <= 40 else "41-100" if big <= 100 else ">100"
                digit_hist[b] += 1
                if oc != "err" and big >= 2:
                    nontrivial += 1
            elif k in ("L", "LV"):
                if oc == "num" and len(f[1]) >= 6:
                    nontrivial += 1
            elif k == "S":
                if f[3] != f[4]:
                    nontrivial += 1
        if len(samples) < 4 and len(c) < 200 and kinds[k] % 389 == 7:
            samples.append({"case": c, "impl": i, "model": m})
        if i != mres:
            mismatches += 1
            if mismatches <= 5:
                what = {
                    "E": "value of the CUE expression (kind, sign, coefficient, exponent, or error) differs from the Coq model of apd precision-34 arithmetic / numOp / intDivOp / Cmp (theorems C06_add_correctly_rounded, C06_quo_correctly_rounded, C06_div_mod_euclid, C06_cmp_spec ...)",
                    "L": "literal.ParseNum + NumInfo.Decimal differ from the byte-level Coq model NumLit.lit_parse (theorems C06_literal_float_value, C06_literal_float_out_of_range_rejected, C06_literal_si_value ...); a literal whose exponent apd cannot represent must be an error, never a number or NaN (C06-F9, fixed)",
                    "LV": "a grammar-valid literal: literal.ParseNum / compiled value differ from the Coq model NumLit.lit_parse (or from each other: E2E-DIFF)",
                    "S": "string/bytes comparison differs from bytewise lexicographic order (C06_bytes_cmp_total_order)",
                }.get(k, "?")
                spec_says = mcls
                ctx.violation({"kind": "impl-differs-from-proved-model", "case": c, "impl": i, "model": mres,
                               "spec_layer": spec_says, "what": what,
                               "cue_source": render(c),
                               "replay": "bin/check C06 --replay <this file>"})
            continue
        # impl == Impl model.  Does the Impl model deviate from the specification layer?
        if k == "E" and mcls.startswith("DIFF"):
            f1.append((c, mres, mcls[5:]))
        elif k in ("L", "LV"):
            if mcls == "ROUNDED":
                f5.append((c, mres))
            elif mcls == "REJECTED":
                f8.append((c, mres))
    def int_only(c):
        f = c.split()
        return len(f) == 4 and f[1] in "+-*" and all(t[0] == "i" or t == "neg" for t in f[2:])
    f1_int = [x for x in f1 if int_only(x[0])]
    if f1:
        c, r, s = min(f1_int or f1, key=lambda x: len(x[0]))
        ctx.known_finding(F1 % (len(f1), len(f1_int), render(c), r, s))
    if f5:
        c, r = min(f5, key=lambda x: len(x[0]))
        ctx.known_finding(F5 % (len(f5), render(c), r))
    if f8:
        c, r = min(f8, key=lambda x: len(x[0]))
        ctx.known_finding(F8 % (len(f8), render(c)))
    if not samples and cases:
        samples.append({"case": cases[0][:300], "impl": impl[0], "model": model[0]})
    ctx.coverage.update({
        "obligations": proof["obligations"],
        "discharged": proof["discharged"],
        "checker_cmd": proof["checker_cmd"] + ("; coqchk -silent -o Verif.Properties.C06" if not quick else ""),
        "trusted_base": TRUSTED,
        "theorems": proof["theorems"],
        "axioms_reported": proof["axioms"],
        "audit_files": proof["audit_files"],
        "evaluations": len(cases),
        "distinct_nontrivial": nontrivial,
        "rule": "cases: E = CUE expressions over number literals (+ - * / unary -, the six comparisons, div mod quo rem; exhaustive small ints/floats, boundaries 2^63 2^64 10^33..10^36 +-1, MIXED int/float comparisons (all six operators, both orders, both signs, and as bound validation `a & <b`) around 2^52 2^53 2^63 2^64 10^k (thorough: k=15..41 and more powers of two) with +-1 / +-0.5 and several float representations, sub-float64 tiny floats against 0 and 1, random operands up to 300 (thorough 600) digits and exponents up to +-300 (thorough +-2000), constructed rounding ties at digit 35, nested expressions of depth 2-3); L = byte strings given to literal.ParseNum (every string over a small alphabet up to length 3-5, mutated valid literals, signed literals, random bytes); LV = grammar-directed valid literals (all bases, '_', K..P / Ki..Pi, fractions, exponents incl. the apd limit) also compiled through cue.Context; S = string / bytes comparisons. non-trivial: E not an error and some operand >= 2 digits; L/LV accepted literal of >= 3 bytes; S different operands; counted over distinct case lines",
        "samples": samples,
        "case_kinds": kinds,
        "outcomes_by_kind": outcome,
        "operator_mix": ops,
        "max_operand_digits_hist": digit_hist,
        "known_deviation_instances": {"F1_arith_rounded": len(f1), "F1_int_op_int": len(f1_int), "F5_mult_literal_rounded": len(f5),
                                      "F8_fractional_mult_rejected": len(f8)},
        "vm_compute_crosschecked": nvm,
        "mismatches": mismatches,
        "harness_build_s": hsecs,
        "phase_s": phase,
        "proof": {k: v for k, v in proof.items() if k.startswith("coqchk") or k in ("make_s",)},
    })
    ctx.assumptions.extend(TRUSTED)


def render(case):
    """CUE source of a case line (for humans reading a replay file)."""
    f = case.split()
    try:
        if f[0] in ("L", "LV"):
            return bytes.fromhex("" if f[1] == "-" else f[1]).decode("latin-1")
        if f[0] == "S":
            return "%r %s %r" % (bytes.fromhex("" if f[3] == "-" else f[3]), f[1], bytes.fromhex("" if f[4] == "-" else f[4]))
        toks = f[1:]

        def go(ts):
            t = ts[0]
            r = ts[1:]
            if t in ("+", "-", "*", "/", "==", "!=", "<", "<=", ">", ">="):
                a, r = go(r)
                b, r = go(r)
                return "(%s %s %s)" % (a, t, b), r
            if t in ("div", "mod", "quo", "rem"):
                a, r = go(r)
                b, r = go(r)
                return "%s(%s, %s)" % (t, a, b), r
            if t.startswith("bnd"):
                a, r = go(r)
                b, r = go(r)
                return "(%s & %s(%s))" % (a, t[3:], b), r
            if t == "neg":
                a, r = go(r)
                return "(-%s)" % a, r
            if t[0] == "i":
                return str(int(t[1:], 16)), r
            h, e = t[1:].split("^")
            return "%de%s" % (int(h, 16), e), r
        return go(toks)[0]
    except Exception:
        return case


MANIFEST = {
    "category": "proof",
    "text": "Coq theorems about an implementation-faithful model of CUE's number arithmetic (apd at precision 34 as used by adt.numOp, intDivOp, Decimal.Cmp, literal.ParseNum), for all operands of any size: + - * equal the exact result rounded half-up to 34 significant digits (error <= half a unit of the 34th digit) and are exact whenever the exact result fits 34 digits; the unconditional exactness demanded by the property is REFUTED for the faithful model (10^36 + 1, known finding F1) and the multiplier-literal analogue (F5); / is correctly rounded to 34 digits, always float, zero divisor is an error; div/mod satisfy the Euclidean identity with 0 <= mod < |b|, quo/rem the truncated identity with the sign of the dividend, at any size, zero divisor is an error; comparison equals comparison of the denoted rationals, hence a total order by value across int/float; strings/bytes compare as a total lexicographic byte order; every literal produced by the grammar of the spec is accepted with the denoted value, or rejected when apd cannot represent its exponent - never read as another number (conditions stated). The model is tied to /repo by exact agreement (kind, sign, coefficient, exponent, error class) with the extracted model on generated expressions and literal byte strings evaluated through cue.Context and literal.ParseNum.",
    "note": "Trusted: Coq kernel; the hand-written model of apd v3 (third-party; validated by correspondence only), of numOp/intDivOp/cmpTonode/ParseNum and of math/big Div/Mod/Quo/Rem; extraction and the OCaml/Go drivers. Not modelled: apd exponent limits inside arithmetic (operands kept within +-2000), NaN/Infinity forms beyond what ParseNum produces, math.* builtins (pkg/math), number formatting (Decimal.Append 'G').",
    "technique": "Coq proof (integer-scaled semantics of decimals in Q; rounding and division error bounds; refutation witnesses by vm_compute) + extracted-model differential check with Spec/Impl classification of known deviations",
}
