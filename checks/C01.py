"""C01 - evaluation result independent of declaration and conjunct order."""
import os
import vlib
from checks import _core

LEVEL = "proof"


def run(ctx):
    quick = ctx.tier == "quick"
    proof = vlib.prove("C01", extra_targets=["theories/Extract/Core.vo"])
    if not quick:
        proof.update(vlib.coqchk("C01"))
        if proof["coqchk_rc"] != 0:
            raise vlib.CheckFailure("coqchk failed: " + proof["coqchk_tail"])
    harness, exe, hsecs = _core.build()
    # 1. corpus of named equivalent pairs (runs first); F8* entries are the known finding
    known = {k["id"]: k for k in vlib.known_findings("C01")}
    pairs = _core.run_pairs(harness, os.path.join(vlib.VERIF, "corpus", "C01", "pairs.txt"), ctx.work)
    pair_fail = 0
    for name, ca, cb in pairs:
        if ca != cb:
            kid = next((k for k in known if name.startswith(k)), None)
            if kid is not None and known[kid].get("status") == "known":
                ctx.known_finding("%s (corpus/C01/pairs.txt): equivalent programs evaluate differently - embedding a struct literal changes closedness [finding %s]" % (name, kid))
            else:
                pair_fail += 1
                ctx.violation({"kind": "equivalent-programs-evaluate-differently", "pair": name, "A": ca, "B": cb,
                               "where": "corpus/C01/pairs.txt"})
    # 2. generated programs x rearrangements
    n = 3000 if quick else 60000
    k = 3 if quick else 5
    if ctx.replay:
        n = 0
    cases, impl, model, src, meta = _core.run_mode(ctx, harness, exe, "c01", n, ["--k", str(k)])
    groups = {}
    mism = 0
    incons = 0
    kinds = {}
    for i, (c, a, m, mt) in enumerate(zip(cases, impl, model, meta)):
        gid, kind = mt.split(" ", 1)
        for kk in kind.split("+"):
            kinds[kk] = kinds.get(kk, 0) + 1
        groups.setdefault(gid, []).append(i)
        if a != m:
            mism += 1
    distinct = set()
    nontrivial = 0
    for gid, idx in groups.items():
        base = impl[idx[0]]
        if cases[idx[0]] not in distinct:
            distinct.add(cases[idx[0]])
            if base != "E" and base.count("{") >= 2:
                nontrivial += 1
        bad = [i for i in idx if impl[i] != base]
        if bad:
            # the property itself fails on the implementation: two rearrangements differ
            incons += 1
            if incons <= 5:
                i = bad[0]
                ctx.violation({"kind": "rearrangement-changes-value", "program": src[idx[0]], "rearranged": src[i],
                               "value": base, "value_rearranged": impl[i], "model_value": model[idx[0]],
                               "rearrangement": meta[i]})
        else:
            mbad = [i for i in idx if impl[i] != model[i]]
            if mbad and incons + mism <= 8:
                i = mbad[0]
                # correspondence broken; the rearrangements of this program agree among themselves
                ctx.violation({"kind": "impl-differs-from-model", "what_no_longer_checks": "correspondence Core.Eval.evalNode ~ cue evaluator (the theorems of Properties/C01.v are about evalNode)",
                               "program": src[i], "impl": impl[i], "model": model[i],
                               "searched": "all %d rearrangements of this program evaluate alike on the implementation" % len(idx)},
                              no_input=True)
    ctx.coverage.update({
        "obligations": proof["obligations"], "discharged": proof["discharged"],
        "checker_cmd": proof["checker_cmd"] + ("; coqchk -silent -o Verif.Properties.C01" if not quick else ""),
        "trusted_base": _core.CORE_TRUSTED, "theorems": proof["theorems"], "axioms_reported": proof["axioms"],
        "evaluations": len(cases) + 2 * len(pairs),
        "distinct_nontrivial": nontrivial,
        "rule": "programs of the CoreCUE fragment (harness/core/ast.go) each with k rearrangements (declaration order at every level, &-commutation/re-association, v&v, v&_, split/merge of declarations, duplicate declaration, {ref} wrapping, definition order) and a random multi-file partition; non-trivial = distinct program whose value is not an error and has >= 2 struct nodes",
        "samples": [{"program": src[0], "impl": impl[0], "model": model[0]}] if src else [],
        "programs": len(groups), "rearrangement_kinds": kinds,
        "input_distribution": _core.shape_stats(impl),
        "impl_vs_model_mismatches": mism, "impl_inconsistent_groups": incons,
        "corpus_pairs": len(pairs), "corpus_pair_failures": pair_fail,
        "harness_build_s": hsecs,
    })
    ctx.assumptions.extend(_core.CORE_TRUSTED)


MANIFEST = {
    "category": "proof",
    "text": "Coq theorems (equalities of result trees, every fuel and universe) for the CoreCUE conjunct-group semantics: the value of a node depends only on the set of conjunct groups and, within a group, on the set of operands - hence permutation of declarations/files, duplication, commutation/re-association/idempotence of &, & _, split/merge of declarations, {e} sole embedding of a reference/close/scalar, and declaration order inside struct literals all preserve the value. The model is tied to cue by exact agreement of canonical result trees (fields, kinds, per-atom acceptance, in-language closedness probes) on generated programs, and the property is checked directly on the implementation by comparing every program with its rearrangements and a multi-file partition.",
    "note": "Theorems are about CoreCUE (no references between regular fields, comprehensions, lists, disjunctions inside fields); the declaration-order law is proved for literals without embeddings; congruence of the laws under field values is not yet a theorem (checked by the rearrangement harness at every depth). Known finding F8 (embedding a struct literal changes closedness) is reported as KNOWN-FINDING from corpus/C01/pairs.txt; the generator never embeds plain literals.",
    "technique": "Coq proof (set-of-conjuncts invariance by induction on depth) + extracted-model differential check + direct metamorphic check on the implementation",
}
