"""C01 - evaluation result independent of declaration and conjunct order."""
import os
import vlib
from checks import _core

LEVEL = "proof"


def run(ctx):
    quick = ctx.tier == "quick"
    proof = vlib.prove("C01", extra_targets=["theories/Extract/Core.vo"])
    if not quick:
        proof.update(vlib.coqchk("C01"))
        if proof["coqchk_rc"] != 0:
            raise vlib.CheckFailure("coqchk failed: " + proof["coqchk_tail"])
    harness, exe, hsecs = _core.build()
    # 1. corpus of named equivalent pairs (runs first); F8* entries are the known finding
    known = {k["id"]: k for k in vlib.known_findings("C01")}
    pairs = _core.run_pairs(harness, os.path.join(vlib.VERIF, "corpus", "C01", "pairs.txt"), ctx.work)
    pair_fail = 0
    for name, ca, cb in pairs:
        if ca != cb:
            kid = next((k for k in known if name.startswith(k)), None)
            if kid is not None and known[kid].get("status") == "known":
                ctx.known_finding("%s (corpus/C01/pairs.txt): equivalent programs evaluate differently - embedding a struct literal changes closedness [finding %s]" % (name, kid))
            else:
                pair_fail += 1
                ctx.violation({"kind": "equivalent-programs-evaluate-differently", "pair": name, "A": ca, "B": cb,
                               "where": "corpus/C01/pairs.txt"})
    # 2. generated programs x rearrangements
    n = 3000 if quick else 60000
    k = 3 if quick else 5
    if ctx.replay:
        n = 0
    if n == 0:  # replay of a recorded exploration case: only stream 3 re-runs it
        cases, impl, model, src, meta = [], [], [], [], []
    else:
        cases, impl, model, src, meta = _core.run_mode(ctx, harness, exe, "c01", n, ["--k", str(k)])
    groups = {}
    mism = 0
    incons = 0
    kinds = {}
    for i, (c, a, m, mt) in enumerate(zip(cases, impl, model, meta)):
        gid, kind = mt.split(" ", 1)
        for kk in kind.split("+"):
            kinds[kk] = kinds.get(kk, 0) + 1
        groups.setdefault(gid, []).append(i)
        if a != m:
            mism += 1
    distinct = set()
    nontrivial = 0
    for gid, idx in groups.items():
        base = impl[idx[0]]
        if cases[idx[0]] not in distinct:
            distinct.add(cases[idx[0]])
            if base != "E" and base.count("{") >= 2:
                nontrivial += 1
        bad = [i for i in idx if impl[i] != base]
        if bad:
            # the property itself fails on the implementation: two rearrangements differ
            incons += 1
            if incons <= 5:
                i = bad[0]
                ctx.violation({"kind": "rearrangement-changes-value", "program": src[idx[0]], "rearranged": src[i],
                               "value": base, "value_rearranged": impl[i], "model_value": model[idx[0]],
                               "rearrangement": meta[i]})
        else:
            mbad = [i for i in idx if impl[i] != model[i]]
            if mbad and incons + mism <= 8:
                i = mbad[0]
                # correspondence broken; the rearrangements of this program agree among themselves
                ctx.violation({"kind": "impl-differs-from-model", "what_no_longer_checks": "correspondence Core.Eval.evalNode ~ cue evaluator (the theorems of Properties/C01.v are about evalNode)",
                               "program": src[i], "impl": impl[i], "model": model[i],
                               "searched": "all %d rearrangements of this program evaluate alike on the implementation" % len(idx)},
                              no_input=True)
    # 3. EXPLORATION stream c01x (impl vs impl, NOT covered by the theorems): a much richer generated
    # fragment (harness/core/rich.go) compared with its rearrangements on the implementation alone
    explo = run_c01x(ctx, harness, quick)
    ctx.coverage.update({
        "obligations": proof["obligations"], "discharged": proof["discharged"],
        "checker_cmd": proof["checker_cmd"] + ("; coqchk -silent -o Verif.Properties.C01" if not quick else ""),
        "trusted_base": _core.CORE_TRUSTED, "theorems": proof["theorems"], "axioms_reported": proof["axioms"],
        "evaluations": len(cases) + 2 * len(pairs),
        "distinct_nontrivial": nontrivial,
        "rule": "programs of the CoreCUE fragment (harness/core/ast.go) each with k rearrangements (declaration order at every level, &-commutation/re-association, v&v, v&_, split/merge of declarations, duplicate declaration, {ref} wrapping, definition order) and a random multi-file partition; non-trivial = distinct program whose value is not an error and has >= 2 struct nodes",
        "samples": [{"program": src[0], "impl": impl[0], "model": model[0]}] if src else [],
        "programs": len(groups), "rearrangement_kinds": kinds,
        "input_distribution": _core.shape_stats(impl),
        "impl_vs_model_mismatches": mism, "impl_inconsistent_groups": incons,
        "corpus_pairs": len(pairs), "corpus_pair_failures": pair_fail,
        "harness_build_s": hsecs,
        "exploration_c01x": explo,
    })
    ctx.assumptions.extend(_core.CORE_TRUSTED)


C01X_KIND = "rearrangement-changes-value (exploration, outside the proved fragment)"


# Witness pairs of known finding F17 (design/Core.md): the same declarations in two orders.  Evaluated on every
# run before the generated programs; while cue is order dependent on them the check prints ONE KNOWN-FINDING line.
F17_PAIRS = [
    ("arithmetic", "y: x + 1\nx: 1 & >1.5\n", "x: 1 & >1.5\ny: x + 1\n"),
    ("selection", "e: c.r\nc: {r: 2, f: 1, f: 2}\n", "c: {r: 2, f: 1, f: 2}\ne: c.r\n"),
    ("interpolation", 'e: "\\(c.r)-x"\nc: {r: 2, f: 1 & 2}\n', 'c: {r: 2, f: 1 & 2}\ne: "\\(c.r)-x"\n'),
    ("template", "a: i.out\nt: {p: number, out: {}}\ni: t & {p: string}\n",
     "t: {p: number, out: {}}\ni: t & {p: string}\na: i.out\n"),
]


def run_f17_pairs(ctx, harness):
    import json
    d = os.path.join(ctx.work, "c01x-f17")
    os.makedirs(d, exist_ok=True)
    rc = os.path.join(d, "pairs.json")
    json.dump([{"program": a, "rearranged": b} for _, a, b in F17_PAIRS], open(rc, "w"))
    vlib.run([harness, "--mode", "c01x", "--out", d, "--replay-cases", rc], timeout=600)
    rep = json.load(open(os.path.join(d, "report.json")))
    bad = rep.get("disagreements") or []
    names = [nm for nm, a, _ in F17_PAIRS if any(x["program"] == a for x in bad)]
    if bad:
        w = bad[0]
        ctx.known_finding("F17 (c01x witness pairs, %d of %d disagree: %s): the error status of a field computing over a "
                          "reference into an erroneous value depends on declaration order, e.g. `%s` gives %s but `%s` gives %s"
                          % (len(bad), len(F17_PAIRS), ", ".join(names), w["program"].strip().replace("\n", "; "),
                             w["canon_a"].replace("\n", "; "), w["rearranged"].strip().replace("\n", "; "),
                             w["canon_b"].replace("\n", "; ")))
    return {"pairs": len(F17_PAIRS), "disagreeing": len(bad), "disagreeing_names": names}


def run_c01x(ctx, harness, quick):
    """Exploration (no model, no theorem): programs of the rich fragment of harness/core/rich.go, each with
    k rearrangements (some as a multi-file package); canonical forms must be equal.  At most 5 replays."""
    import json
    import time
    f17 = run_f17_pairs(ctx, harness)
    d = os.path.join(ctx.work, "c01x")
    os.makedirs(d, exist_ok=True)
    args = [harness, "--mode", "c01x", "--seed", str(ctx.seed), "--out", d, "--max-replays", "5"]
    if ctx.replay:
        payload = json.load(open(ctx.replay))
        payload = payload.get("payload", payload)
        if payload.get("kind") != C01X_KIND:
            return {"skipped": "replay of another stream", "F17_witness_pairs": f17}
        rc = os.path.join(d, "replay-cases.json")
        json.dump([{"program": payload["program"], "rearranged": payload["rearranged"]}], open(rc, "w"))
        args += ["--replay-cases", rc]
    else:
        args += ["--n", str(1500 if quick else 40000), "--k", "6"]
    t0 = time.time()
    vlib.run(args, timeout=3000)
    secs = round(time.time() - t0, 1)
    rep = json.load(open(os.path.join(d, "report.json")))
    for dis in (rep.get("disagreements") or [])[:5]:
        ctx.violation({"kind": C01X_KIND, "program": dis["program"], "rearranged": dis["rearranged"],
                       "canon_a": dis["canon_a"], "canon_b": dis["canon_b"],
                       "rearrangement": dis.get("rearrangement"), "shrunk": dis.get("shrunk"),
                       "program_before_shrinking": dis.get("program_before_shrinking"),
                       "features": dis.get("features"),
                       "note": "files of a multi-file rearrangement are separated by '-- next file --'; "
                               "canon_a/canon_b list only the top-level fields whose canonical form differs"})
    return {
        "label": "EXPLORATION (impl vs impl on a richer fragment; not a proof, not tied to the Coq model)",
        "exploration_programs": rep.get("programs", 0),
        "exploration_distinct_programs": rep.get("distinct_programs", 0),
        "exploration_rearrangements": rep.get("rearrangements", 0),
        "features": rep.get("features", {}),
        "rearrangement_kinds": rep.get("rearrangement_kinds", {}),
        "value_status": rep.get("status", {}),
        "declarations_avg": rep.get("declarations_avg"),
        "programs_not_compiling": rep.get("not_compiling", 0),
        "disagreements": rep.get("disagreement_count", 0),
        "F17_witness_pairs": f17,
        "wall_s": secs,
        "samples": (rep.get("samples") or [])[:2],
        "excluded_classes": "disjunctions/default marks (F2), embedded plain struct literals (F8), computations over "
                            "references into erroneous values (F17: guarded declarations are left out)",
    }


MANIFEST = {
    "category": "proof",
    "text": "Coq theorems (equalities of result trees, every fuel and universe) for the CoreCUE conjunct-group semantics: the value of a node depends only on the set of conjunct groups and, within a group, on the set of operands - hence permutation of declarations/files, duplication, commutation/re-association/idempotence of &, & _, split/merge of declarations, {e} sole embedding of a reference/close/scalar, and declaration order inside struct literals all preserve the value. The model is tied to cue by exact agreement of canonical result trees (fields, kinds, per-atom acceptance, in-language closedness probes) on generated programs, and the property is checked directly on the implementation by comparing every program with its rearrangements and a multi-file partition.",
    "note": "Theorems are about CoreCUE (no references between regular fields, comprehensions, lists, disjunctions inside fields); the declaration-order law is proved for literals without embeddings; congruence is a theorem for & and for the value position of a field of an embedding-free literal (Core/Congr.v: contextual equivalence veq is an equivalence, every basic law is a veq fact, C01_veq_and_congr, C01_veq_field_congr), so the laws apply at any depth reached through such fields; under embeddings, close(), definition bodies and pattern values congruence is only checked by the rearrangement harness. Structs whose FIELDS hold disjunctions are covered by Core/Nest.v: C01_nest_term_order (the value of a conjunction of such literals - every field's value/default outcome - is independent of the order of the terms), C01_nest_plain_perm, C01_nest_split_literal; they are tied to cue by the model stream `nest` of checks/C04.py (probe structs are unified in front and at the back). Known finding F8 (embedding a struct literal changes closedness) is reported as KNOWN-FINDING from corpus/C01/pairs.txt; the generator never embeds plain literals. An additional EXPLORATION stream (mode c01x, harness/core/rich.go; impl vs impl, no model, no theorem) compares programs of a much richer generated fragment (references, let, lists and list comprehensions, field comprehensions, templates with pattern constraints, numeric bounds with the type arriving through a reference, embedded definitions, interpolation, arithmetic, close()) with 6 rearrangements each, some as multi-file packages; it excludes disjunctions/defaults (F2), embedded plain literals (F8) and computations over references into erroneous values (F17; its four witness pairs are evaluated on every run and reported as KNOWN-FINDING while they disagree).",
    "technique": "Coq proof (set-of-conjuncts invariance by induction on depth) + extracted-model differential check + direct metamorphic check on the implementation",
}
