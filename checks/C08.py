"""C08 - cue fmt is idempotent and never changes what a file means."""
import json
import os
import vlib

LEVEL = "proof"

TRUSTED = [
    "Coq 8.16.1 kernel; vm_compute only in Examples/witness theorems; no axioms (Print Assumptions: closed)",
    "hand-written Gallina models: Syn/Lex.v (cue/scanner Scan on the single-line ASCII fragment, separation table, printer.go mayCombine, pretty unaryOpMergesWithOperand), Syn/Expr.v (cue/format/node.go exprRaw/binaryExpr, internal/pretty/ast.go binaryExpr/chainGroupArms/binaryExprPrec/wrapForPrecedence, cue/parser parseBinaryExprTail/parseUnaryExpr/parsePrimaryExprTail)",
    "correspondence: extracted OCaml model (ExtrOcamlBasic only) vs the Go scanner, parser and BOTH formatters (cueexperiment FormatV2 on and off) built from /repo's working tree via go build -overlay",
    "OCaml driver ocaml/c08_driver.ml, Go harnesses harness/c08 (expression level: generators, position-free S-expression dump) and harness/c08f (file level: corpus walk, structural dump with comments, mutators, program generator)",
    "string/number literal contents are opaque atoms at the expression level (cue/literal is C09); the whitespace/comment state machine of printer.go and the layout engine of internal/pretty are NOT modelled: for them the check is the direct file-level exploration only",
]

KNOWN = {
    "K1": "V1 formatter (cue/format node.go+printer.go, CUE_EXPERIMENT=formatv2=0) prints a unary operator and a unary operand with no blank even when the pair lexes as another token: `< -1` -> `<-1` (ARROW), `! =~\"a\"` -> `!=~\"a\"`, `< =~`, `> =~`, `< ==`, `> ==`, `! ==`; output does not parse (mayCombine has no case for LSS/GTR/NOT; UnaryExpr prints the operator with nooverride)",
    "K2": "V2 formatter (internal/pretty, default) prints an INT literal and a selector period with no blank: `1 .a` -> `1.a`; output does not scan/parse (selectorExpr glues the period; V1 handles it in mayCombine)",
    "K3": "V2 formatter on ASTs WITHOUT ParenExpr nodes (format.Node on programmatic trees): a unary expression in operand position of a selector/index/call is not parenthesised (`(-x).a` printed `-x.a`): wrapForPrecedence only wraps binary expressions. Parsed sources are unaffected (explicit ParenExpr).",
    "K4": "V2 formatter on ASTs WITHOUT ParenExpr nodes: a right-nested chain of the same operator `a | (b | c)` / `a & (b & c)` is flattened to `a | b | c` (flattenBinaryChain walks both operands); the re-parsed tree is left-nested. Parsed sources are unaffected.",
}


def split_fields(line):
    return [x.strip() for x in line.split(" ; ")]


def judge(im, ir, mm, mrescan, mr):
    """Compare one formatter's observed output with the model's prediction.
    Returns (status, detail): status in ok | hazard | hazard-fixed | V:<what>."""
    if im in ("FMTERR", "PANIC"):
        return "V:formatter-failed", im
    mw = mm.split()
    if any(w[0] == "#" for w in mw):
        return "V:layout-pair-needs-blank", mm
    ptoks = [w[1:] for w in mw]
    hazard = any(w[0] == "!" for w in mw)
    itoks = None if im == "SCANERR" else ([] if im == "-" else [w[1:] for w in im.split()])
    mt = None if mrescan == "NONE" else ([] if mrescan == "-" else mrescan.split())
    if mt is None and hazard and itoks != ptoks:
        # the model's scanner leaves the glued text unmodelled; the gluing itself is predicted
        return "hazard", ""
    if itoks == mt:
        if ir != mr and not (mt is None and ir == "ERR"):
            return "V:reread-tree-differs", "impl=%s model=%s" % (ir, mr)
        if not hazard and itoks is not None:
            for a, b in zip(im.split(), mw):
                if b[0] == "=" and a[0] == "~":
                    return "V:needed-blank-missing", b
        return ("hazard" if hazard else "ok"), ""
    if hazard and itoks == ptoks:
        return "hazard-fixed", ""
    return "V:tokens-differ", "impl=%s model=%s" % (im, mrescan)


def expr_level(ctx, exe, harness, quick, stats):
    work = os.path.join(ctx.work, "expr")
    os.makedirs(work, exist_ok=True)
    args = [harness, "--seed", str(ctx.seed), "--out", work,
            "--corpus", os.path.join(vlib.VERIF, "corpus", "C08", "expr_cases.txt")]
    if ctx.replay:
        rp = json.load(open(ctx.replay))
        if "case" not in rp:
            return
        cf = os.path.join(work, "replay_cases.txt")
        with open(cf, "w") as f:
            f.write(rp["case"] + "\n")
        args = [harness, "--out", work, "--replay-cases", cf]
    elif quick:
        args += ["--npr", "4000", "--npa", "3000", "--nsc", "4000"]
    else:
        args += ["--npr", "150000", "--npa", "120000", "--nsc", "150000"]
    vlib.run(args, timeout=3000)
    cases = open(os.path.join(work, "cases.txt")).read().split("\n")[:-1]
    impl = open(os.path.join(work, "impl.txt")).read().split("\n")[:-1]
    p = vlib.run([exe], input="\n".join(cases) + "\n", timeout=3000, stderr=None)
    model = p.stdout.split("\n")[:-1]
    if not (len(cases) == len(impl) == len(model)):
        raise vlib.CheckFailure("line count mismatch cases=%d impl=%d model=%d" % (len(cases), len(impl), len(model)))
    # guard of the extraction and driver glue: cases whose model output is also a Coq theorem
    expected = {}
    for line in open(os.path.join(vlib.VERIF, "corpus", "C08", "expr_expected.txt")):
        if " => " in line and not line.startswith("#"):
            c, e = line.rstrip("\n").split(" => ", 1)
            expected[c] = e
    if not ctx.replay:
        p2 = vlib.run([exe], input="\n".join(expected.keys()) + "\n", timeout=600, stderr=None)
        got = p2.stdout.split("\n")[:-1]
        bad = [(c, e, g) for (c, e), g in zip(expected.items(), got) if e != g]
        stats["extraction_guard_cases"] = len(expected)
        if bad or len(got) != len(expected):
            raise vlib.CheckFailure("extracted model disagrees with kernel-checked values: %r" % (bad[:2],))
    kinds = stats.setdefault("expr_case_kinds", {})
    outcome = stats.setdefault("expr_outcomes", {})
    distinct = set()
    nontrivial = 0
    nviol = 0
    samples = stats.setdefault("samples", [])

    def bump(k):
        outcome[k] = outcome.get(k, 0) + 1

    def violation(c, what, detail, i, m):
        nonlocal nviol
        nviol += 1
        if nviol <= 5:
            ctx.violation({"kind": "expression-level", "what": what, "detail": detail, "case": c,
                           "impl": i, "model": m,
                           "replay": "bin/check C08 --replay <this file>"})

    for c, i, m in zip(cases, impl, model):
        k = c.split(" ", 1)[0]
        kinds[k] = kinds.get(k, 0) + 1
        new = c not in distinct
        distinct.add(c)
        if m.startswith("BADCASE"):
            violation(c, "model driver rejected the case", m, i, m)
            continue
        if k == "SC":
            if m == "NONE":
                bump("SC unmodelled-by-scan-model")
                continue
            if i != m:
                bump("SC mismatch")
                violation(c, "cue/scanner tokens differ from Syn/Lex.scan on a character sequence inside the modelled fragment", "", i, m)
            else:
                bump("SC agree")
                if new and len(m.split()) >= 3:
                    nontrivial += 1
            continue
        ip = split_fields(i)
        mp = split_fields(m)
        if k == "PR":
            cls = mp[8]
            for v, (io, mo) in enumerate(((0, 0), (3, 4))):
                im, ir, multi = ip[io:io + 3]
                mm, mrescan, mr, same = mp[mo:mo + 4]
                tag = "PR v%d " % (v + 1)
                if multi == "1":
                    bump(tag + "skipped: output broken over several lines")
                    continue
                st, det = judge(im, ir, mm, mrescan, mr)
                if st.startswith("V:"):
                    bump(tag + st)
                    violation(c, "format.Node (formatter v%d) disagrees with the proved printer model: %s" % (v + 1, st[2:]), det, i, m)
                    continue
                if st == "hazard":
                    kid = "K1" if v == 0 else "K2"
                    bump(tag + "known " + kid)
                    ctx.known_finding(kid + ": " + KNOWN[kid])
                elif st == "hazard-fixed":
                    bump(tag + "hazard pair separated by the implementation (finding not reproduced)")
                elif same == "0":
                    if v == 1 and cls != "-":
                        for ch, kid in (("u", "K3"), ("c", "K4")):
                            if ch in cls:
                                bump(tag + "known " + kid)
                                ctx.known_finding(kid + ": " + KNOWN[kid])
                    else:
                        bump(tag + "V:tree-changed")
                        violation(c, "printing and re-reading changes the tree outside the known classes (formatter v%d)" % (v + 1), "", i, m)
                else:
                    bump(tag + "ok")
            if new and len(c.split()) >= 8:
                nontrivial += 1
        elif k == "PA":
            if "X:" in ip[0]:
                bump("PA skipped: real tree has a node kind outside the model")
                continue
            if ip[0] != mp[0]:
                bump("PA V:parse-differs")
                violation(c, "cue/parser tree differs from Syn/Expr.parse on a token sequence", "", i, m)
                continue
            if ip[0] == "ERR":
                bump("PA both reject")
                continue
            for v, (io, mo) in enumerate(((1, 1), (4, 5))):
                im, ir, idem = ip[io:io + 3]
                mm, mrescan, mr, coll = mp[mo:mo + 4]
                tag = "PA v%d " % (v + 1)
                st, det = judge(im, ir, mm, mrescan, mr)
                if st.startswith("V:"):
                    bump(tag + st)
                    violation(c, "formatter v%d on a parsed expression disagrees with the proved model: %s" % (v + 1, st[2:]), det, i, m)
                elif st == "hazard":
                    kid = "K1" if v == 0 else "K2"
                    bump(tag + "known " + kid)
                    ctx.known_finding(kid + ": " + KNOWN[kid])
                elif st == "hazard-fixed":
                    bump(tag + "hazard pair separated by the implementation (finding not reproduced)")
                elif idem != "1":
                    bump(tag + "V:not-idempotent")
                    violation(c, "formatting the formatter's output again changes it (formatter v%d)" % (v + 1), "idem=" + idem, i, m)
                elif coll != "1":
                    bump(tag + "V:tree-changed")
                    violation(c, "formatted expression parses to a different tree (modulo nested parentheses), formatter v%d" % (v + 1), "", i, m)
                else:
                    bump(tag + "ok")
            if new and len(c.split()) >= 6:
                nontrivial += 1
        if len(samples) < 4 and k in ("PR", "PA") and 40 < len(c) < 200 and kinds[k] % 997 == 5:
            samples.append({"case": c, "impl": i, "model": m})
    stats["expr_evaluations"] = stats.get("expr_evaluations", 0) + len(cases)
    stats["expr_distinct_nontrivial"] = stats.get("expr_distinct_nontrivial", 0) + nontrivial
    stats["expr_violations"] = stats.get("expr_violations", 0) + nviol


def file_level(ctx, quick, stats):
    if not os.path.exists(os.path.join(vlib.VERIF, "checks", "_c08_file.py")):
        stats["file_level"] = "file-level part not present"
        return
    harness, hsecs = vlib.build_harness("c08f")
    stats["file_harness_build_s"] = hsecs
    # filled in below once the file-level harness contract is final
    from checks import _c08_file
    _c08_file.run(ctx, harness, quick, stats, KNOWN)


def run(ctx):
    quick = ctx.tier == "quick"
    proof = vlib.prove("C08", extra_targets=["theories/Extract/C08.vo"])
    if not quick:
        proof.update(vlib.coqchk("C08"))
        if proof["coqchk_rc"] != 0:
            raise vlib.CheckFailure("coqchk failed: " + proof["coqchk_tail"])
    exe = vlib.build_model("C08", "extract/C08.v", "ocaml/c08_driver.ml")
    harness, hsecs = vlib.build_harness("c08")
    stats = {}
    expr_level(ctx, exe, harness, quick, stats)
    file_level(ctx, quick, stats)
    ctx.coverage.update({
        "obligations": proof["obligations"],
        "discharged": proof["discharged"],
        "checker_cmd": proof["checker_cmd"] + ("; coqchk -silent -o Verif.Properties.C08" if not quick else ""),
        "trusted_base": TRUSTED,
        "theorems": proof["theorems"],
        "axioms_reported": proof["axioms"],
        "audit_files": proof["audit_files"],
        "evaluations": stats.get("expr_evaluations", 0) + stats.get("file_evaluations", 0),
        "distinct_nontrivial": stats.get("expr_distinct_nontrivial", 0) + stats.get("file_distinct_nontrivial", 0),
        "rule": "expression level: PR = random expression trees (depth 1-5, all 16 binary and 12 unary operators, selectors, index, calls with 0-3 arguments, a quarter with random ParenExpr nodes) built as position-free ASTs, printed by format.Node under both formatters, output scanned and re-parsed; PA = token sequences printed from random trees with necessary plus random redundant parentheses and optional trailing commas, one fifth corrupted by 1-2 random token edits (the malformed stream), parsed by cue/parser, formatted by both formatters, formatted again; SC = character sequences of 1-7 lexical pieces with random blanks and stray bytes, scanned by cue/scanner. non-trivial: PR tree of >= 4 nodes, PA >= 5 tokens, SC >= 3 tokens in the modelled fragment; counted over distinct case lines. file level: see file_* keys",
        "samples": stats.pop("samples", []),
        "harness_build_s": hsecs,
        "proof": {k: v for k, v in proof.items() if k.startswith("coqchk") or k in ("make_s",)},
        "known_classes": KNOWN,
    })
    ctx.coverage.update(stats)
    ctx.assumptions.extend(TRUSTED)


MANIFEST = {
    "category": "proof",
    "text": "Coq theorems about a token-level model of CUE expressions, for all trees and all token lists: the parser model returns exactly the tree whose parentheses the old printer (node.go) emits (parse (print e) = canon e, unparen (canon e) = unparen e), so no parenthesis can be dropped or misplaced; print . parse is idempotent and reaches its normal form in one step; the only tree change is the collapse of directly nested parentheses; on parser-produced trees the default printer (internal/pretty) prints the same tokens; a separated token sequence scans back to itself and layout-dependent blanks are never needed. The model is tied to /repo by exact agreement of scanner tokens, parser trees and formatter output tokens for both formatters on generated trees, token soups and character sequences. Formatting whole files (comments, layout, declarations, -s) is explored directly on the implementation: every embedded .cue source, its mutations and generated programs must format, be byte-identical when formatted again, and keep their position-free structural dump.",
    "note": "Trusted: Coq kernel; hand-written models of scanner/parser/printers for expressions only; extraction and drivers. NOT modelled: whitespace/comment interleaving (printer.go), the internal/pretty layout engine, declarations, simplify.go - covered only by direct exploration of format.Source on the corpus, mutants and generated programs. Known deviations K1-K4 (formatter v1 glues `<` `-`; formatter v2 glues INT `.`; v2 on paren-free ASTs drops parentheses around unary operands of postfix operators and flattens right-nested | & chains) are modelled and reported as KNOWN-FINDING.",
    "technique": "Coq proof (precedence-climbing parser vs precedence printer; scanner separation) + extracted-model differential check + direct round-trip exploration on files",
}
