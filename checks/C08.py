"""C08 - cue fmt is idempotent and never changes what a file means."""
import json
import os
import vlib

LEVEL = "proof"

TRUSTED = [
    "Coq 8.16.1 kernel; vm_compute only in Examples/witness theorems; no axioms (Print Assumptions: closed)",
    "hand-written Gallina models: Syn/Lex.v (cue/scanner Scan on the single-line ASCII fragment, separation table, printer.go mayCombine, pretty unaryOpMergesWithOperand), Syn/Expr.v (cue/format/node.go exprRaw/binaryExpr, internal/pretty/ast.go binaryExpr/chainGroupArms/binaryExprPrec/wrapForPrecedence, cue/parser parseBinaryExprTail/parseUnaryExpr/parsePrimaryExprTail)",
    "correspondence: extracted OCaml model (ExtrOcamlBasic only) vs the Go scanner, parser and BOTH formatters (cueexperiment FormatV2 on and off) built from /repo's working tree via go build -overlay",
    "OCaml driver ocaml/c08_driver.ml, Go harnesses harness/c08 (expression level: generators, position-free S-expression dump) and harness/c08f (file level: corpus walk, structural dump with comments, mutators, program generator)",
    "string/number literal contents are opaque atoms at the expression level (cue/literal is C09); the whitespace/comment state machine of printer.go and the layout engine of internal/pretty are NOT modelled: for them the check is the direct file-level exploration only",
]

KNOWN = {
    "K26": "V2 formatter on ASTs WITHOUT ParenExpr nodes: a right-nested chain of the same operator `a | (b | c)` / `a & (b & c)` is flattened to `a | b | c` (flattenBinaryChain walks both operands); the re-parsed tree is left-nested. Parsed sources are unaffected.",
}


def split_fields(line):
    return [x.strip() for x in line.split(" ; ")]


def judge(im, ir, mm, mrescan, mr):
    """Compare one formatter's observed output with the model's prediction.
    Returns (status, detail): status in ok | hazard | hazard-fixed | V:<what>."""
    if im in ("FMTERR", "PANIC"):
        return "V:formatter-failed", im
    mw = mm.split()
    if any(w[0] == "#" for w in mw):
        return "V:layout-pair-needs-blank", mm
    ptoks = [w[1:] for w in mw]
    hazard = any(w[0] == "!" for w in mw)
    itoks = None if im == "SCANERR" else ([] if im == "-" else [w[1:] for w in im.split()])
    mt = None if mrescan == "NONE" else ([] if mrescan == "-" else mrescan.split())
    if mt is None and hazard and itoks != ptoks:
        # the model's scanner leaves the glued text unmodelled; the gluing itself is predicted
        return "hazard", ""
    if itoks == mt:
        if ir != mr and not (mt is None and ir == "ERR"):
            return "V:reread-tree-differs", "impl=%s model=%s" % (ir, mr)
        if not hazard and itoks is not None:
            for a, b in zip(im.split(), mw):
                if b[0] == "=" and a[0] == "~":
                    return "V:needed-blank-missing", b
        return ("hazard" if hazard else "ok"), ""
    if hazard and itoks == ptoks:
        return "hazard-fixed", ""
    return "V:tokens-differ", "impl=%s model=%s" % (im, mrescan)


def expr_level(ctx, exe, harness, quick, stats):
    work = os.path.join(ctx.work, "expr")
    os.makedirs(work, exist_ok=True)
    args = [harness, "--seed", str(ctx.seed), "--out", work,
            "--corpus", os.path.join(vlib.VERIF, "corpus", "C08", "expr_cases.txt")]
    if ctx.replay:
        rp = json.load(open(ctx.replay))
        if "case" not in rp:
            return
        cf = os.path.join(work, "replay_cases.txt")
        with open(cf, "w") as f:
            f.write(rp["case"] + "\n")
        args = [harness, "--out", work, "--replay-cases", cf]
    elif quick:
        args += ["--npr", "4000", "--npa", "3000", "--nsc", "4000"]
    else:
        args += ["--npr", "150000", "--npa", "120000", "--nsc", "150000"]
    vlib.run(args, timeout=3000)
    cases = open(os.path.join(work, "cases.txt")).read().split("\n")[:-1]
    impl = open(os.path.join(work, "impl.txt")).read().split("\n")[:-1]
    p = vlib.run([exe], input="\n".join(cases) + "\n", timeout=3000, stderr=None)
    model = p.stdout.split("\n")[:-1]
    if not (len(cases) == len(impl) == len(model)):
        raise vlib.CheckFailure("line count mismatch cases=%d impl=%d model=%d" % (len(cases), len(impl), len(model)))
    # guard of the extraction and driver glue: cases whose model output is also a Coq theorem
    expected = {}
    for line in open(os.path.join(vlib.VERIF, "corpus", "C08", "expr_expected.txt")):
        if " => " in line and not line.startswith("#"):
            c, e = line.rstrip("\n").split(" => ", 1)
            expected[c] = e
    if not ctx.replay:
        p2 = vlib.run([exe], input="\n".join(expected.keys()) + "\n", timeout=600, stderr=None)
        got = p2.stdout.split("\n")[:-1]
        bad = [(c, e, g) for (c, e), g in zip(expected.items(), got) if e != g]
        stats["extraction_guard_cases"] = len(expected)
        if bad or len(got) != len(expected):
            raise vlib.CheckFailure("extracted model disagrees with kernel-checked values: %r" % (bad[:2],))
    kinds = stats.setdefault("expr_case_kinds", {})
    outcome = stats.setdefault("expr_outcomes", {})
    distinct = set()
    nontrivial = 0
    nviol = 0
    samples = stats.setdefault("samples", [])

    def bump(k):
        outcome[k] = outcome.get(k, 0) + 1

    def violation(c, what, detail, i, m):
        nonlocal nviol
        nviol += 1
        if nviol <= 5:
            ctx.violation({"kind": "expression-level", "what": what, "detail": detail, "case": c,
                           "impl": i, "model": m,
                           "replay": "bin/check C08 --replay <this file>"})

    for c, i, m in zip(cases, impl, model):
        k = c.split(" ", 1)[0]
        kinds[k] = kinds.get(k, 0) + 1
        new = c not in distinct
        distinct.add(c)
        if m.startswith("BADCASE"):
            violation(c, "model driver rejected the case", m, i, m)
            continue
        if k == "SC":
            if m == "NONE":
                bump("SC unmodelled-by-scan-model")
                continue
            if i != m:
                bump("SC mismatch")
                violation(c, "cue/scanner tokens differ from Syn/Lex.scan on a character sequence inside the modelled fragment", "", i, m)
            else:
                bump("SC agree")
                if new and len(m.split()) >= 3:
                    nontrivial += 1
            continue
        ip = split_fields(i)
        mp = split_fields(m)
        if k == "PR":
            cls = mp[8]
            for v, (io, mo) in enumerate(((0, 0), (3, 4))):
                im, ir, multi = ip[io:io + 3]
                mm, mrescan, mr, same = mp[mo:mo + 4]
                tag = "PR v%d " % (v + 1)
                if multi == "1":
                    bump(tag + "skipped: output broken over several lines")
                    continue
                st, det = judge(im, ir, mm, mrescan, mr)
                if st.startswith("V:"):
                    bump(tag + st)
                    violation(c, "format.Node (formatter v%d) disagrees with the proved printer model: %s" % (v + 1, st[2:]), det, i, m)
                    continue
                if st == "hazard":
                    # K1 (printer.go opCombinesWith) and K2 (internal/pretty intLitMergesWithPeriod) are fixed:
                    # the models of both formatters glue no hazardous pair any more
                    bump(tag + "V:hazard-pair-glued")
                    violation(c, "format.Node (formatter v%d) prints two tokens without the blank the scanner needs" % (v + 1), "", i, m)
                elif st == "hazard-fixed":
                    bump(tag + "hazard pair separated by the implementation (finding not reproduced)")
                elif same == "0":
                    if v == 1 and cls != "-":
                        # K25 (unary operand of a postfix operator printed without parentheses) is fixed:
                        # the model parenthesises it, a recurrence shows up as tokens-differ above
                        for ch, kid in (("c", "K26"),):
                            if ch in cls:
                                bump(tag + "known " + kid)
                                ctx.known_finding("C08-" + kid + ": " + KNOWN[kid])
                    else:
                        bump(tag + "V:tree-changed")
                        violation(c, "printing and re-reading changes the tree outside the known classes (formatter v%d)" % (v + 1), "", i, m)
                else:
                    bump(tag + "ok")
            if new and len(c.split()) >= 8:
                nontrivial += 1
        elif k == "PA":
            if "X:" in ip[0]:
                bump("PA skipped: real tree has a node kind outside the model")
                continue
            if ip[0] != mp[0]:
                bump("PA V:parse-differs")
                violation(c, "cue/parser tree differs from Syn/Expr.parse on a token sequence", "", i, m)
                continue
            if ip[0] == "ERR":
                bump("PA both reject")
                continue
            for v, (io, mo) in enumerate(((1, 1), (4, 5))):
                im, ir, idem = ip[io:io + 3]
                mm, mrescan, mr, coll = mp[mo:mo + 4]
                tag = "PA v%d " % (v + 1)
                st, det = judge(im, ir, mm, mrescan, mr)
                if st.startswith("V:"):
                    bump(tag + st)
                    violation(c, "formatter v%d on a parsed expression disagrees with the proved model: %s" % (v + 1, st[2:]), det, i, m)
                elif st == "hazard":
                    bump(tag + "V:hazard-pair-glued")
                    violation(c, "formatter v%d on a parsed expression prints two tokens without the blank the scanner needs (K1, K2 are fixed)" % (v + 1), "", i, m)
                elif st == "hazard-fixed":
                    bump(tag + "hazard pair separated by the implementation (finding not reproduced)")
                elif idem != "1":
                    bump(tag + "V:not-idempotent")
                    violation(c, "formatting the formatter's output again changes it (formatter v%d)" % (v + 1), "idem=" + idem, i, m)
                elif coll != "1":
                    bump(tag + "V:tree-changed")
                    violation(c, "formatted expression parses to a different tree (modulo nested parentheses), formatter v%d" % (v + 1), "", i, m)
                else:
                    bump(tag + "ok")
            if new and len(c.split()) >= 6:
                nontrivial += 1
        if len(samples) < 4 and k in ("PR", "PA") and 40 < len(c) < 200 and kinds[k] % 997 == 5:
            samples.append({"case": c, "impl": i, "model": m})
    stats["expr_evaluations"] = stats.get("expr_evaluations", 0) + len(cases)
    stats["expr_distinct_nontrivial"] = stats.get("expr_distinct_nontrivial", 0) + nontrivial
    stats["expr_violations"] = stats.get("expr_violations", 0) + nviol


FILE_KNOWN = {
    "K3": "V1 -s: not idempotent (whitespace/commas only): nodes rewritten by Simplify (collapsed single-field structs, unquoted labels, re-created `...`) carry no position on the first pass, the layout settles on the second pass",
    "K4": "V2: `x: f(\\n\\ta, \"\")` - the first pass moves `)` to its own line, the second pass adds the trailing comma (not idempotent, tree unchanged)",
    "K5": "V1: an own-line comment after the last comprehension of a struct is printed between clause and body; with try/else the output does not parse",
    "K6": "V1 and V2: `if c { // c1` - the line comment after the comprehension's opening brace moves (V1: after the first field, V2: after `}`)",
    "K7": "-s (both): `#dev: int, \"#dev\": int` - the quoted label is unquoted and becomes the definition `#dev` (label simplifier's scope map is also fed by identifier labels)",
    "K8": "-s (both): `[string]: _ @attr` (or with an alias) is rewritten to `...`: isEllipsis ignores Attrs/Alias, they are dropped",
    "K9": "V2: `c: d:\\n\\t// cmt\\n\\tc: 1` - the comment between colon and chained field is lost",
    "K10": "-s (both): `x: \"x\": \"x\": x` - an outer label is unquoted and captures the reference (markReferences invalidates only the innermost scope)",
    "K11": "V1: an own-line comment at the end of a struct that is a list element moves after `},`",
    "K12": "V1: `((x))` collapse uses the inner parenthesis' position: `[1\\n((2))]` is not idempotent, `for x in (\\n(y)) {}` does not reparse, a list inside an interpolation gains a trailing comma on the second pass",
    "K13": "V1: `import (\"a\", \"b\")` on one line - the comma is dropped, the output does not parse",
    "K14": "-s (both): `[name=_]: \"name\": T` - the unquoted label clashes with the alias, the output does not parse",
    "K15": "V1 -s: `{[string]: _, foo: 3}` -> `{, foo: 3 ...}`",
    "K16": "V1: CRLF source with a multi-line string holding two or more interpolations: a stray newline inside `\\( )`, never a fixed point (interpolationNormalize works on line numbers)",
    "K17": "V1: a field with three or more attributes plus a line comment: the comment is printed after the 2nd attribute, the rest become separate declarations",
    "K18": "V1 and V2: a line comment between two comprehension clauses moves after the body",
    "K19": "V1: `a: _ @x, a: b: _ @y` - braces added plus alignment; settles on the second pass",
    "K20": "V1 and V2: a line comment after a call argument that is a selector or index expression: V1 output does not parse or changes the argument count, V2 moves it inside the selector",
    "K21": "V1 and V2: a comment before or after a list ellipsis `...` moves",
    "K22": "V2: a comment inside a single-line interpolation swallows code (`args=2` -> `args=1`)",
    "K23": "-s (both): `\"string\": 1, x: [string]: int` - `string:` captures the reference inside the pattern label (the simplifier ignores references inside labels)",
    "K24": "-s (both): `// hdr\\n\\n\"true\": 1` - the blank line is lost and the header becomes a doc comment",
    "K27": "V2 -s: a brace-less chain broken after a colon whose innermost field has an attribute (`a: b:\\n\\tc: 1 @x()`) is expanded to nested braces on the first pass and collapsed to `a: b: {` on the second (not idempotent, tree unchanged)",
    "K28": "V1 and V2: on rare layouts the formatter needs a second pass: the two outputs differ only in blanks, line breaks, commas or optional braces, the second pass is a fixed point and all texts have the same structural dump (effect-defined class without a specific trigger; the check bounds its frequency)",
    "W": "V1 and V2: comments written directly after an opening bracket, before a closing bracket, after an operator, after a colon or after a comma are moved to another node/position (witnesses corpus/C08/W-*.cue; these comment positions are excluded from the seed-dependent mutator)",
}


# classes fixed in /repo: the harness still recognises them, the check reports them as violations
FIXED_CLASSES = {
    "K1": "formatter V1 prints a unary < > ! and a unary operand without the blank the scanner needs (`< -1` -> `<-1`)",
    "K2": "formatter V2 prints an INT literal and a selector period without a blank (`1 .a` -> `1.a`)",
}


def file_level(ctx, quick, stats):
    """Direct exploration of format.Source on the embedded sources of the repository, their
    mutants and generated programs (harness/c08f): formats, is idempotent, keeps the
    position-free structural dump."""
    harness, hsecs = vlib.build_harness("c08f")
    stats["file_harness_build_s"] = hsecs
    work = os.path.join(ctx.work, "file")
    wdir = os.path.join(ctx.work, "wit")
    os.makedirs(work, exist_ok=True)
    os.makedirs(wdir, exist_ok=True)
    corpus_dir = os.path.join(vlib.VERIF, "corpus", "C08")
    runs = []
    if ctx.replay:
        rp = json.load(open(ctx.replay))
        if "file_case" not in rp:
            return
        cf = os.path.join(work, "replay_cases.txt")
        with open(cf, "w") as f:
            f.write(rp["file_case"] + "\n")
        vlib.run([harness, "--repo", vlib.REPO, "--replay-cases", cf, "--out", work], timeout=3000)
        runs.append(("replay", work))
    else:
        # regression witnesses first (seed independent)
        vlib.run([harness, "--mode", "witness", "--repo", vlib.REPO, "--dir", corpus_dir, "--out", wdir], timeout=3000)
        runs.append(("witness", wdir))
        if quick:
            sizes = ["--stride", "8", "--nmut-det", "300", "--ngen-det", "120", "--nmut", "300", "--ngen", "120",
                     "--nchain-det", "150", "--nchain", "100"]
        else:
            sizes = ["--stride", "1", "--nmut-det", "10000", "--ngen-det", "4000", "--nmut", "3000", "--ngen", "1200",
                     "--nchain-det", "3000", "--nchain", "1500"]
        vlib.run([harness, "--mode", "all", "--repo", vlib.REPO, "--seed", str(ctx.seed), "--out", work] + sizes,
                 timeout=3000)
        runs.append(("all", work))
    expected = {}
    for line in open(os.path.join(corpus_dir, "expected.txt")):
        w = line.split()
        if len(w) >= 4 and not line.startswith("#"):
            expected[(w[0], w[1], w[2])] = " ".join(w[3:])
    outcome = stats.setdefault("file_outcomes", {})
    nviol = 0
    total = 0
    nontrivial = 0

    def bump(k):
        outcome[k] = outcome.get(k, 0) + 1

    def violation(what, c, i):
        nonlocal nviol
        nviol += 1
        if nviol <= 5:
            ctx.violation({"kind": "file-level", "what": what, "file_case": c, "verdict": i,
                           "replay": "bin/check C08 --replay <this file>   (or: build/harness-c08f --repo /repo --replay-cases <file with file_case> --show 1)"})

    for mode, d in runs:
        cases = open(os.path.join(d, "cases.txt"), errors="replace").read().split("\n")[:-1]
        impl = open(os.path.join(d, "impl.txt"), errors="replace").read().split("\n")[:-1]
        if len(cases) != len(impl):
            raise vlib.CheckFailure("c08f line count mismatch cases=%d impl=%d" % (len(cases), len(impl)))
        total += len(cases)
        for c, i in zip(cases, impl):
            w = i.split()
            cw = c.split(" ", 4)
            tag = "%s %s/%s " % (mode if mode != "all" else cw[0], cw[2] if len(cw) > 2 else "-", cw[3] if len(cw) > 3 else "-")
            if mode == "witness":
                name = cw[1][4:] if cw[1].startswith("wit:") else cw[1]
                exp = expected.get((name, cw[2], cw[3]))
                got = " ".join(w[:2]) if w[0] == "known" else w[0]
                if w[:2] == ["known", "W"]:
                    # the harness itself compared with the recorded verdict of an unclassified witness
                    bump("witness as recorded: still fails")
                    ctx.known_finding("C08-W: " + FILE_KNOWN["W"])
                elif exp is None:
                    bump("witness without recorded verdict")
                elif exp == got:
                    bump("witness as recorded: " + ("ok" if got == "ok" else "still fails"))
                    if w[0] == "known":
                        ctx.known_finding("C08-" + w[1] + ": " + FILE_KNOWN.get(w[1], i))
                elif got == "ok":
                    bump("witness no longer fails (finding not reproduced): " + exp)
                else:
                    bump("V:witness fails differently")
                    violation("regression witness %s: recorded verdict `%s`, now `%s`" % (name, exp, i), c, i)
                continue
            if w[0] == "ok":
                bump(tag + ("malformed rejected" if len(w) > 1 else "ok"))
                if len(c) > 200 or cw[0] == "FILE":
                    nontrivial += 1
            elif w[0] == "known" and w[1] in FIXED_CLASSES:
                bump("V:recurrence of fixed class " + w[1])
                violation("the fixed defect class %s is back: %s" % (w[1], FIXED_CLASSES[w[1]]), c, i)
            elif w[0] == "known":
                bump("known " + w[1] + " (" + (cw[2] if len(cw) > 2 else "") + ")")
                ctx.known_finding("C08-" + w[1] + ": " + FILE_KNOWN.get(w[1], i))
            else:
                bump("V:" + w[0] + " " + tag)
                violation({"fmt-error": "format.Source fails on a source that parses",
                           "not-idempotent": "formatting the formatted output changes it",
                           "tree-changed": "the formatted output parses to a different tree / comment placement",
                           "reparse-error": "the formatted output does not parse",
                           "panic": "the formatter panics",
                           "accepted-malformed": "format.Source accepts a source the parser rejects"}.get(w[0], w[0]), c, i)
        sj = os.path.join(d, "stats.json")
        if mode == "all" and os.path.exists(sj):
            st = json.load(open(sj))
            for k in ("corpus", "stride", "bytes_processed", "verdicts", "known_classes",
                      "ok_cases_with_comments_reattached_to_other_node_or_position", "source_size_distribution",
                      "node_kinds_seen", "comment_positions_seen", "malformed_stream", "mutation_classes", "generator"):
                if k in st:
                    stats["file_" + k] = st[k]
    # effect-defined classes must stay rare: a change that makes the layout need a second pass
    # broadly is a violation of idempotence, not an instance of the background class
    n28 = sum(v for k, v in outcome.items() if k.startswith("known K28"))
    n4 = sum(v for k, v in outcome.items() if k.startswith("known K4 "))
    stats["file_two_pass_counts"] = {"K28": n28, "K4": n4, "cases": total}
    if not ctx.replay and (n28 > 3 + total // 1000 or n4 > 10 + total // 100):
        nviol += 1
        ctx.violation({"kind": "file-level", "what": "formatting is no longer idempotent in one pass on many inputs "
                       "(two-pass convergence classes K28=%d K4=%d in %d cases)" % (n28, n4, total),
                       "file_case": next((c for c, i in zip(cases, impl) if i.startswith("known K28") or i.startswith("known K4 ")), "")})
    stats["file_evaluations"] = total
    stats["file_distinct_nontrivial"] = nontrivial
    stats["file_violations"] = nviol
    stats["file_rule"] = ("seed-independent: regression witnesses corpus/C08/{K,W}*.cue; every 8th (quick) / every (thorough) "
                          "deduplicated parseable .cue source of the repository (files and txtar sections), each under formatter "
                          "v1 and v2, with and without Simplify; a FIXED-seed stream of mutants of corpus sources (classes W whitespace, "
                          "C comments at end of line / own line / doc / file start,end, P parentheses, M commas, T token edits) and of "
                          "generated programs with comments and randomised layout. seed-dependent (VERIF_SEED): the same mutators "
                          "without class C on corpus sources whose comments were removed, and generated programs without comments. "
                          "Both streams also contain generated operator chains (2-5 operands, mostly mixing the operators of one "
                          "precedence level: + -, * /, comparisons) with `//` comments behind operators, as field values, list "
                          "elements and call arguments (comments kept in the seed-dependent stream for this narrow shape). "
                          "Mutants that no longer parse are the malformed stream (must be rejected). non-trivial: corpus files and "
                          "sources longer than 200 bytes")


def run(ctx):
    quick = ctx.tier == "quick"
    proof = vlib.prove("C08", extra_targets=["theories/Extract/C08.vo"])
    if not quick:
        proof.update(vlib.coqchk("C08"))
        if proof["coqchk_rc"] != 0:
            raise vlib.CheckFailure("coqchk failed: " + proof["coqchk_tail"])
    exe = vlib.build_model("C08", "extract/C08.v", "ocaml/c08_driver.ml")
    harness, hsecs = vlib.build_harness("c08")
    stats = {}
    expr_level(ctx, exe, harness, quick, stats)
    file_level(ctx, quick, stats)
    ctx.coverage.update({
        "obligations": proof["obligations"],
        "discharged": proof["discharged"],
        "checker_cmd": proof["checker_cmd"] + ("; coqchk -silent -o Verif.Properties.C08" if not quick else ""),
        "trusted_base": TRUSTED,
        "theorems": proof["theorems"],
        "axioms_reported": proof["axioms"],
        "audit_files": proof["audit_files"],
        "evaluations": stats.get("expr_evaluations", 0) + stats.get("file_evaluations", 0),
        "distinct_nontrivial": stats.get("expr_distinct_nontrivial", 0) + stats.get("file_distinct_nontrivial", 0),
        "rule": "expression level: PR = random expression trees (depth 1-5, all 16 binary and 12 unary operators, selectors, index, calls with 0-3 arguments, a quarter with random ParenExpr nodes) built as position-free ASTs, printed by format.Node under both formatters, output scanned and re-parsed; PA = token sequences printed from random trees with necessary plus random redundant parentheses and optional trailing commas, one fifth corrupted by 1-2 random token edits (the malformed stream), parsed by cue/parser, formatted by both formatters, formatted again; SC = character sequences of 1-7 lexical pieces with random blanks and stray bytes, scanned by cue/scanner. non-trivial: PR tree of >= 4 nodes, PA >= 5 tokens, SC >= 3 tokens in the modelled fragment; counted over distinct case lines. file level: see file_* keys",
        "samples": stats.pop("samples", []),
        "harness_build_s": hsecs,
        "proof": {k: v for k, v in proof.items() if k.startswith("coqchk") or k in ("make_s",)},
        "known_classes": KNOWN,
    })
    ctx.coverage.update(stats)
    ctx.assumptions.extend(TRUSTED)


MANIFEST = {
    "category": "proof",
    "text": "Coq theorems about a token-level model of CUE expressions, for all trees and all token lists: the parser model returns exactly the tree whose parentheses the old printer (node.go) emits (parse (print e) = canon e, unparen (canon e) = unparen e), so no parenthesis can be dropped or misplaced; print . parse is idempotent and reaches its normal form in one step; the only tree change is the collapse of directly nested parentheses; on parser-produced trees the default printer (internal/pretty) prints the same tokens; a separated token sequence scans back to itself and layout-dependent blanks are never needed. The model is tied to /repo by exact agreement of scanner tokens, parser trees and formatter output tokens for both formatters on generated trees, token soups and character sequences. Formatting whole files (comments, layout, declarations, -s) is explored directly on the implementation: every embedded .cue source, its mutations and generated programs must format, be byte-identical when formatted again, and keep their position-free structural dump.",
    "note": "Trusted: Coq kernel; hand-written models of scanner/parser/printers for expressions only; extraction and drivers. NOT modelled: whitespace/comment interleaving (printer.go), the internal/pretty layout engine, declarations, simplify.go - covered only by direct exploration of format.Source on the corpus, mutants and generated programs. Known deviations K26 (K1 - formatter v1 glued `<` `-` - is fixed; K2 - formatter v2 glued INT `.` - is fixed; v2 on paren-free ASTs flattens right-nested | & chains; K25 - v2 dropped parentheses around unary operands of postfix operators - is fixed) are modelled and reported as KNOWN-FINDING.",
    "technique": "Coq proof (precedence-climbing parser vs precedence printer; scanner separation) + extracted-model differential check + direct round-trip exploration on files",
}
