"""Shared machinery for /verif checks.

One run of a check:
  audit      - grep the Coq tree for Admitted/Axiom/... (any hit fails the run)
  proof      - make the property's .vo closure, re-run coqc on Properties/<ID>.v,
               parse Print Assumptions
  harness    - go build -overlay of harness/<id> inside /repo's module (working tree)
  model      - extracted OCaml driver (built by proof step) and/or vm_compute
  diff       - property specific (checks/<ID>.py)
  evidence   - evidence/<ID>.json
"""
import fcntl
import hashlib
import json
import os
import re
import shutil
import subprocess
import sys
import time

VERIF = os.path.dirname(os.path.dirname(os.path.abspath(__file__)))
REPO = os.environ.get("VERIF_REPO", "/repo")
BUILD = os.path.join(VERIF, "build")
COQ = os.path.join(VERIF, "coq")

# Axioms of the Coq standard library that a theorem may depend on (named in
# DESIGN.md section 6).  Anything else reported by Print Assumptions fails.
ALLOWED_AXIOMS = {
    "functional_extensionality_dep",
    "FunctionalExtensionality.functional_extensionality_dep",
    "proof_irrelevance",
    "ProofIrrelevance.proof_irrelevance",
    "Classical_Prop.classic",
    "classic",
    "JMeq_eq",
    "JMeq.JMeq_eq",
    "Eqdep.Eq_rect_eq.eq_rect_eq",
    "eq_rect_eq",
}

AUDIT_RE = re.compile(
    r"\b(Admitted|admit|Axiom|Axioms|Parameter|Parameters|Conjecture|Conjectures|Abort All|"
    r"Unset\s+Guard\s+Checking|Unset\s+Positivity\s+Checking|Unset\s+Universe\s+Checking|"
    r"bypass_check|Admit\s+Obligations|give_up|type-in-type|impredicative-set|"
    r"Extract\s+Constant|Extract\s+Inductive|Extract\s+Inlined\s+Constant|native_compute)\b"
)


class CheckFailure(Exception):
    pass


def log(*a):
    print(*a, file=sys.stderr, flush=True)


def go_env():
    env = dict(os.environ)
    env["GOFLAGS"] = "-mod=mod"
    env["GOPROXY"] = "off"
    env.pop("GOTOOLCHAIN", None)
    env.pop("GOSUMDB", None)
    env.setdefault("GOCACHE", os.path.expanduser("~/.cache/go-build"))
    return env


class Lock:
    def __init__(self, name):
        os.makedirs(BUILD, exist_ok=True)
        self.path = os.path.join(BUILD, name + ".lock")

    def __enter__(self):
        self.f = open(self.path, "w")
        fcntl.flock(self.f, fcntl.LOCK_EX)
        return self

    def __exit__(self, *a):
        fcntl.flock(self.f, fcntl.LOCK_UN)
        self.f.close()


def run(cmd, cwd=None, env=None, timeout=None, check=True, input=None, stdout=subprocess.PIPE,
        stderr=subprocess.STDOUT):
    p = subprocess.run(cmd, cwd=cwd, env=env, timeout=timeout, input=input, stdout=stdout,
                       stderr=stderr, text=True, shell=isinstance(cmd, str))
    if check and p.returncode != 0:
        raise CheckFailure("command failed (%d): %s\n%s" % (p.returncode, cmd, (p.stdout or "")[-4000:]))
    return p


# ---------------------------------------------------------------- audit ----

def strip_coq_comments(src):
    out = []
    depth = 0
    i = 0
    n = len(src)
    in_str = False
    while i < n:
        c = src[i]
        if depth == 0 and c == '"':
            in_str = not in_str
            out.append(c)
            i += 1
            continue
        if not in_str and src.startswith("(*", i):
            depth += 1
            i += 2
            continue
        if not in_str and depth > 0 and src.startswith("*)", i):
            depth -= 1
            i += 2
            continue
        if depth == 0:
            out.append(c)
        elif c == "\n":
            out.append(c)
        i += 1
    return "".join(out)


def coq_closure(roots):
    """Transitive closure of `From Verif Require ... X.Y` / `Require Import Verif.X.Y` over our own files."""
    seen = {}
    todo = list(roots)
    while todo:
        f = todo.pop()
        if f in seen or not os.path.exists(f):
            continue
        src = strip_coq_comments(open(f).read())
        seen[f] = True
        mods = set()
        for m in re.finditer(r"From\s+Verif\s+Require\s+(?:Import\s+|Export\s+)?((?:[A-Za-z_][\w']*(?:\.[A-Za-z_][\w']*)*\s*)+)\.(?=\s|$)", src):
            for name in m.group(1).split():
                mods.add(name)
        for m in re.finditer(r"Require\s+(?:Import\s+|Export\s+)?((?:Verif\.[\w'.]+\s+)*Verif\.[\w']+(?:\.[\w']+)*)\s*\.(?=\s|$)", src):
            for name in m.group(1).split():
                mods.add(name[len("Verif."):])
        for name in mods:
            todo.append(os.path.join(COQ, "theories", *name.split(".")) + ".v")
    return sorted(seen)


def audit(roots=None):
    """Scan .v files for escape hatches: the dependency closure of `roots` (paths), or the whole tree."""
    hits = []
    files = []
    if roots is not None:
        files = coq_closure(roots)
    else:
        for sub in ("theories", "extract"):
            for root, _, names in os.walk(os.path.join(COQ, sub)):
                for nm in names:
                    if nm.endswith(".v"):
                        files.append(os.path.join(root, nm))
    for f in sorted(files):
        src = strip_coq_comments(open(f).read())
        # Variables / Hypotheses are only allowed inside sections.
        depth = 0
        for ln, line in enumerate(src.split("\n"), 1):
            m = AUDIT_RE.search(line)
            if m:
                hits.append("%s:%d: %s" % (os.path.relpath(f, VERIF), ln, line.strip()))
            if re.match(r"\s*Section\b", line):
                depth += 1
            elif re.match(r"\s*End\b", line) and depth > 0:
                # may close a Module; only count if we are in a section -- modules are not used
                depth -= 1
            elif re.match(r"\s*(Module)\b", line):
                depth += 1  # treat Module..End like sections for nesting only
            if depth == 0 and re.match(r"\s*(Variable|Variables|Hypothesis|Hypotheses|Context)\b", line):
                hits.append("%s:%d: section-less %s" % (os.path.relpath(f, VERIF), ln, line.strip()))
    pj = os.path.join(COQ, "_CoqProject")
    if os.path.exists(pj) and AUDIT_RE.search(open(pj).read()):
        hits.append("_CoqProject: forbidden flag")
    return len(files), hits


# ---------------------------------------------------------------- proof ----

def coq_makefile():
    """(Re)generate _CoqProject and Makefile from the files on disk."""
    vs = []
    for root, _, names in os.walk(os.path.join(COQ, "theories")):
        for nm in names:
            if nm.endswith(".v"):
                vs.append(os.path.relpath(os.path.join(root, nm), COQ))
    vs.sort()
    content = "-Q theories Verif\n-arg -w -arg -notation-overridden,-deprecated-hint-without-locality,-deprecated-instance-without-locality\n" + "\n".join(vs) + "\n"
    p = os.path.join(COQ, "_CoqProject")
    old = open(p).read() if os.path.exists(p) else None
    if old != content or not os.path.exists(os.path.join(COQ, "Makefile")):
        with open(p, "w") as f:
            f.write(content)
        run(["coq_makefile", "-f", "_CoqProject", "-o", "Makefile"], cwd=COQ)


def coq_build(targets, timeout=3000, jobs=16):
    """Full .vo build of the given targets (paths relative to coq/, '.vo')."""
    with Lock("coq"):
        coq_makefile()
        t0 = time.time()
        p = run(["timeout", str(timeout), "make", "-j%d" % jobs] + targets, cwd=COQ, check=False)
        return p.returncode, p.stdout, time.time() - t0


def coq_deps(f):
    """Direct dependencies (our own .v files) of a .v file."""
    return [d for d in coq_closure_direct(f)]


def coq_closure_direct(f):
    src = strip_coq_comments(open(f).read())
    mods = set()
    for m in re.finditer(r"From\s+Verif\s+Require\s+(?:Import\s+|Export\s+)?((?:[A-Za-z_][\w']*(?:\.[A-Za-z_][\w']*)*\s*)+)\.(?=\s|$)", src):
        for name in m.group(1).split():
            mods.add(name)
    for m in re.finditer(r"Require\s+(?:Import\s+|Export\s+)?((?:Verif\.[\w'.]+\s+)*Verif\.[\w']+(?:\.[\w']+)*)\s*\.(?=\s|$)", src):
        for name in m.group(1).split():
            mods.add(name[len("Verif."):])
    out = []
    for name in sorted(mods):
        p = os.path.join(COQ, "theories", *name.split(".")) + ".v"
        if os.path.exists(p):
            out.append(p)
    return out


def coq_build_closure(roots, timeout=3000):
    """Compile (full .vo) the dependency closure of the given .v files with coqc, in dependency order,
    recompiling what is out of date.  Only the top-level directories involved are locked, so checks of
    unrelated properties do not wait for each other (no shared make / coqdep state)."""
    order = []
    state = {}

    def visit(f):
        if state.get(f) == 2:
            return
        if state.get(f) == 1:
            raise CheckFailure("circular dependency at " + f)
        state[f] = 1
        for d in coq_closure_direct(f):
            visit(d)
        state[f] = 2
        order.append(f)

    for r in roots:
        if os.path.exists(r):
            visit(r)
    def area(f):
        parts = os.path.relpath(f, os.path.join(COQ, "theories")).split(os.sep)
        if parts[0] in ("Properties", "Extract"):      # one file per property: lock per file
            return parts[0] + "-" + parts[-1]
        return parts[0]
    areas = sorted({area(f) for f in order if f.startswith(os.path.join(COQ, "theories"))})
    locks = [Lock("coq-" + a) for a in areas]
    t0 = time.time()
    log_out = []
    for l in locks:
        l.__enter__()
    try:
        rebuilt = set()
        for f in order:
            if not f.startswith(os.path.join(COQ, "theories")):
                continue
            vo = f[:-2] + ".vo"
            deps = coq_closure_direct(f)
            stale = (not os.path.exists(vo)) or os.path.getmtime(vo) < os.path.getmtime(f) or any(
                d in rebuilt or os.path.getmtime(d[:-2] + ".vo") > os.path.getmtime(vo) for d in deps)
            if not stale:
                continue
            p = run(["timeout", str(timeout), "coqc", "-Q", "theories", "Verif",
                     "-w", "-notation-overridden,-deprecated-hint-without-locality,-deprecated-instance-without-locality",
                     os.path.relpath(f, COQ)], cwd=COQ, check=False)
            log_out.append("COQC " + os.path.relpath(f, COQ))
            if p.returncode != 0:
                return p.returncode, "\n".join(log_out) + "\n" + p.stdout, time.time() - t0
            rebuilt.add(f)
    finally:
        for l in reversed(locks):
            l.__exit__()
    return 0, "\n".join(log_out), time.time() - t0


def properties_file(pid):
    return os.path.join("theories", "Properties", pid + ".v")


def count_theorems(path):
    src = strip_coq_comments(open(path).read())
    return re.findall(r"^\s*(?:Theorem|Lemma|Corollary|Example|Fact)\s+([A-Za-z0-9_']+)", src, re.M)


def parse_assumptions(out):
    """Parse the output of several 'Print Assumptions x.' commands.
    Returns list of (closed: bool, axioms: [names])."""
    res = []
    blocks = re.split(r"(?=Closed under the global context|Axioms:)", out)
    for b in blocks:
        if b.startswith("Closed under the global context"):
            res.append((True, []))
        elif b.startswith("Axioms:"):
            names = []
            for line in b.split("\n")[1:]:
                m = re.match(r"^([A-Za-z0-9_.']+)\s*:", line)
                if m:
                    names.append(m.group(1))
                elif line and not line.startswith(" ") and not re.match(r"^[A-Za-z0-9_.']+\s*$", line):
                    # end of the block (another message)
                    pass
            res.append((False, names))
    return res


def prove(pid, extra_targets=(), timeout=3000):
    """Build Properties/<pid>.vo and everything it needs, then re-run coqc on the
    property file to capture Print Assumptions.  Returns a dict for evidence;
    raises CheckFailure (with .proof attribute) when an obligation is not discharged."""
    roots = [os.path.join(COQ, properties_file(pid)), os.path.join(COQ, "extract", pid + ".v"),
             os.path.join(COQ, "theories", "Extract", pid + ".v")]
    roots += [os.path.join(COQ, t[:-1]) for t in extra_targets if t.endswith(".vo")]
    nfiles, hits = audit(roots)
    info = {"audit_files": nfiles, "audit_hits": hits, "audit_scope": "dependency closure of Properties/%s.v and its extraction files" % pid}
    if hits:
        e = CheckFailure("audit found forbidden constructs:\n" + "\n".join(hits))
        e.info = info
        raise e
    vfile = properties_file(pid)
    target = vfile[:-2] + ".vo"
    rc, out, secs = coq_build_closure([os.path.join(COQ, vfile)] +
                                      [os.path.join(COQ, t[:-1]) for t in extra_targets if t.endswith(".vo")],
                                      timeout=timeout)
    info["make_s"] = round(secs, 1)
    if rc != 0:
        e = CheckFailure("coq build failed for %s:\n%s" % (pid, out[-6000:]))
        e.info = info
        raise e
    # Re-run coqc on the property file alone (cheap: contains only `exact`s).
    with Lock("coq-Properties-" + pid):
        p = run(["timeout", "600", "coqc", "-Q", "theories", "Verif", vfile], cwd=COQ, check=False)
    if p.returncode != 0:
        e = CheckFailure("coqc %s failed:\n%s" % (vfile, p.stdout[-4000:]))
        e.info = info
        raise e
    thms = count_theorems(os.path.join(COQ, vfile))
    ass = parse_assumptions(p.stdout)
    info["theorems"] = thms
    info["obligations"] = len(thms)
    bad = []
    axioms = set()
    for closed, names in ass:
        for nm in names:
            axioms.add(nm)
            if nm not in ALLOWED_AXIOMS and nm.split(".")[-1] not in ALLOWED_AXIOMS:
                bad.append(nm)
    info["print_assumptions_blocks"] = len(ass)
    info["axioms"] = sorted(axioms)
    if len(ass) < len(thms):
        e = CheckFailure("%s: %d theorems but only %d Print Assumptions results" % (vfile, len(thms), len(ass)))
        e.info = info
        raise e
    if bad:
        e = CheckFailure("%s: non-admissible axioms: %s" % (vfile, ", ".join(bad)))
        e.info = info
        raise e
    info["discharged"] = len(thms)
    info["checker_cmd"] = "coqc (full .vo, dependency closure of %s in dependency order) && coqc -Q theories Verif %s (Print Assumptions parsed)" % (vfile, vfile)
    return info


def coqchk(pid, timeout=3600):
    """Independent re-check of the compiled property file and its closure."""
    mod = "Verif.Properties." + pid
    with Lock("coq"):
        t0 = time.time()
        p = run(["timeout", str(timeout), "coqchk", "-silent", "-o", "-Q", "theories", "Verif", mod], cwd=COQ, check=False)
    return {"coqchk_rc": p.returncode, "coqchk_s": round(time.time() - t0, 1), "coqchk_tail": p.stdout[-3000:]}


# ------------------------------------------------------------- extraction ----

def build_model(pid, extract_v, driver_ml, extra_ml=()):
    """Extract theories/Extract/<X>.v into build/ocaml/<pid>/ and compile the driver.
    extract_v: path relative to coq/ ; its .vo closure must already be built.
    The extraction file writes its .ml into the cwd of coqc."""
    out = os.path.join(BUILD, "ocaml", pid.lower())
    os.makedirs(out, exist_ok=True)
    exe = os.path.join(out, "modelrun")
    srcs = [os.path.join(COQ, extract_v), os.path.join(VERIF, driver_ml)] + [os.path.join(VERIF, x) for x in extra_ml]
    h = hashlib.sha256()
    for s in srcs:
        h.update(open(s, "rb").read())
    # depend on the dependency closure of the extraction file
    for f in coq_closure([os.path.join(COQ, extract_v)]):
        h.update(open(f, "rb").read())
    stamp = os.path.join(out, "stamp")
    if os.path.exists(exe) and os.path.exists(stamp) and open(stamp).read() == h.hexdigest():
        return exe
    with Lock("ocaml-" + pid.lower()):
        for f in os.listdir(out):
            if f.endswith((".ml", ".mli", ".cmi", ".cmx", ".o", ".cmo")):
                os.remove(os.path.join(out, f))
        run(["timeout", "900", "coqc", "-Q", os.path.join(COQ, "theories"), "Verif", "-o", os.path.join(out, os.path.basename(extract_v) + "o"),
             os.path.join(COQ, extract_v)], cwd=out)
        mls = sorted(f for f in os.listdir(out) if f.endswith(".ml"))
        mlis = sorted(f for f in os.listdir(out) if f.endswith(".mli"))
        drv = os.path.basename(driver_ml)
        shutil.copy(os.path.join(VERIF, driver_ml), os.path.join(out, drv))
        for x in extra_ml:
            shutil.copy(os.path.join(VERIF, x), os.path.join(out, os.path.basename(x)))
        extra = [os.path.basename(x) for x in extra_ml]
        run(["ocamlfind", "ocamlopt", "-O2" if False else "-unsafe", "-w", "-a", "-package", "str", "-linkpkg", "-o", exe] + mlis + mls + extra + [drv], cwd=out)
        with open(stamp, "w") as f:
            f.write(h.hexdigest())
    return exe


# ---------------------------------------------------------------- harness ----

def build_harness(hid, shims=None, race=False, tags=None):
    """Build harness/<hid>/*.go as package main at /repo/internal/verifharness/<hid>
    through `go build -overlay`; harness/common/*.go becomes
    cuelang.org/go/internal/verifharness/common.  `shims` maps a path relative
    to /repo to a file under /verif (re-export shims added next to unexported code).
    Nothing is written under /repo."""
    os.makedirs(BUILD, exist_ok=True)
    repl = {}
    hdir = os.path.join(VERIF, "harness", hid)
    for nm in sorted(os.listdir(hdir)):
        if nm.endswith(".go"):
            repl[os.path.join(REPO, "internal", "verifharness", hid, nm)] = os.path.join(hdir, nm)
    cdir = os.path.join(VERIF, "harness", "common")
    for nm in sorted(os.listdir(cdir)):
        if nm.endswith(".go"):
            repl[os.path.join(REPO, "internal", "verifharness", "common", nm)] = os.path.join(cdir, nm)
    for rel, src in (shims or {}).items():
        repl[os.path.join(REPO, rel)] = os.path.join(VERIF, src)
    # a run against a private copy of the repository (VERIF_REPO, used for seeded changes) must not
    # overwrite the binaries of runs against /repo
    alt = "" if REPO == "/repo" else "-alt" + hashlib.sha256(REPO.encode()).hexdigest()[:8]
    ov = os.path.join(BUILD, "overlay-%s%s.json" % (hid, alt))
    with open(ov, "w") as f:
        json.dump({"Replace": repl}, f, indent=1)
    exe = os.path.join(BUILD, "harness-%s%s%s" % (hid, "-race" if race else "", alt))
    cmd = ["go", "build", "-overlay", ov, "-o", exe]
    if race:
        cmd.append("-race")
    if tags:
        cmd += ["-tags", tags]
    cmd.append("./internal/verifharness/" + hid)
    t0 = time.time()
    with Lock("go-" + hid + alt):
        p = run(cmd, cwd=REPO, env=go_env(), timeout=1800, check=False)
    if p.returncode != 0:
        raise CheckFailure("harness build failed (correspondence cannot be established):\n" + p.stdout[-6000:])
    return exe, round(time.time() - t0, 1)


# ---------------------------------------------------------------- evidence ----

def repo_state():
    try:
        head = run(["git", "-C", REPO, "rev-parse", "HEAD"]).stdout.strip()
        dirty = run(["git", "-C", REPO, "status", "--porcelain"]).stdout.strip()
        return {"head": head, "dirty_files": len(dirty.splitlines())}
    except Exception as e:  # pragma: no cover
        return {"error": str(e)}


def write_evidence(pid, tier, seed, level, coverage, wall_s, violations, assumptions, alt=False):
    os.makedirs(os.path.join(VERIF, "evidence"), exist_ok=True)
    ev = {
        "property_id": pid,
        "tier": tier,
        "seed": int(seed),
        "level": level,
        "coverage": coverage,
        "assumptions": assumptions,
        "wall_s": round(wall_s, 2),
        "violations": int(violations),
        "repo": repo_state(),
    }
    edir = os.path.join(VERIF, "evidence")
    if alt or os.path.realpath(REPO) != "/repo":
        # a run against a private worktree (mutation testing through VERIF_REPO) must not overwrite the
        # evidence of /repo itself
        edir = os.path.join(VERIF, "build", "evidence-alt")
        os.makedirs(edir, exist_ok=True)
    p = os.path.join(edir, pid + ".json")
    tmp = p + ".tmp%d" % os.getpid()
    with open(tmp, "w") as f:
        json.dump(ev, f, indent=1, sort_keys=True)
        f.write("\n")
    os.replace(tmp, p)
    return p


def write_replay(pid, seed, n, payload):
    os.makedirs(os.path.join(VERIF, "replays"), exist_ok=True)
    p = os.path.join(VERIF, "replays", "%s-%s-%d.json" % (pid, seed, n))
    with open(p, "w") as f:
        json.dump(payload, f, indent=1, sort_keys=True)
        f.write("\n")
    return p


def known_findings(pid):
    p = os.path.join(VERIF, "known_findings.json")
    if not os.path.exists(p):
        return []
    return [k for k in json.load(open(p)) if k.get("property") == pid]


class Ctx:
    """Per-run context handed to checks/<ID>.py: run(ctx)."""

    def __init__(self, pid, tier, seed, replay=None):
        self.pid = pid
        self.tier = tier
        self.seed = seed
        self.replay = replay
        self.t0 = time.time()
        self.violations = []      # (replay_path, suffix)
        self.known = []           # strings
        self.coverage = {}
        self.assumptions = []
        self.level = "proof"
        self.work = os.path.join(BUILD, "%s-%d" % (pid, os.getpid()))
        os.makedirs(self.work, exist_ok=True)

    def violation(self, payload, no_input=False):
        n = len(self.violations)
        # a replay run must never overwrite the replay file it was given
        tag = ("%s-replay" % self.seed) if self.replay else self.seed
        path = write_replay(self.pid, tag, n, payload)
        self.violations.append((path, no_input))
        return path

    def known_finding(self, text):
        if text not in self.known:
            self.known.append(text)

    def cleanup(self):
        shutil.rmtree(self.work, ignore_errors=True)


def splitmix64(state):
    state = (state + 0x9E3779B97F4A7C15) & 0xFFFFFFFFFFFFFFFF
    z = state
    z = ((z ^ (z >> 30)) * 0xBF58476D1CE4E5B9) & 0xFFFFFFFFFFFFFFFF
    z = ((z ^ (z >> 27)) * 0x94D049BB133111EB) & 0xFFFFFFFFFFFFFFFF
    return state, z ^ (z >> 31)
