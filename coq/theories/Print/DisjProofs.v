(* C07 - round trip of printed disjunctions with defaults (Print/DisjModel.v) w.r.t. the
   order-free disjunction semantics of Core/Disj.v. *)
From Verif Require Import Core.Syntax Core.Eval Core.Laws Core.Disj Print.Model Print.ScalProofs Print.Proofs Print.DisjModel.
From Coq Require Import List Bool ZArith NArith Lia.
Import ListNotations.

Section D.
  Variable labs : list label.
  Variable atoms : list atom.
  Variable f : nat.

  (* a node all of whose conjuncts are scalars evaluates to the scalar result of their constraints *)
  Lemma eval_pure es :
    forallb pure_scalar es = true ->
    evalNode labs atoms (S f) [mkConj false es] = sres atoms (flat_map scal_of es).
  Proof.
    intros H. unfold evalNode, flat_all. cbn [fold_right]. unfold flat_conj. cbn [c_rec c_exprs].
    rewrite (flat_exprs_pure false es H). cbn. rewrite app_nil_r. unfold sres. reflexivity.
  Qed.

  Lemma sres_err cs : res_err (sres atoms cs) = scalar_bottom cs.
  Proof. unfold sres. destruct (scalar_bottom cs); reflexivity. Qed.

  Lemma tuple_val_pure plain t :
    forallb pure_scalar plain = true -> forallb (fun c => pure_scalar (snd c)) t = true ->
    tuple_val labs atoms (S f) plain t = sres atoms (tuple_scal plain t).
  Proof.
    intros Hp Ht. unfold tuple_val, tuple_scal. apply eval_pure.
    rewrite forallb_app, Hp. cbn. rewrite forallb_forall in *. intros e He.
    apply in_map_iff in He as (c & <- & Hc). apply Ht. exact Hc.
  Qed.

  Lemma tuples_single (D : disj) : tuples [D] = map (fun c => [c]) D.
  Proof. induction D as [|c D IH]; [reflexivity|]. cbn in *. rewrite IH. reflexivity. Qed.

  Lemma filter_all {A} (p : A -> bool) l : (forall x, In x l -> p x = true) -> filter p l = l.
  Proof.
    induction l as [|x l IH]; [reflexivity|]. intros H. cbn. rewrite (H x (or_introl eq_refl)).
    f_equal. apply IH. intros y Hy. apply H. right. exact Hy.
  Qed.

  Lemma printed_tuple_val m cs :
    scalar_bottom cs = false ->
    tuple_val labs atoms (S f) [] [(m, print_scal cs)] = sres atoms cs.
  Proof.
    intros H. rewrite tuple_val_pure; [| reflexivity | cbn; unfold print_scal; rewrite pure_print_raw; reflexivity].
    unfold tuple_scal. cbn. rewrite app_nil_r. unfold print_scal. rewrite scal_of_print_raw.
    apply sres_equiv, canon_scal_equiv. exact H.
  Qed.

  Lemma eff_marked_single (D : disj) :
    eff_marked (map (fun c => [c]) D) 0 = existsb fst D.
  Proof.
    unfold eff_marked. induction D as [|[m e] D IH]; [reflexivity|]. cbn. rewrite IH. reflexivity.
  Qed.

  Lemma existsb_fst_print d : existsb fst (print_sdisj d) = sd_has_default d.
  Proof. unfold print_sdisj, sd_has_default. induction d as [|x d IH]; [reflexivity|]. cbn. rewrite IH. reflexivity. Qed.

  Lemma pair_single (D : disj) :
    (forall c, In c D -> survives labs atoms (S f) [] [c] = true) ->
    pair_of labs atoms (S f) [] [D] =
    map (fun c => (tuple_val labs atoms (S f) [] [c], existsb fst D && fst c)) D.
  Proof.
    intros H. unfold pair_of, survivors. rewrite tuples_single.
    rewrite filter_all.
    2:{ intros t Ht. apply in_map_iff in Ht as (c & <- & Hc). apply H. exact Hc. }
    rewrite map_map. apply map_ext. intros c. f_equal.
    unfold is_default. cbn [length seq existsb forallb]. rewrite eff_marked_single.
    unfold uses_marked. cbn [nth_error]. destruct c as [m e]. cbn [fst].
    destruct (existsb fst D), m; reflexivity.
  Qed.

  (* eval (print v) = v for an evaluated disjunction: every disjunct survives with its value, and
     the default flags are the marks *)
  Theorem eval_print_sdisj d :
    sd_wf d = true ->
    pair_of labs atoms (S f) [] [print_sdisj d] = sd_denote atoms d.
  Proof.
    intros W. unfold sd_wf in W. rewrite forallb_forall in W.
    rewrite pair_single.
    2:{ intros c Hc. unfold print_sdisj in Hc. apply in_map_iff in Hc as (x & <- & Hx). unfold survives. cbn [fst snd].
        specialize (W x Hx). apply negb_true_iff in W.
        rewrite printed_tuple_val by exact W. rewrite sres_err, W. reflexivity. }
    rewrite existsb_fst_print. unfold print_sdisj, sd_denote. rewrite map_map.
    apply map_ext_in. intros x Hx. cbn [fst snd].
    specialize (W x Hx). apply negb_true_iff in W.
    rewrite printed_tuple_val by exact W. reflexivity.
  Qed.

  (* ---- adt.Default -------------------------------------------------------------------------- *)
  Lemma dedup_nil l : dedup l = [] -> l = [].
  Proof.
    induction l as [|r l IH]; [reflexivity|]. cbn. destruct (mem_res r l) eqn:E; [|discriminate].
    intros H. rewrite (IH H) in E. discriminate.
  Qed.

  Lemma has_default_take_none d : sd_has_default (take_defaults d) = false.
  Proof.
    unfold take_defaults. destruct (sd_has_default d) eqn:E; [|exact E].
    unfold sd_has_default. induction (filter fst d) as [|x l IH]; [reflexivity|]. cbn. exact IH.
  Qed.

  Lemma denote_defaults_filter d :
    sd_has_default d = true ->
    map fst (filter snd (sd_denote atoms d)) = map fst (sd_denote atoms (take_defaults d)).
  Proof.
    intros E. unfold take_defaults. rewrite E. unfold sd_denote at 1. rewrite E.
    unfold sd_denote. rewrite !map_map. cbn [fst snd]. clear E.
    induction d as [|[m cs] d IH]; [reflexivity|]. cbn [map filter fst snd andb].
    destruct m; cbn [map fst snd]; [f_equal|]; exact IH.
  Qed.

  Lemma filter_snd_none d : sd_has_default d = false -> filter snd (sd_denote atoms d) = [].
  Proof.
    intros E. unfold sd_denote. rewrite E. clear E. induction d as [|x d IH]; [reflexivity|]. cbn. exact IH.
  Qed.

  (* the value written under TakeDefaults has no defaults of its own, and its values are the
     defaults of the original (all values when there is no default) *)
  Theorem take_defaults_values d :
    defaults (sd_denote atoms (take_defaults d)) = [] /\
    values (sd_denote atoms (take_defaults d)) =
      if sd_has_default d then defaults (sd_denote atoms d) else values (sd_denote atoms d).
  Proof.
    split.
    - unfold defaults. rewrite filter_snd_none by apply has_default_take_none. reflexivity.
    - destruct (sd_has_default d) eqn:E.
      + unfold values, defaults. rewrite (denote_defaults_filter d E). reflexivity.
      + unfold take_defaults. rewrite E. reflexivity.
  Qed.

  (* ... hence it resolves to the same value as the original: what cue export / a concrete
     consumer sees is unchanged by Final() *)
  Theorem take_defaults_resolve d :
    resolve (sd_denote atoms (take_defaults d)) = resolve (sd_denote atoms d).
  Proof.
    destruct (take_defaults_values d) as [D V]. unfold resolve at 1. rewrite D, V.
    destruct (sd_has_default d) eqn:E.
    - unfold resolve. destruct (defaults (sd_denote atoms d)) as [|a [|b l]] eqn:F; try reflexivity.
      exfalso. unfold defaults in F. apply dedup_nil in F. apply map_eq_nil in F.
      unfold sd_denote in F. rewrite E in F. unfold sd_has_default in E.
      apply existsb_exists in E as (x & Hx & Hm).
      assert (In (sres atoms (snd x), true && fst x) (filter snd (map (fun x => (sres atoms (snd x), true && fst x)) d))).
      { apply filter_In. split; [apply in_map_iff; exists x; auto | cbn; exact Hm]. }
      rewrite F in H. exact H.
    - unfold resolve. unfold defaults. rewrite (filter_snd_none d E). reflexivity.
  Qed.

  (* ---- normalisation ------------------------------------------------------------------------- *)
  Lemma in_tuples_pure ds : forallb pure_disj ds = true ->
    forall t, In t (tuples ds) -> forallb (fun c => pure_scalar (snd c)) t = true.
  Proof.
    induction ds as [|D ds IH]; cbn [tuples]; intros H t Ht.
    - destruct Ht as [<-|[]]. reflexivity.
    - cbn in H. apply andb_true_iff in H as [HD Hds]. apply in_flat_map in Ht as (c & Hc & Ht).
      apply in_map_iff in Ht as (t' & <- & Ht'). cbn. rewrite (IH Hds t' Ht'), andb_true_r.
      unfold pure_disj in HD. rewrite forallb_forall in HD. apply HD. exact Hc.
  Qed.

  Lemma normalize_sdisj_wf plain ds :
    forallb pure_scalar plain = true -> forallb pure_disj ds = true ->
    sd_wf (normalize_sdisj labs atoms (S f) plain ds) = true.
  Proof.
    intros Hp Hd. unfold sd_wf, normalize_sdisj. rewrite forallb_forall. intros x Hx.
    apply in_map_iff in Hx as (t & <- & Ht). cbn [snd]. unfold survivors in Ht. apply filter_In in Ht as [Ht S1].
    unfold survives in S1. rewrite tuple_val_pure in S1; [| exact Hp | exact (in_tuples_pure ds Hd t Ht)].
    rewrite sres_err in S1. exact S1.
  Qed.

  Lemma has_default_normalize plain ds t :
    In t (survivors labs atoms (S f) plain ds) ->
    is_default (length ds) (survivors labs atoms (S f) plain ds) t = true ->
    sd_has_default (normalize_sdisj labs atoms (S f) plain ds) = true.
  Proof.
    intros Ht Hd. unfold sd_has_default, normalize_sdisj. apply existsb_exists.
    exists (is_default (length ds) (survivors labs atoms (S f) plain ds) t, tuple_scal plain t).
    split; [|exact Hd]. apply in_map_iff. exists t. auto.
  Qed.

  (* THE ROUND TRIP for disjunctions: the evaluated disjunction of a conjunction of scalars and
     disjunctions, printed with its default marks and evaluated again, has exactly the
     value/default pair of the original - the same surviving values in the same order, the same
     default flags, hence the same accepted atoms and the same resolution *)
  Theorem print_marked_roundtrip plain ds :
    forallb pure_scalar plain = true -> forallb pure_disj ds = true ->
    pair_of labs atoms (S f) [] [print_marked labs atoms (S f) plain ds] = pair_of labs atoms (S f) plain ds.
  Proof.
    intros Hp Hd. unfold print_marked. rewrite eval_print_sdisj by (apply normalize_sdisj_wf; assumption).
    unfold sd_denote. unfold normalize_sdisj at 2. rewrite map_map. unfold pair_of.
    apply map_ext_in. intros t Ht. cbn [fst snd].
    assert (Ht' := Ht). unfold survivors in Ht'. apply filter_In in Ht' as [Ht' _].
    rewrite tuple_val_pure; [| exact Hp | exact (in_tuples_pure ds Hd t Ht')]. f_equal.
    destruct (is_default (length ds) (survivors labs atoms (S f) plain ds) t) eqn:E; [|apply andb_false_r].
    rewrite (has_default_normalize plain ds t Ht E). reflexivity.
  Qed.

  (* under TakeDefaults (Final, Concrete, cue eval, cue export) the printed text resolves to the
     value the original resolves to, and its values are the original's defaults *)
  Theorem print_final_resolve plain ds :
    forallb pure_scalar plain = true -> forallb pure_disj ds = true ->
    resolve (pair_of labs atoms (S f) [] [print_final labs atoms (S f) plain ds]) =
    resolve (pair_of labs atoms (S f) plain ds).
  Proof.
    intros Hp Hd. rewrite <- (print_marked_roundtrip plain ds Hp Hd). unfold print_final, print_marked.
    assert (W := normalize_sdisj_wf plain ds Hp Hd).
    assert (W' : sd_wf (take_defaults (normalize_sdisj labs atoms (S f) plain ds)) = true).
    { unfold take_defaults. destruct (sd_has_default _); [|exact W].
      unfold sd_wf in *. rewrite forallb_forall in *. intros x Hx. apply in_map_iff in Hx as (y & <- & Hy).
      apply filter_In in Hy as [Hy _]. apply (W y Hy). }
    rewrite !eval_print_sdisj by assumption. apply take_defaults_resolve.
  Qed.

  Theorem print_final_values plain ds :
    forallb pure_scalar plain = true -> forallb pure_disj ds = true ->
    let p := pair_of labs atoms (S f) plain ds in
    values (pair_of labs atoms (S f) [] [print_final labs atoms (S f) plain ds]) =
    match defaults p with [] => values p | dv => dv end.
  Proof.
    intros Hp Hd p. subst p. rewrite <- (print_marked_roundtrip plain ds Hp Hd). unfold print_final, print_marked.
    assert (W := normalize_sdisj_wf plain ds Hp Hd).
    assert (W' : sd_wf (take_defaults (normalize_sdisj labs atoms (S f) plain ds)) = true).
    { unfold take_defaults. destruct (sd_has_default _); [|exact W].
      unfold sd_wf in *. rewrite forallb_forall in *. intros x Hx. apply in_map_iff in Hx as (y & <- & Hy).
      apply filter_In in Hy as [Hy _]. apply (W y Hy). }
    rewrite !eval_print_sdisj by assumption.
    destruct (take_defaults_values (normalize_sdisj labs atoms (S f) plain ds)) as [_ V]. rewrite V.
    destruct (sd_has_default (normalize_sdisj labs atoms (S f) plain ds)) eqn:E.
    - destruct (defaults (sd_denote atoms (normalize_sdisj labs atoms (S f) plain ds))) eqn:F; [|reflexivity].
      exfalso. unfold defaults in F. apply dedup_nil in F. apply map_eq_nil in F.
      unfold sd_denote in F. rewrite E in F. unfold sd_has_default in E.
      apply existsb_exists in E as (x & Hx & Hm).
      assert (In (sres atoms (snd x), true && fst x)
                 (filter snd (map (fun x => (sres atoms (snd x), true && fst x)) (normalize_sdisj labs atoms (S f) plain ds)))).
      { apply filter_In. split; [apply in_map_iff; exists x; auto | cbn; exact Hm]. }
      rewrite F in H. exact H.
    - unfold defaults. rewrite (filter_snd_none _ E). reflexivity.
  Qed.
End D.

(* ---- non-vacuity ------------------------------------------------------------------------------ *)
Definition dx_atoms : list atom := [AInt 1; AInt 2; AInt 3; AStr 0].
(* ( *1 | 2 | 3) & >1 & ( *2 | *3 | int): survivors 2&2 (unmarked, marked), 2&int, 3&3, 3&int *)
Definition dx_plain : list expr := [EScalar (SGt 1)].
Definition dx_ds : list disj :=
  [[(true, EScalar (SAtom (AInt 1))); (false, EScalar (SAtom (AInt 2))); (false, EScalar (SAtom (AInt 3)))];
   [(true, EScalar (SAtom (AInt 2))); (true, EScalar (SAtom (AInt 3))); (false, EScalar (SKind KInt))]].

Example dx_normal_form :
  map fst (normalize_sdisj [] dx_atoms 5 dx_plain dx_ds) = [true; false; true; false] /\
  map fst (print_final [] dx_atoms 5 dx_plain dx_ds) = [false; false] /\
  length (values (pair_of [] dx_atoms 5 [] [print_final [] dx_atoms 5 dx_plain dx_ds])) = 2%nat /\
  resolve (pair_of [] dx_atoms 5 dx_plain dx_ds) = Ambiguous.
Proof. vm_compute. repeat split. Qed.
