(* C07 at the value level: evaluating the printed normal form gives the value the normal
   form denotes (eval_print); the normal form computed from the conjuncts denotes the value of
   the conjuncts (normalize_sound); hence printing the evaluated value and evaluating the text
   again gives the same result tree, closedness included (print_roundtrip). *)
From Verif Require Import Core.Syntax Core.Eval Core.Laws Core.Spec Print.Model Print.ScalProofs.
From Coq Require Import List Bool ZArith NArith Lia.
Import ListNotations.

(* ---- flatten on printed expressions ------------------------------------------------------ *)
Definition sflat (cs : list sconstr) : flat := mkFlat false cs false [] [] [] [].

Lemma flatten_pure r x e : pure_scalar e = true -> flatten r x e = sflat (scal_of e).
Proof.
  induction e; simpl; try discriminate; intros H; try reflexivity.
  apply andb_true_iff in H as [H1 H2]. rewrite (IHe1 H1), (IHe2 H2). reflexivity.
Qed.

Definition flat_list (r : bool) (x : allowset) (es : list expr) : flat :=
  fold_right (fun e acc => flat_app (flatten r x e) acc) flat_empty es.

Lemma flatten_and_all r x es : flatten r x (and_all es) = flat_list r x es.
Proof.
  induction es as [|e es IH]; [reflexivity|].
  destruct es as [|e' es'].
  - simpl. rewrite flat_app_empty_r. reflexivity.
  - change (and_all (e :: e' :: es')) with (EAnd e (and_all (e' :: es'))).
    cbn [flatten]. rewrite IH. reflexivity.
Qed.

Lemma pure_and_all es : forallb pure_scalar es = true -> pure_scalar (and_all es) = true.
Proof.
  induction es as [|e es IH]; [reflexivity|]. intros H. simpl in H. apply andb_true_iff in H as [H1 H2].
  destruct es as [|e' es']; [exact H1|].
  change (and_all (e :: e' :: es')) with (EAnd e (and_all (e' :: es'))).
  simpl. rewrite H1. simpl. apply IH. exact H2.
Qed.

Lemma scal_of_and_all es : scal_of (and_all es) = flat_map scal_of es.
Proof.
  induction es as [|e es IH]; [reflexivity|].
  destruct es as [|e' es']; [simpl; rewrite app_nil_r; reflexivity|].
  change (and_all (e :: e' :: es')) with (EAnd e (and_all (e' :: es'))).
  cbn [scal_of flat_map]. rewrite IH. reflexivity.
Qed.

Lemma pure_print_raw cs : pure_scalar (print_raw cs) = true.
Proof. unfold print_raw. apply pure_and_all. induction cs; simpl; auto. Qed.

Lemma scal_of_print_raw cs : scal_of (print_raw cs) = cs.
Proof.
  unfold print_raw. rewrite scal_of_and_all. induction cs as [|c cs IH]; simpl; auto. rewrite IH. reflexivity.
Qed.

Lemma flat_exprs_pure r es :
  forallb pure_scalar es = true -> flat_exprs r es = sflat (flat_map scal_of es).
Proof.
  induction es as [|e es IH]; [reflexivity|]. intros H. simpl in H. apply andb_true_iff in H as [H1 H2].
  rewrite flat_exprs_cons, (flatten_pure _ _ _ H1), (IH H2). reflexivity.
Qed.

(* ---- closers as printed ------------------------------------------------------------------ *)
Lemma closer_decls_embed_free a : embed_free (closer_decls a) = true.
Proof.
  unfold embed_free, closer_decls. rewrite !forallb_app. apply andb_true_iff. split; [|apply andb_true_iff; split].
  - induction (al_labels a) as [|l ls IH]; simpl; auto. destruct l; simpl; auto.
  - induction (al_pats a); simpl; auto.
  - destruct (al_open a); reflexivity.
Qed.

Lemma closer_decls_fields a : fields_of (closer_decls a) = [].
Proof.
  unfold fields_of, closer_decls. rewrite !flat_map_app.
  assert (A : flat_map (fun d : dhead * expr => match fst d with HField l k => [(l, k, snd d)] | _ => [] end)
                       (flat_map (fun l => match l with LReg s => [(HPattern [s], ETop)] | _ => [] end) (al_labels a)) = []).
  { induction (al_labels a) as [|l ls IH]; simpl; auto. destruct l; simpl; auto. }
  assert (B : flat_map (fun d : dhead * expr => match fst d with HField l k => [(l, k, snd d)] | _ => [] end)
                       (map (fun p => (HPattern p, ETop)) (al_pats a)) = []).
  { induction (al_pats a); simpl; auto. }
  rewrite A, B. destruct (al_open a); reflexivity.
Qed.

Definition closer_pats (a : allowset) : list (list N * expr) := pats_of (closer_decls a).

Lemma closer_pats_top a q : In q (closer_pats a) -> snd q = ETop.
Proof.
  unfold closer_pats, pats_of, closer_decls. rewrite !flat_map_app, !in_app_iff.
  intros [H|[H|H]].
  - apply in_flat_map in H as (d & Hd & Hq). apply in_flat_map in Hd as (l & _ & Hd).
    destruct l; simpl in Hd; try tauto. destruct Hd as [<-|[]]. simpl in Hq. destruct Hq as [<-|[]]. reflexivity.
  - apply in_flat_map in H as (d & Hd & Hq). apply in_map_iff in Hd as (p & <- & _).
    simpl in Hq. destruct Hq as [<-|[]]. reflexivity.
  - destruct (al_open a); simpl in H; tauto.
Qed.

Lemma allows_closer a l :
  is_special l = false ->
  allows (al_union (declared (EStruct (closer_decls a))) al_empty) l = allows a l.
Proof.
  intros Hs. rewrite allows_union, allows_empty, orb_false_r, allows_declared_struct.
  destruct l as [s|s|s]; try discriminate.
  unfold closer_decls. rewrite !existsb_app.
  assert (A : existsb (fun d => allows (decl_declared d) (LReg s))
                      (flat_map (fun l => match l with LReg s => [(HPattern [s], ETop)] | _ => [] end) (al_labels a)) =
              existsb (label_eqb (LReg s)) (al_labels a)).
  { induction (al_labels a) as [|l ls IH]; simpl; auto. destruct l as [t|t|t]; simpl; rewrite IH; auto.
    unfold allows, decl_declared; simpl. rewrite !orb_false_r. reflexivity. }
  assert (B : existsb (fun d => allows (decl_declared d) (LReg s)) (map (fun p => (HPattern p, ETop)) (al_pats a)) =
              existsb (memN s) (al_pats a)).
  { induction (al_pats a) as [|p ps IH]; simpl; auto. rewrite IH.
    unfold allows, decl_declared; simpl. rewrite orb_false_r. reflexivity. }
  rewrite A, B. unfold allows. destruct (al_open a); simpl.
  - rewrite !orb_true_r. reflexivity.
  - rewrite orb_false_r. reflexivity.
Qed.

Definition cl_pats (cl : list allowset) := flat_map closer_pats cl.
Definition cl_closers (cl : list allowset) :=
  map (fun a => al_union (declared (EStruct (closer_decls a))) al_empty) cl.

Lemma allowed_cl_closers cl l : allowed (cl_closers cl) l = allowed cl l.
Proof.
  unfold allowed. destruct (is_special l) eqn:Hs; [reflexivity|]. simpl.
  unfold cl_closers. induction cl as [|a cl IH]; [reflexivity|]. cbn [map forallb].
  rewrite IH, (allows_closer a l Hs). reflexivity.
Qed.

Lemma flatten_close r x e :
  flatten r x (EClose e) = with_closer (al_union (declared e) x) (flatten r x e).
Proof. reflexivity. Qed.

Lemma flatten_print_closer a :
  flatten false al_empty (print_closer a) =
  mkFlat false [] true [] (closer_pats a) [] [al_union (declared (EStruct (closer_decls a))) al_empty].
Proof.
  unfold print_closer. rewrite flatten_close.
  rewrite (flatten_embed_free false al_empty _ (closer_decls_embed_free a)), closer_decls_fields. reflexivity.
Qed.

Lemma flat_list_closers cl :
  flat_list false al_empty (map print_closer cl) =
  mkFlat false [] (negb (null cl)) [] (cl_pats cl) [] (cl_closers cl).
Proof.
  induction cl as [|a cl IH]; [reflexivity|].
  cbn [map flat_list fold_right]. fold (flat_list false al_empty (map print_closer cl)).
  rewrite IH, flatten_print_closer. reflexivity.
Qed.

(* ---- the flattened printed struct ----------------------------------------------------------- *)
Definition lit_fields (fs : list (label * fkind * nf)) : list (label * fkind * expr) :=
  map (fun f => match f with (l, k, v) => (l, k, print_nf v) end) fs.
Definition lit_pats (ps : list (list N * list sconstr)) : list (list N * expr) :=
  map (fun q => (fst q, print_raw (snd q))) ps.

Definition lit_decls fs ps : list (dhead * expr) :=
  map (fun f : label * fkind * nf => match f with (l, k, v) => (HField l k, print_nf v) end) fs ++
  map (fun q : list N * list sconstr => (HPattern (fst q), print_raw (snd q))) ps.

Lemma lit_decls_embed_free fs ps : embed_free (lit_decls fs ps) = true.
Proof.
  unfold embed_free, lit_decls. rewrite forallb_app. apply andb_true_iff. split.
  - induction fs as [|[[l k] v] fs IH]; simpl; auto.
  - induction ps; simpl; auto.
Qed.

Lemma lit_decls_fields fs ps : fields_of (lit_decls fs ps) = lit_fields fs.
Proof.
  unfold fields_of, lit_decls. rewrite flat_map_app.
  assert (B : flat_map (fun d : dhead * expr => match fst d with HField l k => [(l, k, snd d)] | _ => [] end)
                       (map (fun q : list N * list sconstr => (HPattern (fst q), print_raw (snd q))) ps) = []).
  { induction ps; simpl; auto. }
  rewrite B, app_nil_r. unfold lit_fields. induction fs as [|[[l k] v] fs IH]; simpl; auto. rewrite IH. reflexivity.
Qed.

Lemma lit_decls_pats fs ps : pats_of (lit_decls fs ps) = lit_pats ps.
Proof.
  unfold pats_of, lit_decls. rewrite flat_map_app.
  assert (A : flat_map (fun d : dhead * expr => match fst d with HPattern p => [(p, snd d)] | _ => [] end)
                       (map (fun f : label * fkind * nf => match f with (l, k, v) => (HField l k, print_nf v) end) fs) = []).
  { induction fs as [|[[l k] v] fs IH]; simpl; auto. }
  rewrite A. simpl. unfold lit_pats. induction ps as [|q ps IH]; simpl; auto. rewrite IH. reflexivity.
Qed.

Definition struct_nflat fs ps cl : nflat :=
  mkNFlat false [] true [mkPart false (lit_fields fs) (lit_pats ps ++ cl_pats cl)] (cl_closers cl).

Lemma flat_all_print_struct fs ps cl :
  flat_all [mkConj false [print_nf (NStruct fs ps cl)]] = struct_nflat fs ps cl.
Proof.
  cbn [print_nf]. fold (lit_decls fs ps).
  unfold flat_all, fold_right, flat_conj. cbn [c_rec c_exprs andb].
  rewrite flat_exprs_cons. cbn [flat_exprs fold_right]. rewrite flat_app_empty_r.
  rewrite flatten_and_all. cbn [flat_list fold_right]. fold (flat_list false al_empty (map print_closer cl)).
  rewrite flat_list_closers, (flatten_embed_free false al_empty _ (lit_decls_embed_free fs ps)),
    lit_decls_fields, lit_decls_pats.
  unfold nflat_app, struct_nflat, flat_app. cbn. rewrite ?app_nil_r. reflexivity.
Qed.

(* ---- fields of the printed struct ----------------------------------------------------------- *)
Definition fs_assoc (fs : list (label * fkind * nf)) : list (label * (fkind * nf)) :=
  map (fun f => match f with (l, k, v) => (l, (k, v)) end) fs.

Lemma label_eqb_refl l : label_eqb l l = true.
Proof. apply label_eqb_eq. reflexivity. Qed.

Lemma label_eqb_sym a b : label_eqb a b = label_eqb b a.
Proof.
  destruct (label_eqb a b) eqn:E.
  - apply label_eqb_eq in E. subst. symmetry. apply label_eqb_refl.
  - destruct (label_eqb b a) eqn:E'; auto. apply label_eqb_eq in E'. subst. rewrite label_eqb_refl in E. discriminate.
Qed.

Lemma assoc_find_none fs l :
  assoc_find l (fs_assoc fs) = None ->
  forall f, In f (lit_fields fs) -> label_eqb (fst (fst f)) l = false.
Proof.
  induction fs as [|[[l0 k0] v0] fs IH]; simpl; [tauto|].
  destruct (label_eqb l0 l) eqn:E; [discriminate|]. intros H f [<-|Hf]; simpl; auto.
Qed.

Lemma field_values_none fs l :
  assoc_find l (fs_assoc fs) = None ->
  flat_map (fun f : label * fkind * expr => if label_eqb (fst (fst f)) l then [snd f] else []) (lit_fields fs) = [].
Proof.
  induction fs as [|[[l0 k0] v0] fs IH]; simpl; auto.
  destruct (label_eqb l0 l) eqn:E; [discriminate|]. exact IH.
Qed.

Lemma nodup_labels_cons l ls :
  nodup_labels (l :: ls) = negb (existsb (label_eqb l) ls) && nodup_labels ls.
Proof. reflexivity. Qed.

Lemma assoc_find_absent fs l :
  existsb (label_eqb l) (map (fun f : label * fkind * nf => fst (fst f)) fs) = false ->
  assoc_find l (fs_assoc fs) = None.
Proof.
  induction fs as [|[[l0 k0] v0] fs IH]; simpl; auto.
  intros H. apply orb_false_iff in H as [H1 H2]. rewrite label_eqb_sym, H1. apply IH, H2.
Qed.

Lemma field_values_some fs l k v :
  nodup_labels (map (fun f : label * fkind * nf => fst (fst f)) fs) = true ->
  assoc_find l (fs_assoc fs) = Some (k, v) ->
  flat_map (fun f : label * fkind * expr => if label_eqb (fst (fst f)) l then [snd f] else []) (lit_fields fs) = [print_nf v] /\
  forall k', existsb (fun f : label * fkind * expr => label_eqb (fst (fst f)) l && fk_is (snd (fst f)) k') (lit_fields fs) = fk_is k k'.
Proof.
  induction fs as [|[[l0 k0] v0] fs IH]; [discriminate|].
  cbn [map fst snd]. rewrite nodup_labels_cons. intros Hn. apply andb_true_iff in Hn as [Hn1 Hn2].
  apply negb_true_iff in Hn1. cbn [fs_assoc map assoc_find lit_fields flat_map existsb fst snd].
  fold (fs_assoc fs). fold (lit_fields fs).
  change ((fix go (fs0 : list (label * (fkind * nf))) : option (fkind * nf) :=
             match fs0 with
             | [] => None
             | (l', x) :: r => if label_eqb l' l then Some x else go r
             end) (fs_assoc fs)) with (assoc_find l (fs_assoc fs)).
  destruct (label_eqb l0 l) eqn:E.
  - intros H. injection H as -> ->. apply label_eqb_eq in E. subst l0.
    pose proof (assoc_find_absent fs l Hn1) as Hnone.
    rewrite (field_values_none fs l Hnone). split; [reflexivity|]. intros k'.
    assert (X : existsb (fun f : label * fkind * expr => label_eqb (fst (fst f)) l && fk_is (snd (fst f)) k') (lit_fields fs) = false).
    { apply not_true_is_false. intros X. apply existsb_exists in X as (f & Hf & Hx).
      rewrite (assoc_find_none fs l Hnone f Hf) in Hx. discriminate. }
    rewrite X. cbn [andb]. rewrite orb_false_r. reflexivity.
  - intros H. destruct (IH Hn2 H) as [A B]. split; [exact A|]. intros k'. rewrite B. reflexivity.
Qed.

Lemma presence_struct fs ps cl l :
  nodup_labels (map (fun f : label * fkind * nf => fst (fst f)) fs) = true ->
  presence (struct_nflat fs ps cl) l =
  match assoc_find l (fs_assoc fs) with Some (k, _) => pres_of k | None => PAbsent end.
Proof.
  intros Hn. unfold presence, has_field, struct_nflat. cbn [n_parts existsb gp_fields].
  destruct (assoc_find l (fs_assoc fs)) as [[k v]|] eqn:E.
  - destruct (field_values_some fs l k v Hn E) as [_ B]. rewrite !B, !orb_false_r.
    destruct k; reflexivity.
  - assert (X : forall k', existsb (fun f : label * fkind * expr => label_eqb (fst (fst f)) l && fk_is (snd (fst f)) k') (lit_fields fs) = false).
    { intros k'. apply not_true_is_false. intros X. apply existsb_exists in X as (f & Hf & Hx).
      rewrite (assoc_find_none fs l E f Hf) in Hx. discriminate. }
    rewrite !X. reflexivity.
Qed.

(* ---- pattern values reaching a label --------------------------------------------------------- *)
Definition pvals (ps : list (list N * list sconstr)) (cl : list allowset) (l : label) : list expr :=
  flat_map (fun q : list N * expr => if pat_matches (fst q) l then [snd q] else []) (lit_pats ps ++ cl_pats cl).

Lemma pvals_pure ps cl l : forallb pure_scalar (pvals ps cl l) = true.
Proof.
  unfold pvals. apply forallb_forall. intros e He. apply in_flat_map in He as (q & Hq & He).
  destruct (pat_matches (fst q) l); [|destruct He]. destruct He as [<-|[]].
  apply in_app_or in Hq as [Hq|Hq].
  - unfold lit_pats in Hq. apply in_map_iff in Hq as (q0 & <- & _). apply pure_print_raw.
  - unfold cl_pats in Hq. apply in_flat_map in Hq as (a & _ & Hq). rewrite (closer_pats_top a q Hq). reflexivity.
Qed.

Lemma pvals_scal ps cl l : flat_map scal_of (pvals ps cl l) = pat_constraints ps l.
Proof.
  unfold pvals. rewrite flat_map_app, flat_map_app.
  assert (B' : forall qs, (forall q, In q qs -> snd q = ETop) ->
                          flat_map scal_of (flat_map (fun q : list N * expr => if pat_matches (fst q) l then [snd q] else []) qs) = []).
  { induction qs as [|q qs IH]; intros H; [reflexivity|]. cbn [flat_map]. rewrite flat_map_app, IH by (intros; apply H; right; auto).
    destruct (pat_matches (fst q) l); [|reflexivity]. cbn [flat_map]. rewrite (H q) by (left; reflexivity). reflexivity. }
  rewrite (B' (cl_pats cl)).
  - rewrite app_nil_r. unfold lit_pats, pat_constraints. induction ps as [|q ps IH]; [reflexivity|].
    cbn [map flat_map fst snd]. rewrite flat_map_app, IH.
    destruct (pat_matches (fst q) l); [|reflexivity]. cbn [flat_map]. rewrite scal_of_print_raw, app_nil_r. reflexivity.
  - intros q Hq. unfold cl_pats in Hq. apply in_flat_map in Hq as (a & _ & Hq). apply (closer_pats_top a q Hq).
Qed.

Lemma children_struct fs ps cl l :
  children (struct_nflat fs ps cl) l =
  let vs := flat_map (fun f : label * fkind * expr => if label_eqb (fst (fst f)) l then [snd f] else []) (lit_fields fs) ++
            pvals ps cl l in
  if null vs then [] else [mkConj false vs].
Proof.
  unfold children, open_values, rec_children, struct_nflat, part_values, pvals.
  cbn [n_parts flat_map gp_rec gp_fields gp_pats]. rewrite !app_nil_r. reflexivity.
Qed.

Lemma assoc_find_in fs l k v : assoc_find l (fs_assoc fs) = Some (k, v) -> In (l, k, v) fs.
Proof.
  induction fs as [|[[l0 k0] v0] fs IH]; [discriminate|]. cbn [fs_assoc map assoc_find].
  fold (fs_assoc fs).
  change ((fix go (fs0 : list (label * (fkind * nf))) : option (fkind * nf) :=
             match fs0 with
             | [] => None
             | (l', x) :: r => if label_eqb l' l then Some x else go r
             end) (fs_assoc fs)) with (assoc_find l (fs_assoc fs)).
  destruct (label_eqb l0 l) eqn:E.
  - intros H. injection H as -> ->. apply label_eqb_eq in E. subst. left. reflexivity.
  - intros H. right. apply IH, H.
Qed.

Section EvalPrint.
  Variable labs : list label.
  Variable atoms : list atom.

  Lemma evalFlat_scalar f fl :
    n_bot fl = false -> n_struct fl = false ->
    evalFlat labs atoms (S f) fl = sres atoms (n_scal fl).
  Proof. intros Hb Hs. cbn [evalFlat]. rewrite Hb, Hs. reflexivity. Qed.

  Lemma flat_all_pure_group X :
    forallb pure_scalar X = true ->
    flat_all [mkConj false X] = mkNFlat false (flat_map scal_of X ++ []) false [mkPart false [] []] [].
  Proof.
    intros H. unfold flat_all, fold_right, flat_conj. cbn [c_rec c_exprs andb].
    rewrite (flat_exprs_pure false X H). reflexivity.
  Qed.

  Lemma eval_pure_group f X :
    forallb pure_scalar X = true ->
    evalFlat labs atoms f (flat_all (if null X then [] else [mkConj false X])) =
    match f with O => RFuel | S _ => sres atoms (flat_map scal_of X) end.
  Proof.
    intros H. destruct f as [|f]; [reflexivity|].
    destruct X as [|e X]; [reflexivity|]. cbn [null].
    rewrite (flat_all_pure_group _ H), evalFlat_scalar by reflexivity. cbn [n_scal]. rewrite app_nil_r. reflexivity.
  Qed.

  Lemma eval_group f :
    (forall r, wfb r = true -> evalNode labs atoms f [mkConj false [print_nf r]] = denoteF labs atoms f r) ->
    forall v X, wfb v = true -> forallb pure_scalar X = true -> absorbs v (flat_map scal_of X) = true ->
    evalFlat labs atoms f (flat_all [mkConj false (print_nf v :: X)]) = denoteF labs atoms f v.
  Proof.
    intros IH v X Hw Hp Ha. destruct f as [|f]; [reflexivity|].
    destruct v as [| | |cs|fs ps cl]; try discriminate.
    - (* error value *) reflexivity.
    - (* scalar *)
      assert (P : forallb pure_scalar (print_nf (NScal cs) :: X) = true).
      { cbn [forallb print_nf]. unfold print_scal. rewrite pure_print_raw, Hp. reflexivity. }
      rewrite (flat_all_pure_group _ P), evalFlat_scalar by reflexivity. cbn [n_scal denoteF].
      rewrite app_nil_r. cbn [flat_map print_nf]. unfold print_scal. rewrite scal_of_print_raw.
      apply sres_equiv. cbn [wfb] in Hw. apply negb_true_iff in Hw. cbn [absorbs] in Ha.
      apply canon_absorb_equiv; [exact Hw | apply inclb_incl, Ha].
    - (* struct: the matching patterns are all _ *)
      cbn [absorbs] in Ha. destruct (flat_map scal_of X) eqn:E; [|discriminate].
      rewrite <- (IH (NStruct fs ps cl) Hw). unfold evalNode. f_equal.
      unfold flat_all, fold_right, flat_conj. cbn [c_rec c_exprs andb].
      rewrite !flat_exprs_cons, (flat_exprs_pure false X Hp), E. reflexivity.
  Qed.

  (* C07: evaluating the printed normal form gives the value the normal form stands for -
     for every well-formed normal form, label universe, probe atoms and fuel *)
  Theorem eval_print_F fuel : forall r,
    wfb r = true -> evalNode labs atoms fuel [mkConj false [print_nf r]] = denoteF labs atoms fuel r.
  Proof.
    induction fuel as [|f IH]; intros r Hw; [reflexivity|].
    destruct r as [| | |cs|fs ps cl]; try discriminate.
    - reflexivity.
    - unfold evalNode.
      assert (P : forallb pure_scalar [print_nf (NScal cs)] = true).
      { cbn [forallb print_nf]. unfold print_scal. rewrite pure_print_raw. reflexivity. }
      rewrite (flat_all_pure_group _ P), evalFlat_scalar by reflexivity. cbn [n_scal denoteF flat_map print_nf].
      unfold print_scal. rewrite scal_of_print_raw, !app_nil_r. apply sres_equiv, canon_scal_equiv.
      cbn [wfb] in Hw. apply negb_true_iff in Hw. exact Hw.
    - unfold evalNode. rewrite flat_all_print_struct.
      cbn [wfb] in Hw. apply andb_true_iff in Hw as [Hn Hf]. rewrite forallb_forall in Hf.
      cbn [evalFlat denoteF]. cbn [struct_nflat n_bot n_struct n_scal null negb andb].
      fold (struct_nflat fs ps cl). fold (fs_assoc fs).
      assert (CH : forall l,
                 evalFlat labs atoms f (flat_all (children (struct_nflat fs ps cl) l)) =
                 match assoc_find l (fs_assoc fs) with
                 | Some (_, v) => denoteF labs atoms f v
                 | None => match f with O => RFuel | S _ => sres atoms (pat_constraints ps l) end
                 end).
      { intros l. rewrite children_struct. cbv zeta.
        destruct (assoc_find l (fs_assoc fs)) as [[k v]|] eqn:E.
        - destruct (field_values_some fs l k v Hn E) as [A _]. rewrite A. cbn [app null].
          pose proof (Hf _ (assoc_find_in fs l k v E)) as Hv. cbn in Hv. apply andb_true_iff in Hv as [Hv1 Hv2].
          apply (eval_group f IH); auto using pvals_pure. rewrite pvals_scal. exact Hv2.
        - rewrite (field_values_none fs l E). cbn [app].
          rewrite (eval_pure_group f _ (pvals_pure ps cl l)), pvals_scal. reflexivity. }
      assert (AL : forall l, allowed (n_closers (struct_nflat fs ps cl)) l = allowed cl l)
        by (intros l; apply allowed_cl_closers).
      f_equal.
      + apply map_ext. intros l. rewrite (presence_struct fs ps cl l Hn), AL, CH.
        destruct (assoc_find l (fs_assoc fs)) as [[k v]|]; [|reflexivity]. destruct k; reflexivity.
      + apply map_ext. intros l. rewrite AL, CH.
        destruct (assoc_find l (fs_assoc fs)) as [[k v]|]; reflexivity.
  Qed.
End EvalPrint.

(* ---- the fuel-free reading ---------------------------------------------------------------- *)
Lemma depth_in fs l k v ps cl : In (l, k, v) fs -> depth v < depth (NStruct fs ps cl).
Proof.
  cbn [depth]. induction fs as [|[[l0 k0] v0] fs IH]; [intros []|].
  intros [E|H]; cbn [fold_right].
  - injection E as -> -> ->. lia.
  - specialize (IH H). lia.
Qed.

Lemma assoc_find_map_val {A B} (g : A -> B) l (rs : list (label * (fkind * A))) :
  assoc_find l (map (fun x => (fst x, (fst (snd x), g (snd (snd x))))) rs) =
  match assoc_find l rs with Some (k, v) => Some (k, g v) | None => None end.
Proof.
  induction rs as [|[l0 [k0 v0]] rs IH]; [reflexivity|]. cbn [map assoc_find fst snd].
  destruct (label_eqb l0 l); [reflexivity | exact IH].
Qed.

Section DenoteF.
  Variable labs : list label.
  Variable atoms : list atom.

  Lemma denote_struct_assoc fs l :
    assoc_find l (map (fun f : label * fkind * nf => match f with (l, k, v) => (l, (k, denote labs atoms v)) end) fs) =
    match assoc_find l (fs_assoc fs) with Some (k, v) => Some (k, denote labs atoms v) | None => None end.
  Proof.
    rewrite <- (assoc_find_map_val (denote labs atoms) l (fs_assoc fs)). f_equal.
    unfold fs_assoc. rewrite map_map. apply map_ext. intros [[l0 k0] v0]. reflexivity.
  Qed.

  Lemma denoteF_denote fuel : forall r, depth r < fuel -> denoteF labs atoms fuel r = denote labs atoms r.
  Proof.
    induction fuel as [|f IH]; intros r Hd; [lia|].
    destruct r as [| | |cs|fs ps cl]; try reflexivity.
    cbn [denoteF denote]. unfold struct_res. fold (fs_assoc fs).
    assert (V : forall l k v, assoc_find l (fs_assoc fs) = Some (k, v) -> denoteF labs atoms f v = denote labs atoms v).
    { intros l k v E. apply IH. pose proof (depth_in fs l k v ps cl (assoc_find_in fs l k v E)). lia. }
    f_equal; apply map_ext; intros l; rewrite denote_struct_assoc;
      destruct (assoc_find l (fs_assoc fs)) as [[k v]|] eqn:E; try reflexivity.
    - rewrite (V l k v E). reflexivity.
    - rewrite (V l k v E). reflexivity.
    - destruct f as [|f']; [cbn [depth] in Hd; lia | reflexivity].
  Qed.

  (* C07 (eval_print): for every well-formed normal form r, every label universe and probe atoms
     and any fuel above the depth of r, evaluating the printed expression gives the result tree
     that r denotes *)
  Theorem eval_print fuel r :
    wfb r = true -> depth r < fuel ->
    evalNode labs atoms fuel [mkConj false [print_nf r]] = denote labs atoms r.
  Proof. intros Hw Hd. rewrite eval_print_F by exact Hw. apply denoteF_denote, Hd. Qed.
End DenoteF.

(* ---- normalisation --------------------------------------------------------------------------- *)
Lemma assoc_find_labels {A} (g : label -> A) l ls :
  assoc_find l (map (fun l0 => (l0, g l0)) ls) = if existsb (label_eqb l) ls then Some (g l) else None.
Proof.
  induction ls as [|l0 ls IH]; [reflexivity|]. cbn [map assoc_find existsb].
  rewrite (label_eqb_sym l l0). destruct (label_eqb l0 l) eqn:E; cbn [orb]; [|exact IH].
  apply label_eqb_eq in E. subst. reflexivity.
Qed.

Lemma existsb_label_in l ls : existsb (label_eqb l) ls = true <-> In l ls.
Proof.
  rewrite existsb_exists. split.
  - intros (x & Hx & E). apply label_eqb_eq in E. subst. exact Hx.
  - intros H. exists l. split; auto. apply label_eqb_refl.
Qed.

Lemma decl_labels_in fl l :
  In l (decl_labels fl) <-> exists f, In f (Model.all_fields fl) /\ fst (fst f) = l.
Proof.
  unfold decl_labels. rewrite nodup_In, in_map_iff. split; intros (f & A & B); exists f; auto.
Qed.

Lemma presence_absent_iff fl l :
  presence fl l = PAbsent <-> ~ In l (decl_labels fl).
Proof.
  unfold presence. rewrite !has_field_all. rewrite decl_labels_in.
  change (Laws.all_fields fl) with (Model.all_fields fl).
  split.
  - intros H (f & Hf & El).
    assert (X : forall k, fk_is (snd (fst f)) k = true ->
                existsb (fun f0 : label * fkind * expr => label_eqb (fst (fst f0)) l && fk_is (snd (fst f0)) k) (Model.all_fields fl) = true).
    { intros k Hk. apply existsb_exists. exists f. split; auto. rewrite El, label_eqb_refl, Hk. reflexivity. }
    destruct (snd (fst f)) eqn:Ek.
    + rewrite (X FRegular) in H by reflexivity. discriminate.
    + rewrite (X FRequired) in H by reflexivity.
      destruct (existsb _ (Model.all_fields fl)); discriminate.
    + rewrite (X FOptional) in H by reflexivity.
      destruct (existsb _ (Model.all_fields fl)); [discriminate|].
      destruct (existsb _ (Model.all_fields fl)); discriminate.
  - intros H.
    assert (X : forall k, existsb (fun f0 : label * fkind * expr => label_eqb (fst (fst f0)) l && fk_is (snd (fst f0)) k) (Model.all_fields fl) = false).
    { intros k. apply not_true_is_false. intros E. apply existsb_exists in E as (f & Hf & E).
      apply andb_true_iff in E as [E _]. apply label_eqb_eq in E. apply H. exists f. auto. }
    rewrite !X. reflexivity.
Qed.

Lemma pres_of_fk_of_pres p : p <> PAbsent -> pres_of (fk_of_pres p) = p.
Proof. destruct p; try reflexivity. congruence. Qed.

(* the expressions that reach the child l *)
Definition child_exprs (fl : nflat) (l : label) : list expr := flat_map c_exprs (children fl l).

Lemma child_exprs_in fl l e :
  In e (child_exprs fl l) <-> exists p, In p (n_parts fl) /\ In e (part_values p l).
Proof.
  unfold child_exprs, children. rewrite flat_map_app, in_app_iff.
  assert (A : flat_map c_exprs (if null (open_values fl l) then [] else [mkConj false (open_values fl l)]) = open_values fl l).
  { destruct (open_values fl l); [reflexivity|]. cbn. rewrite app_nil_r. reflexivity. }
  rewrite A. unfold open_values, rec_children. rewrite in_flat_map. split.
  - intros [(p & Hp & He)|H].
    + exists p. split; auto. destruct (gp_rec p); [destruct He | exact He].
    + apply in_flat_map in H as (c & Hc & He). apply in_flat_map in Hc as (p & Hp & Hc).
      exists p. split; auto. destruct (gp_rec p); [|destruct Hc].
      destruct (null (part_values p l)); [destruct Hc|]. destruct Hc as [<-|[]]. exact He.
  - intros (p & Hp & He). destruct (gp_rec p) eqn:Er.
    + right. apply in_flat_map. exists (mkConj true (part_values p l)). split; [|exact He].
      apply in_flat_map. exists p. split; auto. rewrite Er.
      destruct (part_values p l); [destruct He | left; reflexivity].
    + left. exists p. split; auto. rewrite Er. exact He.
Qed.

Lemma n_scal_flat_all cs :
  n_scal (flat_all cs) = flat_map (fun c => flat_map (fun e => f_scal (flatten (c_rec c) al_empty e)) (c_exprs c)) cs.
Proof.
  rewrite fa_scal. apply flat_map_ext. intros c. unfold flat_conj. cbn [n_scal]. apply fe_scal.
Qed.

(* a pure pattern value that reaches the child contributes its constraints to the child *)
Lemma child_scal_incl fl l e x :
  In e (child_exprs fl l) -> pure_scalar e = true -> In x (scal_of e) -> In x (n_scal (flat_all (children fl l))).
Proof.
  intros He Hp Hx. rewrite n_scal_flat_all. unfold child_exprs in He.
  apply in_flat_map in He as (c & Hc & He). apply in_flat_map. exists c. split; auto.
  apply in_flat_map. exists e. split; auto. rewrite (flatten_pure _ _ _ Hp). exact Hx.
Qed.

Definition pats_nf (fl : nflat) : list (list N * list sconstr) :=
  map (fun q => (fst q, scal_of (snd q))) (Model.all_pats fl).

Lemma pat_constraints_in fl l x :
  In x (pat_constraints (pats_nf fl) l) <->
  exists q, In q (Model.all_pats fl) /\ pat_matches (fst q) l = true /\ In x (scal_of (snd q)).
Proof.
  unfold pat_constraints, pats_nf. rewrite in_flat_map. split.
  - intros (q' & Hq' & Hx). apply in_map_iff in Hq' as (q & <- & Hq). cbn [fst snd] in Hx.
    destruct (pat_matches (fst q) l) eqn:E; [|destruct Hx]. exists q. auto.
  - intros (q & Hq & Hm & Hx). exists (fst q, scal_of (snd q)). split.
    + apply in_map_iff. exists q. auto.
    + cbn [fst snd]. rewrite Hm. exact Hx.
Qed.

Lemma pat_value_reaches fl l q :
  In q (Model.all_pats fl) -> pat_matches (fst q) l = true -> In (snd q) (child_exprs fl l).
Proof.
  intros Hq Hm. unfold Model.all_pats in Hq. apply in_flat_map in Hq as (p & Hp & Hq).
  apply child_exprs_in. exists p. split; auto. apply part_values_in. right. exists q. auto.
Qed.

Lemma pat_constraints_incl fl l :
  forallb (fun q => pure_scalar (snd q)) (Model.all_pats fl) = true ->
  incl (pat_constraints (pats_nf fl) l) (n_scal (flat_all (children fl l))).
Proof.
  intros Hpure x Hx. apply pat_constraints_in in Hx as (q & Hq & Hm & Hx).
  rewrite forallb_forall in Hpure.
  apply (child_scal_incl fl l (snd q) x); auto using pat_value_reaches.
Qed.

(* children of an undeclared label: pattern values only *)
Lemma flat_all_pure_groups cs :
  (forall c, In c cs -> forallb pure_scalar (c_exprs c) = true) ->
  n_bot (flat_all cs) = false /\ n_struct (flat_all cs) = false.
Proof.
  induction cs as [|c cs IH]; intros H; [split; reflexivity|].
  destruct IH as [A B]; [intros c' Hc'; apply H; right; exact Hc'|].
  cbn [flat_all fold_right]. fold (flat_all cs). unfold nflat_app. cbn [n_bot n_struct].
  rewrite A, B. unfold flat_conj. cbn [n_bot n_struct].
  rewrite (flat_exprs_pure (c_rec c) (c_exprs c)) by (apply H; left; reflexivity). split; reflexivity.
Qed.

Lemma undeclared_child_pure fl l :
  forallb (fun q => pure_scalar (snd q)) (Model.all_pats fl) = true ->
  ~ In l (decl_labels fl) ->
  forall e, In e (child_exprs fl l) -> pure_scalar e = true.
Proof.
  intros Hpure Hl e He. apply child_exprs_in in He as (p & Hp & He).
  apply part_values_in in He as [(f & Hf & Hm & <-)|(q & Hq & Hm & <-)].
  - exfalso. apply Hl. apply decl_labels_in. exists f. split.
    + unfold Model.all_fields. apply in_flat_map. eauto.
    + apply label_eqb_eq. exact Hm.
  - rewrite forallb_forall in Hpure. apply Hpure. unfold Model.all_pats. apply in_flat_map. eauto.
Qed.

Section NormalizeSound.
  Variable labs : list label.
  Variable atoms : list atom.

  Lemma undeclared_child_eval f fl l :
    forallb (fun q => pure_scalar (snd q)) (Model.all_pats fl) = true ->
    ~ In l (decl_labels fl) ->
    evalFlat labs atoms f (flat_all (children fl l)) =
    match f with O => RFuel | S _ => sres atoms (pat_constraints (pats_nf fl) l) end.
  Proof.
    intros Hpure Hl. destruct f as [|f]; [reflexivity|].
    pose proof (undeclared_child_pure fl l Hpure Hl) as P.
    assert (G : forall c, In c (children fl l) -> forallb pure_scalar (c_exprs c) = true).
    { intros c Hc. apply forallb_forall. intros e He. apply P. unfold child_exprs. apply in_flat_map. eauto. }
    destruct (flat_all_pure_groups _ G) as [A B]. rewrite evalFlat_scalar by assumption.
    apply sres_equiv, sc_equiv_seq. intros x. split.
    - rewrite n_scal_flat_all. intros Hx. apply in_flat_map in Hx as (c & Hc & Hx).
      apply in_flat_map in Hx as (e & He & Hx).
      assert (Pe : pure_scalar e = true) by (apply P; unfold child_exprs; apply in_flat_map; eauto).
      rewrite (flatten_pure _ _ _ Pe) in Hx. cbn [f_scal sflat] in Hx.
      assert (Ce : In e (child_exprs fl l)) by (unfold child_exprs; apply in_flat_map; eauto).
      apply child_exprs_in in Ce as (p & Hp & Hv).
      apply part_values_in in Hv as [(f0 & Hf & Hm & E)|(q & Hq & Hm & E)].
      + exfalso. apply Hl. apply decl_labels_in. exists f0. split.
        * unfold Model.all_fields. apply in_flat_map. eauto.
        * apply label_eqb_eq. exact Hm.
      + apply pat_constraints_in. exists q. subst e. repeat split; auto.
        unfold Model.all_pats. apply in_flat_map. eauto.
    - apply pat_constraints_incl. exact Hpure.
  Qed.

  Lemma normalize_struct_ok f fl :
    n_bot fl = false -> n_struct fl = true -> null (n_scal fl) = true ->
    nf_ok (normalize (S f) fl) = true ->
    forallb (fun q => pure_scalar (snd q)) (Model.all_pats fl) = true /\
    forall l, In l (decl_labels fl) -> allowed (n_closers fl) l = true ->
              nf_ok (normalize f (flat_all (children fl l))) = true.
  Proof.
    intros Hb Hs Hn. cbn [normalize]. rewrite Hb, Hs, Hn. cbn [negb andb].
    change (Model.all_pats fl) with (all_pats fl).
    destruct (forallb (fun q => pure_scalar (snd q)) (all_pats fl)); [|discriminate].
    cbn [nf_ok]. rewrite forallb_forall. intros H. split; auto. intros l Hl Ha.
    specialize (H (l, fk_of_pres (presence fl l),
                   if allowed (n_closers fl) l then normalize f (flat_all (children fl l)) else NBot)).
    rewrite Ha in H. apply H. apply in_map_iff. exists l. rewrite Ha. auto.
  Qed.

  (* the normal form computed from the flattened conjuncts denotes their value *)
  Theorem normalize_sound_F fuel : forall fl,
    nf_ok (normalize fuel fl) = true ->
    denoteF labs atoms fuel (normalize fuel fl) = evalFlat labs atoms fuel fl.
  Proof.
    induction fuel as [|f IH]; intros fl Hok; [reflexivity|].
    cbn [evalFlat]. destruct (n_bot fl) eqn:Hb; [cbn [normalize]; rewrite Hb; reflexivity|].
    destruct (n_struct fl) eqn:Hs.
    - destruct (null (n_scal fl)) eqn:Hn; cbn [negb andb];
        [|cbn [normalize]; rewrite Hb, Hs, Hn; reflexivity].
      destruct (normalize_struct_ok f fl Hb Hs Hn Hok) as [Hpure Hkids].
      cbn [normalize]. rewrite Hb, Hs, Hn. cbn [negb andb]. change (all_pats fl) with (Model.all_pats fl).
      rewrite Hpure. cbn [denoteF]. fold (pats_nf fl).
      set (g := fun l => (fk_of_pres (presence fl l),
                          if allowed (n_closers fl) l then normalize f (flat_all (children fl l)) else NBot)).
      assert (M : map (fun f0 : label * fkind * nf => let (p, v) := f0 in let (l, k) := p in (l, (k, v)))
                      (map (fun l => (l, fk_of_pres (presence fl l),
                                      if allowed (n_closers fl) l then normalize f (flat_all (children fl l)) else NBot))
                           (decl_labels fl)) = map (fun l0 => (l0, g l0)) (decl_labels fl)).
      { rewrite map_map. reflexivity. }
      rewrite M. clear M.
      f_equal; apply map_ext; intros l; rewrite (assoc_find_labels g l (decl_labels fl)).
      + destruct (existsb (label_eqb l) (decl_labels fl)) eqn:El.
        * apply existsb_label_in in El.
          assert (Pn : presence fl l <> PAbsent) by (intros E; apply presence_absent_iff in E; auto).
          unfold g. rewrite (pres_of_fk_of_pres _ Pn).
          destruct (allowed (n_closers fl) l) eqn:Ha.
          -- rewrite (IH _ (Hkids l El Ha)). destruct (presence fl l); try reflexivity. congruence.
          -- destruct (presence fl l); try reflexivity. congruence.
        * assert (Pa : presence fl l = PAbsent).
          { apply presence_absent_iff. intros H. apply existsb_label_in in H. congruence. }
          rewrite Pa. reflexivity.
      + destruct (existsb (label_eqb l) (decl_labels fl)) eqn:El.
        * apply existsb_label_in in El. unfold g. destruct (allowed (n_closers fl) l) eqn:Ha; [|reflexivity].
          rewrite (IH _ (Hkids l El Ha)). reflexivity.
        * rewrite (undeclared_child_eval f fl l Hpure); [reflexivity|].
          intros H. apply existsb_label_in in H. congruence.
    - cbn [normalize andb]. rewrite Hb, Hs. cbn [andb].
      destruct (scalar_bottom (n_scal fl)) eqn:Hsb; cbn [denoteF]; unfold sres; rewrite ?Hsb; reflexivity.
  Qed.
End NormalizeSound.

(* ---- the computed normal form is well formed --------------------------------------------- *)
Lemma nodup_labels_NoDup ls : NoDup ls -> nodup_labels ls = true.
Proof.
  induction 1 as [|l ls Hn Hd IH]; [reflexivity|]. rewrite nodup_labels_cons, IH, andb_true_r.
  apply negb_true_iff. apply not_true_is_false. intros H. apply existsb_label_in in H. auto.
Qed.

Lemma normalize_shape_scal f fl cs : normalize f fl = NScal cs -> cs = n_scal fl /\ scalar_bottom cs = false.
Proof.
  destruct f as [|f]; [discriminate|]. cbn [normalize].
  destruct (n_bot fl); [discriminate|]. destruct (n_struct fl).
  - destruct (negb (null (n_scal fl))); cbn [andb]; [discriminate|].
    destruct (forallb _ (all_pats fl)); discriminate.
  - cbn [andb]. destruct (scalar_bottom (n_scal fl)) eqn:E; [discriminate|]. intros H. injection H as <-. auto.
Qed.

Lemma normalize_shape_struct f fl fs ps cl : normalize f fl = NStruct fs ps cl -> n_scal fl = [].
Proof.
  destruct f as [|f]; [discriminate|]. cbn [normalize].
  destruct (n_bot fl); [discriminate|]. destruct (n_struct fl).
  - destruct (n_scal fl); [reflexivity|]. cbn. discriminate.
  - cbn [andb]. destruct (scalar_bottom (n_scal fl)); discriminate.
Qed.

Theorem normalize_wf fuel : forall fl, nf_ok (normalize fuel fl) = true -> wfb (normalize fuel fl) = true.
Proof.
  induction fuel as [|f IH]; intros fl Hok; [discriminate|].
  destruct (n_bot fl) eqn:Hb; [cbn [normalize]; rewrite Hb; reflexivity|].
  destruct (n_struct fl) eqn:Hs.
  - destruct (null (n_scal fl)) eqn:Hn; [|cbn [normalize]; rewrite Hb, Hs, Hn; reflexivity].
    destruct (normalize_struct_ok f fl Hb Hs Hn Hok) as [Hpure Hkids].
    cbn [normalize]. rewrite Hb, Hs, Hn. cbn [negb andb]. change (all_pats fl) with (Model.all_pats fl).
    rewrite Hpure. cbn [wfb]. fold (pats_nf fl). apply andb_true_iff. split.
    + rewrite map_map. cbn [fst]. rewrite map_id. apply nodup_labels_NoDup. apply NoDup_nodup.
    + apply forallb_forall. intros x Hx. apply in_map_iff in Hx as (l & <- & Hl).
      destruct (allowed (n_closers fl) l) eqn:Ha; [|reflexivity].
      pose proof (Hkids l Hl Ha) as Hk. rewrite (IH _ Hk). cbn [andb].
      pose proof (pat_constraints_incl fl l Hpure) as Hi.
      destruct (normalize f (flat_all (children fl l))) as [| | |cs|fs' ps' cl'] eqn:En; try reflexivity; try discriminate.
      * cbn [absorbs]. apply incl_inclb. destruct (normalize_shape_scal _ _ _ En) as [-> _]. exact Hi.
      * cbn [absorbs]. rewrite (normalize_shape_struct _ _ _ _ _ En) in Hi.
        destruct (pat_constraints (pats_nf fl) l) as [|x xs]; [reflexivity|]. destruct (Hi x (or_introl eq_refl)).
  - cbn [normalize andb]. rewrite Hb, Hs. cbn [andb].
    destruct (scalar_bottom (n_scal fl)) eqn:Hsb; cbn [wfb]; rewrite ?Hsb; reflexivity.
Qed.

(* ---- C07 for the model: print the evaluated value, evaluate the text again ---------------- *)
Section RoundTrip.
  Variable labs : list label.
  Variable atoms : list atom.

  (* For every list of conjunct groups whose normal form is inside the printable fragment
     (scalar-valued patterns; enough fuel for normalisation - both decided by [nf_ok]):
     evaluating the printed normal form gives exactly the result tree of the original
     conjuncts - fields, presence, scalar observables and closedness at every node. *)
  Theorem print_roundtrip fuel cs :
    nf_ok (normalize_conjs fuel cs) = true ->
    evalNode labs atoms fuel [mkConj false [print_nf (normalize_conjs fuel cs)]] = evalNode labs atoms fuel cs.
  Proof.
    intros Hok. unfold normalize_conjs in *. rewrite eval_print_F by (apply normalize_wf, Hok).
    apply normalize_sound_F, Hok.
  Qed.

  Corollary normalize_denotes fuel cs :
    nf_ok (normalize_conjs fuel cs) = true -> depth (normalize_conjs fuel cs) < fuel ->
    denote labs atoms (normalize_conjs fuel cs) = evalNode labs atoms fuel cs.
  Proof.
    intros Hok Hd. rewrite <- (denoteF_denote labs atoms fuel _ Hd). apply normalize_sound_F, Hok.
  Qed.
End RoundTrip.
