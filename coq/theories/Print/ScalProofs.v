(* Scalar part of C07: canonical shape of a scalar, semantic equivalence of constraint
   lists, soundness of the predeclared-range rewriting of bounds.go. *)
From Verif Require Import Core.Syntax Core.Eval Core.Laws Core.Spec Print.Model.
From Coq Require Import List Bool ZArith NArith Lia.
Import ListNotations.

(* two constraint lists are equivalent when they admit the same kinds and atoms and pin the
   same atoms *)
Definition sc_equiv (cs cs' : list sconstr) : Prop :=
  (forall k, forallb (sc_kind_ok k) cs = forallb (sc_kind_ok k) cs') /\
  (forall a, forallb (ssat a) cs = forallb (ssat a) cs') /\
  (forall a, existsb (is_atom_c a) cs = existsb (is_atom_c a) cs').

Lemma sc_equiv_refl cs : sc_equiv cs cs.
Proof. repeat split; auto. Qed.

Lemma sc_equiv_sym a b : sc_equiv a b -> sc_equiv b a.
Proof. intros (A & B & C). repeat split; intros; symmetry; auto. Qed.

Lemma sc_equiv_trans a b c : sc_equiv a b -> sc_equiv b c -> sc_equiv a c.
Proof.
  intros (A & B & C) (A' & B' & C'). repeat split; intros.
  - rewrite A; auto. - rewrite B; auto. - rewrite C; auto.
Qed.

Lemma sc_equiv_seq cs cs' : Laws.seq cs cs' -> sc_equiv cs cs'.
Proof.
  intros H. repeat split; intros; [apply forallb_seq | apply forallb_seq | apply existsb_seq]; exact H.
Qed.

Lemma sc_equiv_app a a' b b' : sc_equiv a a' -> sc_equiv b b' -> sc_equiv (a ++ b) (a' ++ b').
Proof.
  intros (A & B & C) (A' & B' & C'). repeat split; intros.
  - rewrite !forallb_app, A, A'. reflexivity.
  - rewrite !forallb_app, B, B'. reflexivity.
  - rewrite !existsb_app, C, C'. reflexivity.
Qed.

(* the "some pinned atom violates a constraint" half of scalar_bottom, by observables *)
Lemma atom_conflict_iff cs :
  existsb (fun c => match c with SAtom a => negb (forallb (ssat a) cs) | _ => false end) cs = true <->
  exists a, existsb (is_atom_c a) cs = true /\ forallb (ssat a) cs = false.
Proof.
  rewrite existsb_exists. split.
  - intros (c & Hc & H). destruct c as [a| | | | | |]; try discriminate.
    exists a. split; [|apply negb_true_iff; exact H].
    apply existsb_exists. exists (SAtom a). split; auto. simpl. apply atom_eqb_eq. reflexivity.
  - intros (a & Hp & Ha). apply existsb_exists in Hp as (c & Hc & E).
    destruct c as [b| | | | | |]; try discriminate. simpl in E. apply atom_eqb_eq in E. subst b.
    exists (SAtom a). split; auto. rewrite Ha. reflexivity.
Qed.

Lemma scalar_bottom_equiv cs cs' : sc_equiv cs cs' -> scalar_bottom cs = scalar_bottom cs'.
Proof.
  intros (A & B & C). unfold scalar_bottom. f_equal.
  - f_equal. apply existsb_ext. intros k. apply A.
  - apply bool_eq_iff. rewrite !atom_conflict_iff.
    split; intros (a & H1 & H2); exists a; [rewrite <- C, <- B | rewrite C, B]; auto.
Qed.

Lemma sres_equiv atoms cs cs' : sc_equiv cs cs' -> sres atoms cs = sres atoms cs'.
Proof.
  intros E. unfold sres. rewrite (scalar_bottom_equiv _ _ E). destruct E as (A & B & C).
  destruct (scalar_bottom cs'); [reflexivity|]. f_equal; apply map_ext; auto.
Qed.

(* ---- canonical shape ------------------------------------------------------------------- *)
Lemma first_atom_in cs a : first_atom cs = Some a -> In (SAtom a) cs.
Proof.
  induction cs as [|c cs IH]; simpl; [discriminate|].
  destruct c; try (intros H; right; apply IH; exact H).
  intros H. injection H as ->. left. reflexivity.
Qed.

Lemma first_atom_none cs a : first_atom cs = None -> ~ In (SAtom a) cs.
Proof.
  induction cs as [|c cs IH]; simpl; [tauto|].
  destruct c; try discriminate; intros H [E|E]; try discriminate; apply (IH H E).
Qed.

Lemma not_bottom_atom_sat cs a :
  scalar_bottom cs = false -> In (SAtom a) cs -> forallb (ssat a) cs = true.
Proof.
  intros Hb Hin. unfold scalar_bottom in Hb. apply orb_false_iff in Hb as [_ Hb].
  destruct (forallb (ssat a) cs) eqn:E; auto.
  assert (X : existsb (fun c => match c with SAtom a0 => negb (forallb (ssat a0) cs) | _ => false end) cs = true).
  { apply existsb_exists. exists (SAtom a). split; auto. rewrite E. reflexivity. }
  congruence.
Qed.

(* C07: a non-erroneous scalar is equivalent to its canonical shape (the atom alone when it
   is concrete) *)
Theorem canon_scal_equiv cs : scalar_bottom cs = false -> sc_equiv (canon_scal cs) cs.
Proof.
  intros Hb. unfold canon_scal. destruct (first_atom cs) as [a|] eqn:Ef.
  - pose proof (first_atom_in _ _ Ef) as Hin.
    pose proof (not_bottom_atom_sat _ _ Hb Hin) as Hsat.
    rewrite forallb_forall in Hsat.
    repeat split.
    + intros k. cbn [forallb]. rewrite andb_true_r. cbn [sc_kind_ok].
      destruct (skind_eqb (atom_kind a) k) eqn:Ek.
      * symmetry. apply forallb_forall. intros c Hc.
        assert (K : k = atom_kind a) by (destruct a, k; simpl in Ek; try discriminate; reflexivity).
        subst k. apply ssat_kind_ok. auto.
      * symmetry. apply not_true_is_false. intros H. rewrite forallb_forall in H.
        specialize (H _ Hin). simpl in H. congruence.
    + intros x. cbn [forallb ssat]. rewrite andb_true_r.
      destruct (atom_eqb x a) eqn:Ex.
      * apply atom_eqb_eq in Ex. subst x. symmetry. apply forallb_forall. exact Hsat.
      * symmetry. apply not_true_is_false. intros H. rewrite forallb_forall in H.
        specialize (H _ Hin). simpl in H. congruence.
    + intros x. cbn [existsb is_atom_c]. rewrite orb_false_r.
      destruct (atom_eqb x a) eqn:Ex.
      * apply atom_eqb_eq in Ex. subst x. symmetry. apply existsb_exists.
        exists (SAtom a). split; auto. simpl. apply atom_eqb_eq. reflexivity.
      * symmetry. apply not_true_is_false. intros H. apply existsb_exists in H as (c & Hc & E).
        destruct c as [b| | | | | |]; try discriminate. simpl in E. apply atom_eqb_eq in E. subst b.
        pose proof (Hsat _ Hc) as S. simpl in S. apply atom_eqb_eq in S. subst x.
        assert (atom_eqb a a = true) by (apply atom_eqb_eq; reflexivity). congruence.
  - apply sc_equiv_seq. intros x. apply nodup_In.
Qed.

Lemma inclb_incl a b : inclb a b = true -> incl a b.
Proof.
  unfold inclb. rewrite forallb_forall. intros H x Hx. specialize (H x Hx).
  apply existsb_exists in H as (y & Hy & E). destruct (sconstr_eq_dec x y); [subst; auto | discriminate].
Qed.

Lemma incl_inclb a b : incl a b -> inclb a b = true.
Proof.
  intros H. unfold inclb. apply forallb_forall. intros x Hx. apply existsb_exists.
  exists x. split; [apply H, Hx|]. destruct (sconstr_eq_dec x x); congruence.
Qed.

(* constraints that are already part of the value add nothing *)
Lemma absorb_equiv cs pcs : incl pcs cs -> sc_equiv (cs ++ pcs) cs.
Proof.
  intros H. apply sc_equiv_seq. intros x. rewrite in_app_iff. split; [intros [A|A]; auto | auto].
Qed.

Lemma canon_absorb_equiv cs pcs :
  scalar_bottom cs = false -> incl pcs cs -> sc_equiv (canon_scal cs ++ pcs) cs.
Proof.
  intros Hb Hi. eapply sc_equiv_trans; [|apply absorb_equiv, Hi].
  apply sc_equiv_app; [apply canon_scal_equiv, Hb | apply sc_equiv_refl].
Qed.

(* ---- bounds.go ------------------------------------------------------------------------------ *)
Definition sat_all (a : atom) (cs : list sconstr) : bool := forallb (ssat a) cs.
Definition psat_all (a : atom) (ts : list ptok) : bool := forallb (psat a) ts.

Definition opt_min_sat (a : atom) (m : option (bool * Z)) : bool :=
  match m with None => true | Some mn => psat a (min_tok mn) end.
Definition opt_max_sat (a : atom) (m : option (bool * Z)) : bool :=
  match m with None => true | Some mx => psat a (max_tok mx) end.

(* what a simplifier state together with the unused values stands for *)
Definition bs_sat (a : atom) (s : bsimp) (rest : list sconstr) : bool :=
  (if bs_int s then ssat a (SKind KInt) else true) && opt_min_sat a (bs_min s) && opt_max_sat a (bs_max s) &&
  sat_all a rest.

Lemma bs_add_sound a s c :
  let '(s', used) := bs_add s c in
  forall rest, bs_sat a s' (if used then rest else rest ++ [c]) = bs_sat a s rest && ssat a c.
Proof.
  destruct s as [i mn mx]. unfold bs_sat, sat_all.
  destruct c as [b|k|n|n|n|n|n]; cbn [bs_add bs_int bs_min bs_max].
  - intros rest. rewrite forallb_app. cbn [forallb]. rewrite andb_true_r, !andb_assoc. reflexivity.
  - destruct k; intros rest; cbn [bs_int bs_min bs_max];
      try (rewrite forallb_app; cbn [forallb]; rewrite andb_true_r, !andb_assoc; reflexivity).
    destruct i, (ssat a (SKind KInt)), (opt_min_sat a mn), (opt_max_sat a mx), (forallb (ssat a) rest); reflexivity.
  - (* > n *)
    destruct mn as [[ge m]|]; cbn [bs_int bs_min bs_max].
    + destruct (Z.gtb m n) eqn:E; cbn [negb bs_int bs_min bs_max]; intros rest;
        destruct i, a as [x| | |], ge; cbn [ssat opt_min_sat opt_max_sat psat min_tok fst snd andb atom_kind skind_eqb];
        rewrite ?andb_false_r, ?andb_true_r; try reflexivity;
        destruct (opt_max_sat (AInt x) mx), (forallb (ssat (AInt x)) rest); rewrite ?andb_false_r, ?andb_true_r; try reflexivity;
        cbn [opt_max_sat]; lia.
    + intros rest. cbn [opt_min_sat psat min_tok fst snd].
      destruct i, (ssat a (SKind KInt)), (ssat a (SGt n)), (opt_max_sat a mx), (forallb (ssat a) rest); reflexivity.
  - (* >= n *)
    destruct mn as [[ge m]|]; cbn [bs_int bs_min bs_max].
    + destruct (Z.ltb m n) eqn:E; cbn [negb bs_int bs_min bs_max]; intros rest;
        destruct i, a as [x| | |], ge; cbn [ssat opt_min_sat opt_max_sat psat min_tok fst snd andb atom_kind skind_eqb];
        rewrite ?andb_false_r, ?andb_true_r; try reflexivity;
        destruct (opt_max_sat (AInt x) mx), (forallb (ssat (AInt x)) rest); rewrite ?andb_false_r, ?andb_true_r; try reflexivity;
        lia.
    + intros rest. cbn [opt_min_sat psat min_tok fst snd].
      destruct i, (ssat a (SKind KInt)), (ssat a (SGe n)), (opt_max_sat a mx), (forallb (ssat a) rest); reflexivity.
  - (* < n *)
    destruct mx as [[le m]|]; cbn [bs_int bs_min bs_max].
    + destruct (Z.ltb m n) eqn:E; cbn [negb bs_int bs_min bs_max]; intros rest;
        destruct i, a as [x| | |], le; cbn [ssat opt_min_sat opt_max_sat psat max_tok fst snd andb atom_kind skind_eqb];
        rewrite ?andb_false_r, ?andb_true_r; try reflexivity;
        destruct (opt_min_sat (AInt x) mn), (forallb (ssat (AInt x)) rest); rewrite ?andb_false_r, ?andb_true_r; try reflexivity;
        lia.
    + intros rest. cbn [opt_max_sat psat max_tok fst snd].
      destruct i, (ssat a (SKind KInt)), (ssat a (SLt n)), (opt_min_sat a mn), (forallb (ssat a) rest); reflexivity.
  - (* <= n *)
    destruct mx as [[le m]|]; cbn [bs_int bs_min bs_max].
    + destruct (Z.gtb m n) eqn:E; cbn [negb bs_int bs_min bs_max]; intros rest;
        destruct i, a as [x| | |], le; cbn [ssat opt_min_sat opt_max_sat psat max_tok fst snd andb atom_kind skind_eqb];
        rewrite ?andb_false_r, ?andb_true_r; try reflexivity;
        destruct (opt_min_sat (AInt x) mn), (forallb (ssat (AInt x)) rest); rewrite ?andb_false_r, ?andb_true_r; try reflexivity;
        lia.
    + intros rest. cbn [opt_max_sat psat max_tok fst snd].
      destruct i, (ssat a (SKind KInt)), (ssat a (SLe n)), (opt_min_sat a mn), (forallb (ssat a) rest); reflexivity.
  - intros rest. rewrite forallb_app. cbn [forallb]. rewrite andb_true_r, !andb_assoc. reflexivity.
Qed.

Lemma bs_fold_sound a cs : forall s rest,
  let '(s', rest') := fold_left (fun acc c => let '(s, rest) := acc in
                                              let '(s', used) := bs_add s c in
                                              (s', if used then rest else rest ++ [c])) cs (s, rest) in
  bs_sat a s' rest' = bs_sat a s rest && sat_all a cs.
Proof.
  induction cs as [|c cs IH]; intros s rest; cbn [fold_left].
  - unfold sat_all. cbn [forallb]. rewrite andb_true_r. reflexivity.
  - pose proof (bs_add_sound a s c) as H. destruct (bs_add s c) as [s1 used].
    specialize (IH s1 (if used then rest else rest ++ [c])).
    destruct (fold_left _ cs (s1, if used then rest else rest ++ [c])) as [s' rest'].
    rewrite IH, H. unfold sat_all. cbn [forallb]. rewrite andb_assoc. reflexivity.
Qed.

Lemma psat_all_map_PC a cs : psat_all a (map PC cs) = sat_all a cs.
Proof. unfold psat_all, sat_all. induction cs as [|c cs IH]; simpl; auto. rewrite IH. reflexivity. Qed.

Lemma sat_all_sort_kinds a cs : sat_all a (sort_kinds cs) = sat_all a cs.
Proof.
  unfold sat_all, sort_kinds. rewrite forallb_app.
  induction cs as [|c cs IH]; [reflexivity|]. cbn [filter forallb].
  destruct (is_kind_c c); cbn [negb forallb]; rewrite <- IH;
    destruct (ssat a c), (forallb (ssat a) (filter is_kind_c cs)); reflexivity.
Qed.

(* ---- MatchBuiltinRange ---- *)
Definition mb_sat (a : atom) (s : mbr) : bool :=
  (if mb_int s then ssat a (SKind KInt) else true) &&
  (match mb_lo s with Some n => ssat a (SGe n) | None => true end) &&
  (match mb_hi s with Some n => ssat a (SLe n) | None => true end).

Lemma mb_fold_none cs : fold_left mb_step cs None = None.
Proof. induction cs as [|c cs IH]; [reflexivity|]. exact IH. Qed.

Lemma mb_step_sound a s c s' : mb_step (Some s) c = Some s' -> mb_sat a s' = mb_sat a s && ssat a c.
Proof.
  destruct s as [i lo hi]. unfold mb_sat. destruct c as [b|k|n|n|n|n|n]; cbn [mb_step mb_int mb_lo mb_hi]; try discriminate.
  - destruct k; try discriminate. destruct i; [discriminate|]. intros H. injection H as <-. cbn [mb_int mb_lo mb_hi].
    destruct (ssat a (SKind KInt)), lo, hi; cbn; rewrite ?andb_true_r, ?andb_false_r; reflexivity.
  - destruct lo; [discriminate|]. intros H. injection H as <-. cbn [mb_int mb_lo mb_hi].
    destruct i, (ssat a (SKind KInt)), (ssat a (SGe n)), hi; cbn; rewrite ?andb_true_r, ?andb_false_r; reflexivity.
  - destruct hi; [discriminate|]. intros H. injection H as <-. cbn [mb_int mb_lo mb_hi].
    destruct i, (ssat a (SKind KInt)), (ssat a (SLe n)), lo; cbn; rewrite ?andb_true_r, ?andb_false_r; reflexivity.
Qed.

Lemma mb_fold_sound a cs : forall s s',
  fold_left mb_step cs (Some s) = Some s' -> mb_sat a s' = mb_sat a s && sat_all a cs.
Proof.
  induction cs as [|c cs IH]; intros s s'; cbn [fold_left].
  - intros H. injection H as <-. unfold sat_all. cbn. rewrite andb_true_r. reflexivity.
  - destruct (mb_step (Some s) c) as [s1|] eqn:E; [|rewrite mb_fold_none; discriminate].
    intros H. rewrite (IH _ _ H), (mb_step_sound a s c s1 E). unfold sat_all. cbn [forallb].
    rewrite andb_assoc. reflexivity.
Qed.

Lemma match_builtin_sound a cs t : match_builtin_range cs = Some t -> psat a t = sat_all a cs.
Proof.
  unfold match_builtin_range.
  destruct (fold_left mb_step cs (Some (mkMB false None None))) as [[i lo hi]|] eqn:E; [|discriminate].
  pose proof (mb_fold_sound a cs _ _ E) as H. unfold mb_sat in H at 2. cbn in H.
  destruct i; [|discriminate]. destruct lo as [lo|]; [|discriminate]. destruct hi as [hi|].
  - destruct (existsb _ int_builtin_ranges); [|discriminate]. intros T. injection T as <-.
    rewrite <- H. unfold mb_sat. cbn [mb_int mb_lo mb_hi psat]. reflexivity.
  - destruct (Z.eqb lo 0) eqn:Ez; [|discriminate]. intros T. injection T as <-.
    apply Z.eqb_eq in Ez. subst lo. rewrite <- H. unfold mb_sat. cbn [mb_int mb_lo mb_hi psat].
    rewrite andb_true_r. reflexivity.
Qed.

(* C07 (bounds.go): the predeclared-range form written for a conjunction of a basic type and
   integer bounds admits exactly the atoms that all the original conjuncts admit - for every
   list of constraints in every order, whatever the evaluator left in the conjunction *)
Theorem range_rewrite_sound a cs : psat_all a (range_rewrite cs) = sat_all a cs.
Proof.
  unfold range_rewrite. destruct (match_builtin_range cs) as [t|] eqn:Em.
  { unfold psat_all. cbn [forallb]. rewrite andb_true_r. apply match_builtin_sound, Em. }
  pose proof (bs_fold_sound a cs bs_init []) as H. unfold bs_fold.
  destruct (fold_left _ cs (bs_init, [])) as [s rest].
  assert (E : bs_sat a s rest = sat_all a cs) by (rewrite H; reflexivity). clear H.
  destruct s as [i mn mx]. cbn [bs_min bs_max bs_int].
  destruct mn as [mn|]; [|rewrite psat_all_map_PC; apply sat_all_sort_kinds].
  destruct mx as [mx|]; [|rewrite psat_all_map_PC; apply sat_all_sort_kinds].
  rewrite <- E. unfold bs_sat, psat_all. cbn [bs_int bs_min bs_max opt_min_sat opt_max_sat].
  rewrite forallb_app. cbn [app forallb]. fold (psat_all a (map PC (sort_kinds rest))).
  rewrite psat_all_map_PC, sat_all_sort_kinds.
  destruct i.
  - destruct mn as [ge n]. cbn [fst snd]. destruct (Z.ltb n 0) eqn:En.
    + cbn [forallb psat]. rewrite !andb_true_r, !andb_assoc. reflexivity.
    + destruct (Z.eqb n 0 && ge) eqn:Ez.
      * apply andb_true_iff in Ez as [Ez ->]. apply Z.eqb_eq in Ez. subst n.
        cbn [forallb psat min_tok fst snd]. rewrite !andb_true_r, !andb_assoc. reflexivity.
      * cbn [forallb psat]. rewrite !andb_true_r.
        assert (X : ssat a (SKind KInt) && ssat a (SGe 0) && psat a (min_tok (ge, n)) =
                    ssat a (SKind KInt) && psat a (min_tok (ge, n))).
        { destruct a as [x| | |]; try reflexivity. destruct ge; cbn [ssat psat min_tok fst snd atom_kind skind_eqb andb];
            [destruct (Z.leb n x) eqn:L | destruct (Z.ltb n x) eqn:L]; rewrite ?andb_true_r, ?andb_false_r; auto; lia. }
        rewrite X, !andb_assoc. reflexivity.
  - cbn [forallb]. rewrite !andb_true_r, !andb_assoc. reflexivity.
Qed.
