(* C07, implementation layer for the definition-mode profiles (default / All / Raw /
   Definitions+Hidden+Optional): what export.Profile.Def + expr.go mergeValues do AT THE ROOT of
   the printed value, on conjunct lists made of struct literals, close(...) calls and definition
   references.  This is where the pinned tree deviates from the property (known findings F10, F11):

     - mergeValues merges the plain struct literals among the conjuncts into one literal s and
       keeps every other conjunct (close(...) call, reference) as a separate operand of &;
       wrapCloseIfNecessary then writes close(s) when the vertex is closed non-recursively
       (v.ClosedNonRecursive: some conjunct reaches a close()) and s has no "...";
     - Def, for a recursively closed vertex (v.IsRecursivelyClosed(): some conjunct reaches a
       definition), wraps the WHOLE result in a hidden definition: {_#def, _#def: <all conjuncts,
       references replaced by their bodies>}.

   Nested levels are not modelled here (the merged literal keeps its field values), so the model
   is exact only for programs whose nested nodes are not themselves closed-and-merged. *)
From Verif Require Import Core.Syntax Core.Eval Core.Laws Print.Model.
From Coq Require Import List Bool ZArith NArith.
Import ListNotations.

(* a struct literal among the conjuncts is taken apart (addExpr): its fields, "..." and
   embeddings become declarations of the one merged literal *)
Definition is_plain (e : expr) : bool := match e with EStruct _ => true | _ => false end.

(* v.ClosedNonRecursive: a close() is reached through & and embeddings *)
Fixpoint reaches_close (e : expr) : bool :=
  match e with
  | EClose _ => true
  | EAnd a b => reaches_close a || reaches_close b
  | EStruct ds =>
    (fix go (ds : list (dhead * expr)) : bool :=
       match ds with
       | [] => false
       | (h, e') :: r => (match h with HEmbed => reaches_close e' | _ => false end) || go r
       end) ds
  | _ => false
  end.

Definition has_ellipsis (ds : list (dhead * expr)) : bool :=
  existsb (fun d => match fst d with HEllipsis => true | _ => false end) ds.

(* inside the _#def wrapper a reference to a definition outside the printed value is replaced by
   the body of the definition - as a conjunct and as an embedding of the merged literal *)
Definition unref1 (e : expr) : expr := match e with ERefDef b => b | _ => e end.
Definition unref_decl (d : dhead * expr) : dhead * expr :=
  match fst d with HEmbed => (HEmbed, unref1 (snd d)) | _ => d end.
Definition unref (e : expr) : expr :=
  match e with
  | ERefDef b => b
  | EStruct ds => EStruct (map unref_decl ds)
  | EClose (EStruct ds) => EClose (EStruct (map unref_decl ds))
  | _ => e
  end.

Definition decls_of (e : expr) : list (dhead * expr) := match e with EStruct ds => ds | _ => [] end.

(* a literal with a pattern constraint ("complex") is not taken apart: it is embedded as a whole *)
Definition is_complex (e : expr) : bool :=
  existsb (fun d => match fst d with HPattern _ => true | _ => false end) (decls_of e).
Definition is_field_or_ellipsis (d : dhead * expr) : bool :=
  match fst d with HField _ _ | HEllipsis => true | _ => false end.
Definition is_embed_decl (d : dhead * expr) : bool := match fst d with HEmbed => true | _ => false end.

Definition impl_parts (es : list expr) : list expr :=
  let plain := filter is_plain es in
  let kept := filter (fun e => negb (is_plain e)) es in
  let simple := filter (fun e => negb (is_complex e)) plain in
  let merged := flat_map decls_of plain in
  let ws := if existsb reaches_close es && negb (has_ellipsis merged)
            then EClose (EStruct merged) else EStruct merged in
  if null plain then kept
  else if existsb is_field_or_ellipsis (flat_map decls_of simple) then kept ++ [ws]
  else
    (* no field and no "...": mergeValues looks at the embeddings and the other conjuncts *)
    let embeds := map snd (filter is_embed_decl (flat_map decls_of simple)) ++ filter is_complex plain in
    match embeds, kept with
    | [], [] => [ws]
    | [x], [] => [x]
    | [], [x] => [x]
    | _, _ => kept ++ [ws]
    end.

Definition impl_def_root (es : list expr) : expr :=
  if existsb reaches_def es
  then ERefDef (and_all (map unref (impl_parts es)))
  else and_all (impl_parts es).

(* the operands of & of a declaration *)
Fixpoint and_operands (e : expr) : list expr :=
  match e with
  | EAnd a b => and_operands a ++ and_operands b
  | _ => [e]
  end.

Definition root_operands (cs : list conj) : list expr :=
  flat_map (fun c => flat_map and_operands (c_exprs c)) cs.

Definition impl_def (cs : list conj) : list conj := [mkConj false [impl_def_root (root_operands cs)]].
