(* Non-vacuity: the hypotheses of the C07 theorems are met by non-trivial values. *)
From Verif Require Import Core.Syntax Core.Eval Print.Model Print.ScalProofs Print.Proofs Print.ProjProofs.
From Coq Require Import List ZArith NArith.
Import ListNotations.
Local Open Scope Z_scope.

Definition ex_labs := [LReg 0; LReg 1; LReg 2; LReg 3; LReg 4; LHid 0; LDef 0]%N.
Definition ex_atoms := [AInt (-1); AInt 0; AInt 1; AInt 5; AStr 0; ABool true; ANull].

(* #D0: {a?: int, [=~"b$"]: string, b: close({"_c"?: >0}), _h0: 1}   x: #D0 & {a: 5} *)
Definition ex_D0 :=
  EStruct [(HField (LReg 0) FOptional, EScalar (SKind KInt));
           (HPattern [2; 4]%N, EScalar (SKind KStr));
           (HField (LReg 1) FRegular, EClose (EStruct [(HField (LReg 3) FOptional, EScalar (SGt 0))]));
           (HField (LHid 0) FRegular, EScalar (SAtom (AInt 1)))].
Definition ex_cs :=
  [mkConj false [ERefDef ex_D0]; mkConj false [EStruct [(HField (LReg 0) FRegular, EScalar (SAtom (AInt 5)))]]].
Definition ex_nf := normalize_conjs 10 ex_cs.

(* the normal form is inside the printable fragment, well formed, of depth 2; it has a pattern,
   closers at two levels, an optional and a hidden field *)
Example ex_nf_ok : nf_ok ex_nf = true /\ wfb ex_nf = true /\ depth ex_nf = 2%nat.
Proof. vm_compute. auto. Qed.

Example ex_nf_shape :
  match ex_nf with
  | NStruct fs ps cl => length fs = 3%nat /\ length ps = 1%nat /\ length cl = 1%nat
  | _ => False
  end.
Proof. vm_compute. auto. Qed.

(* the round trip on this value, computed (an instance of print_roundtrip) *)
Example ex_roundtrip :
  evalNode ex_labs ex_atoms 10 [mkConj false [print_nf ex_nf]] = evalNode ex_labs ex_atoms 10 ex_cs.
Proof. vm_compute. reflexivity. Qed.

(* the value is closed: the fresh label cannot be added, the declared optional one can *)
Example ex_closed :
  match evalNode ex_labs ex_atoms 10 ex_cs with
  | RStruct _ o => o = [true; true; true; false; true; true; true]
  | _ => False
  end.
Proof. vm_compute. reflexivity. Qed.

(* Final drops the hidden field, the pattern and closedness, keeps a and b *)
Example ex_project_final :
  project PFinal ex_nf =
  Some (NStruct [(LReg 1, FRegular, NStruct [] [] []); (LReg 0, FRegular, NScal [SAtom (AInt 5); SKind KInt])] [] []).
Proof. vm_compute. reflexivity. Qed.

(* Concrete refuses a value with a non-concrete shown position, accepts a concrete one *)
Example ex_project_concrete_none :
  project PConcrete (NStruct [(LReg 0, FRegular, NScal [SKind KInt])] [] []) = None.
Proof. reflexivity. Qed.
Example ex_project_concrete_some :
  project PConcrete ex_nf <> None.
Proof. vm_compute. discriminate. Qed.

(* a struct-valued pattern is outside the printable fragment, and reported as such *)
Example ex_out :
  nf_ok (normalize_conjs 10 [mkConj false [EStruct [(HPattern [0]%N, EStruct [])]]]) = false.
Proof. reflexivity. Qed.

(* the canonical shape of a concrete scalar is its atom; of a non-concrete one the distinct constraints *)
Example ex_canon_atom : canon_scal [SKind KInt; SGt 0; SAtom (AInt 5); SLt 10] = [SAtom (AInt 5)].
Proof. reflexivity. Qed.
Example ex_canon_bounds : canon_scal [SKind KInt; SGt 0; SKind KInt; SLt 10] = [SGt 0; SKind KInt; SLt 10].
Proof. reflexivity. Qed.

(* bounds.go: int & >1 & <5 is written uint & >1 & <5; int & >=0 & <10 is uint & <10; a negative
   minimum keeps int; without int nothing is added; {int, >=0} is uint; {int, >=-128, <=127} is int8 *)
Example ex_range_uint : range_rewrite [SKind KInt; SGt 1; SLt 5] = [PUint; PC (SGt 1); PC (SLt 5)].
Proof. reflexivity. Qed.
Example ex_range_uint_ge0 : range_rewrite [SGe 0; SKind KInt; SLt 10] = [PUint; PC (SLt 10)].
Proof. reflexivity. Qed.
Example ex_range_int : range_rewrite [SKind KInt; SGt (-5); SLt 10; SNe 3] = [PInt; PC (SGt (-5)); PC (SLt 10); PC (SNe 3)].
Proof. reflexivity. Qed.
Example ex_range_noint : range_rewrite [SGt 1; SLt 5; SGt 0] = [PC (SGt 1); PC (SLt 5)].
Proof. reflexivity. Qed.
Example ex_range_nomax : range_rewrite [SGt 1; SKind KInt] = [PC (SKind KInt); PC (SGt 1)].
Proof. reflexivity. Qed.
Example ex_range_builtin : range_rewrite [SLe 127; SKind KInt; SGe (-128)] = [PRange (-128) 127] /\
                           range_rewrite [SKind KInt; SGe 0] = [PUint].
Proof. split; reflexivity. Qed.
