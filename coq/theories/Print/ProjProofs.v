(* C07: what an option profile promises to show is preserved by projection, printing and
   re-evaluation (project_sound, project_print_sound). *)
From Verif Require Import Core.Syntax Core.Eval Core.Laws Print.Model Print.ScalProofs Print.Proofs.
From Coq Require Import List Bool ZArith NArith Lia.
Import ListNotations.

Definition proj_fields (cl : list allowset) (fs : list (label * fkind * nf)) : list (label * fkind * nf) :=
  flat_map (fun f => match f with
                     | (l, k, v) => if shown_value_mode l k
                                    then [(l, k, if allowed cl l then project_value v else NBot)]
                                    else []
                     end) fs.

Lemma project_value_struct fs ps cl : project_value (NStruct fs ps cl) = NStruct (proj_fields cl fs) [] [].
Proof. reflexivity. Qed.

Lemma assoc_find_cons l l0 (x : fkind * nf) rs :
  assoc_find l ((l0, x) :: rs) = if label_eqb l0 l then Some x else assoc_find l rs.
Proof. reflexivity. Qed.

Lemma proj_fields_absent cl fs l :
  existsb (label_eqb l) (map (fun f : label * fkind * nf => fst (fst f)) fs) = false ->
  assoc_find l (fs_assoc (proj_fields cl fs)) = None.
Proof.
  induction fs as [|[[l0 k0] v0] fs IH]; [reflexivity|]. cbn [map existsb fst].
  intros H. apply orb_false_iff in H as [H1 H2]. cbn [proj_fields flat_map]. fold (proj_fields cl fs).
  destruct (shown_value_mode l0 k0); cbn [app]; [|apply IH, H2].
  cbn [fs_assoc map]. fold (fs_assoc (proj_fields cl fs)). rewrite assoc_find_cons, label_eqb_sym, H1. apply IH, H2.
Qed.

Lemma proj_fields_find cl fs l :
  nodup_labels (map (fun f : label * fkind * nf => fst (fst f)) fs) = true ->
  assoc_find l (fs_assoc (proj_fields cl fs)) =
  match assoc_find l (fs_assoc fs) with
  | Some (k, v) => if shown_value_mode l k then Some (k, if allowed cl l then project_value v else NBot) else None
  | None => None
  end.
Proof.
  induction fs as [|[[l0 k0] v0] fs IH]; [reflexivity|]. cbn [map fst]. rewrite nodup_labels_cons.
  intros H. apply andb_true_iff in H as [H1 H2]. apply negb_true_iff in H1.
  cbn [fs_assoc map]. fold (fs_assoc fs). rewrite assoc_find_cons.
  cbn [proj_fields flat_map]. fold (proj_fields cl fs).
  destruct (label_eqb l0 l) eqn:E.
  - apply label_eqb_eq in E. subst l0.
    destruct (shown_value_mode l k0); cbn [app].
    + cbn [fs_assoc map]. rewrite assoc_find_cons, label_eqb_refl. reflexivity.
    + apply proj_fields_absent, H1.
  - destruct (shown_value_mode l0 k0); cbn [app]; [|apply IH, H2].
    cbn [fs_assoc map]. fold (fs_assoc (proj_fields cl fs)). rewrite assoc_find_cons, E. apply IH, H2.
Qed.

Lemma proj_fields_labels_absent cl fs l :
  existsb (label_eqb l) (map (fun f : label * fkind * nf => fst (fst f)) fs) = false ->
  existsb (label_eqb l) (map (fun f : label * fkind * nf => fst (fst f)) (proj_fields cl fs)) = false.
Proof.
  induction fs as [|[[l0 k0] v0] fs IH]; [reflexivity|]. cbn [map existsb fst].
  intros H. apply orb_false_iff in H as [H1 H2]. cbn [proj_fields flat_map]. fold (proj_fields cl fs).
  destruct (shown_value_mode l0 k0); cbn [app map existsb fst]; rewrite ?H1; apply IH, H2.
Qed.

Lemma proj_fields_nodup cl fs :
  nodup_labels (map (fun f : label * fkind * nf => fst (fst f)) fs) = true ->
  nodup_labels (map (fun f : label * fkind * nf => fst (fst f)) (proj_fields cl fs)) = true.
Proof.
  induction fs as [|[[l0 k0] v0] fs IH]; [reflexivity|]. cbn [map fst]. rewrite nodup_labels_cons.
  intros H. apply andb_true_iff in H as [H1 H2]. apply negb_true_iff in H1.
  cbn [proj_fields flat_map]. fold (proj_fields cl fs).
  destruct (shown_value_mode l0 k0); cbn [app map fst]; [|apply IH, H2].
  rewrite nodup_labels_cons, (proj_fields_labels_absent cl fs l0 H1), (IH H2). reflexivity.
Qed.

Lemma wfb_fields fs ps cl l k v :
  wfb (NStruct fs ps cl) = true -> In (l, k, v) fs -> wfb v = true.
Proof.
  cbn [wfb]. intros H Hin. apply andb_true_iff in H as [_ H]. rewrite forallb_forall in H.
  specialize (H _ Hin). cbn in H. apply andb_true_iff in H as [H _]. exact H.
Qed.

Lemma absorbs_nil v : wfb v = true -> absorbs v [] = true.
Proof. destruct v; try discriminate; reflexivity. Qed.

(* projections of well-formed normal forms are well formed *)
Lemma wfb_project_aux n : forall r, depth r < n -> wfb r = true -> wfb (project_value r) = true.
Proof.
  induction n as [|n IH]; intros r Hd Hw; [lia|].
  destruct r as [| | |cs|fs ps cl]; try exact Hw.
  rewrite project_value_struct. cbn [wfb]. pose proof Hw as Hw'. cbn [wfb] in Hw'.
  apply andb_true_iff in Hw' as [Hn Hf]. rewrite (proj_fields_nodup cl fs Hn). cbn [andb].
  apply forallb_forall. intros [[l k] v] Hin. unfold proj_fields in Hin.
  apply in_flat_map in Hin as ([[l0 k0] v0] & Hin0 & Hin).
  destruct (shown_value_mode l0 k0); [|destruct Hin]. destruct Hin as [E|[]]. injection E as <- <- <-.
  assert (W : wfb (if allowed cl l0 then project_value v0 else NBot) = true).
  { destruct (allowed cl l0); [|reflexivity]. apply IH.
    - pose proof (depth_in fs l0 k0 v0 ps cl Hin0). lia.
    - apply (wfb_fields fs ps cl l0 k0 v0 Hw Hin0). }
  rewrite W. cbn [andb pat_constraints flat_map]. apply absorbs_nil, W.
Qed.

Lemma wfb_project r : wfb r = true -> wfb (project_value r) = true.
Proof. apply (wfb_project_aux (S (depth r))). lia. Qed.

Section ProjectSound.
  Variable labs : list label.
  Variable atoms : list atom.

  Lemma project_res_struct (F : label -> fpres * res) o ls :
    project_res ls (RStruct (map F ls) o) =
    RStruct (map (fun l => if shown_res l (fst (F l)) then (fst (F l), project_res ls (snd (F l)))
                           else (PAbsent, RVal [] [] [])) ls)
            (map (fun l => if shown_res l (fst (F l)) then negb (res_err_aux (project_res ls (snd (F l))))
                           else true) ls).
  Proof.
    cbn [project_res].
    assert (G : forall (ls0 : list label),
               (fix go (ls1 : list label) (fs : list (fpres * res)) {struct fs} : list (fpres * res) :=
                  match fs, ls1 with
                  | (p, r') :: fs', l :: ls' =>
                    (if shown_res l p then (p, project_res ls r') else (PAbsent, RVal [] [] [])) :: go ls' fs'
                  | _, _ => []
                  end) ls0 (map F ls0) =
               map (fun l => if shown_res l (fst (F l)) then (fst (F l), project_res ls (snd (F l)))
                             else (PAbsent, RVal [] [] [])) ls0).
    { induction ls0 as [|l ls0 IH]; [reflexivity|]. cbn [map]. destruct (F l) as [p r'] eqn:E. cbn [fst snd].
      rewrite IH. reflexivity. }
    assert (G' : forall (ls0 : list label),
               (fix go (ls1 : list label) (fs : list (fpres * res)) {struct fs} : list bool :=
                  match fs, ls1 with
                  | (p, r') :: fs', l :: ls' =>
                    (if shown_res l p then negb (res_err_aux (project_res ls r')) else true) :: go ls' fs'
                  | _, _ => []
                  end) ls0 (map F ls0) =
               map (fun l => if shown_res l (fst (F l)) then negb (res_err_aux (project_res ls (snd (F l))))
                             else true) ls0).
    { induction ls0 as [|l ls0 IH]; [reflexivity|]. cbn [map]. destruct (F l) as [p r'] eqn:E. cbn [fst snd].
      rewrite IH. reflexivity. }
    rewrite G, G'. reflexivity.
  Qed.

  Lemma shown_res_pres l k : shown_res l (pres_of k) = shown_value_mode l k.
  Proof. destruct l, k; reflexivity. Qed.

  Lemma sres_nil_ok : res_err_aux (sres atoms []) = false.
  Proof. reflexivity. Qed.

  Lemma allowed_nil l : allowed [] l = true.
  Proof. unfold allowed. simpl. apply orb_true_r. Qed.

  Lemma project_sound_aux n : forall r,
    depth r < n -> wfb r = true ->
    denote labs atoms (project_value r) = project_res labs (denote labs atoms r).
  Proof.
    induction n as [|n IH]; intros r Hd Hw; [lia|].
    destruct r as [| | |cs|fs ps cl]; try reflexivity.
    - cbn [project_value denote]. unfold sres. destruct (scalar_bottom cs); reflexivity.
    - rewrite project_value_struct. cbn [denote]. unfold struct_res.
      pose proof Hw as Hw'. cbn [wfb] in Hw'. apply andb_true_iff in Hw' as [Hn _].
      set (F := fun l => match assoc_find l (map (fun f : label * fkind * nf => match f with (l0, k, v) => (l0, (k, denote labs atoms v)) end) fs) with
                         | Some (k, r) => (pres_of k, if allowed cl l then r else RBot)
                         | None => (PAbsent, RVal [] [] [])
                         end).
      rewrite (project_res_struct F).
      assert (V : forall l k v, assoc_find l (fs_assoc fs) = Some (k, v) ->
                                denote labs atoms (project_value v) = project_res labs (denote labs atoms v)).
      { intros l k v E. pose proof (assoc_find_in fs l k v E) as Hin. apply IH.
        - pose proof (depth_in fs l k v ps cl Hin). lia.
        - apply (wfb_fields fs ps cl l k v Hw Hin). }
      f_equal; apply map_ext; intros l; unfold F; rewrite !denote_struct_assoc, (proj_fields_find cl fs l Hn);
        destruct (assoc_find l (fs_assoc fs)) as [[k v]|] eqn:E; cbn [fst snd]; try reflexivity.
      + rewrite shown_res_pres. destruct (shown_value_mode l k); [|reflexivity]. rewrite allowed_nil.
        destruct (allowed cl l); cbn [denote project_res]; rewrite ?(V l k v E); reflexivity.
      + destruct l; reflexivity.
      + rewrite shown_res_pres, allowed_nil. destruct (shown_value_mode l k); [|reflexivity].
        destruct (allowed cl l); cbn [andb denote project_res]; rewrite ?(V l k v E); reflexivity.
      + rewrite allowed_nil. destruct l; reflexivity.
  Qed.

  Definition project_res_p (p : profile) (r : res) : res :=
    match p with PAll => r | _ => project_res labs r end.

  (* C07 (project_sound): the normal form a profile shows denotes the projection of the value *)
  Theorem project_sound p r r' :
    wfb r = true -> project p r = Some r' ->
    wfb r' = true /\ denote labs atoms r' = project_res_p p (denote labs atoms r).
  Proof.
    intros Hw. destruct p; cbn [project project_res_p].
    - intros H. injection H as <-. split; [apply wfb_project, Hw|]. apply (project_sound_aux (S (depth r))); auto.
    - destruct (nf_concrete (project_value r)); [|discriminate]. intros H. injection H as <-.
      split; [apply wfb_project, Hw|]. apply (project_sound_aux (S (depth r))); auto.
    - intros H. injection H as <-. auto.
  Qed.

  (* ... and printing it and evaluating the text gives exactly that projection *)
  Theorem project_print_sound p r r' fuel :
    wfb r = true -> project p r = Some r' -> depth r' < fuel ->
    evalNode labs atoms fuel [mkConj false [print_nf r']] = project_res_p p (denote labs atoms r).
  Proof.
    intros Hw Hp Hd. destruct (project_sound p r r' Hw Hp) as [Hw' E].
    rewrite (eval_print labs atoms fuel r' Hw' Hd). exact E.
  Qed.

  (* the Concrete profile refuses exactly the values with a non-concrete shown position *)
  Theorem project_concrete_none r :
    project PConcrete r = None <-> nf_concrete (project_value r) = false.
  Proof. cbn [project]. destruct (nf_concrete (project_value r)); split; congruence. Qed.
End ProjectSound.
