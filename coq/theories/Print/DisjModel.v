(* C07 - printing evaluated DISJUNCTIONS with defaults (scalar disjuncts).

   internal/core/export/value.go, exporter.value:

     if e.cfg.TakeDefaults { n = adt.Default(n) }              (Final(), Concrete(true), cue eval,
     ...                                                         cue export: Value.Syntax maps
     case *adt.Disjunction:                                      o.final to TakeDefaults)
         for i, v := range x.Values {
             expr = e.bareValue(v)                  -- each disjunct as a value (atom, basic type,
             if i < x.NumDefaults { expr = *expr }     bound, conjunction)
         }
         result = ast.NewBinExpr(token.OR, a...)

   An evaluated disjunction (adt.Disjunction{Values, NumDefaults}) is modelled as [sdisj]: the
   list of its disjuncts, each the list of scalar constraints that hold, with a flag "is a
   default" (the first NumDefaults values).  [normalize_sdisj] computes it from the operands of
   a conjunction of plain scalars and flat disjunctions with Core/Disj.v's order-free semantics
   (survivors, effective marks); [take_defaults] is adt.Default (the defaults when there are
   some, WITHOUT marks, else everything); [print_sdisj] is the *adt.Disjunction case above: one
   disjunct per value, written with the scalar printer of Print/Model.v, `*` for defaults.

   No proofs in this file. *)
From Verif Require Import Core.Syntax Core.Eval Core.Disj Print.Model.
From Coq Require Import List Bool ZArith NArith.
Import ListNotations.

Definition sdisj : Type := list (bool * list sconstr).

Definition sd_has_default (d : sdisj) : bool := existsb fst d.

(* adt.Default on a disjunction: Values[:NumDefaults] with NumDefaults = 0, or the value itself *)
Definition take_defaults (d : sdisj) : sdisj :=
  if sd_has_default d then map (fun x => (false, snd x)) (filter fst d) else d.

(* exporter.value, case *adt.Disjunction *)
Definition print_sdisj (d : sdisj) : disj := map (fun x => (fst x, print_scal (snd x))) d.

(* every disjunct is a satisfiable scalar (an evaluated disjunction holds no error disjunct) *)
Definition sd_wf (d : sdisj) : bool := forallb (fun x => negb (scalar_bottom (snd x))) d.

(* what an evaluated disjunction denotes: its value/default pair *)
Definition sd_denote (atoms : list atom) (d : sdisj) : list (res * bool) :=
  map (fun x => (sres atoms (snd x), sd_has_default d && fst x)) d.

(* the constraints of one choice of disjuncts together with the plain operands *)
Definition tuple_scal (plain : list expr) (t : list (bool * expr)) : list sconstr :=
  flat_map scal_of (plain ++ map snd t).

Definition pure_disj (d : disj) : bool := forallb (fun c => pure_scalar (snd c)) d.

Section Norm.
  Variable labs : list label.
  Variable atoms : list atom.
  Variable fuel : nat.

  (* the evaluated disjunction of  plain_1 & ... & D_1 & ... & D_n  *)
  Definition normalize_sdisj (plain : list expr) (ds : list disj) : sdisj :=
    let svs := survivors labs atoms fuel plain ds in
    map (fun t => (is_default (length ds) svs t, tuple_scal plain t)) svs.

  (* the text written under a value-mode profile (TakeDefaults) and under a profile that keeps
     the marks (export.Value without TakeDefaults; the shape definition mode re-prints) *)
  Definition print_final (plain : list expr) (ds : list disj) : disj :=
    print_sdisj (take_defaults (normalize_sdisj plain ds)).
  Definition print_marked (plain : list expr) (ds : list disj) : disj :=
    print_sdisj (normalize_sdisj plain ds).
End Norm.

(* the acceptance vector of a value/default pair, and of its defaults only *)
Definition pair_accepts (atoms : list atom) (p : list (res * bool)) : list bool :=
  map (accepts p) (seq 0 (length atoms)).
