(* C07, implementation layer: the definition-mode printer of the pinned tree is refuted on closed
   values that receive a further conjunct (known findings F10, F11) and agrees with the
   specification on conjunct lists of plain (embedding-free) struct literals. *)
From Verif Require Import Core.Syntax Core.Eval Core.Laws Print.Model Print.Proofs Print.Impl.
From Coq Require Import List Bool ZArith NArith.
Import ListNotations.

Definition plain_lit (e : expr) : bool := match e with EStruct ds => embed_free ds | _ => false end.

Definition F_own (e : expr) := fields_of (decls_of e).
Definition F_pat (e : expr) := pats_of (decls_of e).

Lemma flat_exprs_plain r es :
  forallb plain_lit es = true ->
  flat_exprs r es = mkFlat false [] (negb (null es)) (flat_map F_own es) (flat_map F_pat es) [] [].
Proof.
  induction es as [|e es IH]; [reflexivity|]. intros H. cbn [forallb] in H. apply andb_true_iff in H as [He Hr].
  rewrite flat_exprs_cons, (IH Hr). destruct e; try discriminate. cbn [plain_lit] in He.
  rewrite (flatten_embed_free r al_empty ds He). reflexivity.
Qed.

Lemma flat_conj_false_eq es es' :
  flat_exprs false es = flat_exprs false es' -> flat_conj (mkConj false es) = flat_conj (mkConj false es').
Proof. intros H. unfold flat_conj. cbn [c_rec c_exprs andb]. rewrite H. reflexivity. Qed.

Lemma flat_conj_false_neq es es' :
  f_bot (flat_exprs false es) = f_bot (flat_exprs false es') ->
  f_struct (flat_exprs false es) = f_struct (flat_exprs false es') ->
  f_scal (flat_exprs false es) = f_scal (flat_exprs false es') ->
  Laws.seq (f_own (flat_exprs false es)) (f_own (flat_exprs false es')) ->
  Laws.seq (f_ownp (flat_exprs false es)) (f_ownp (flat_exprs false es')) ->
  f_subs (flat_exprs false es) = f_subs (flat_exprs false es') ->
  f_closers (flat_exprs false es) = f_closers (flat_exprs false es') ->
  Laws.neq (flat_conj (mkConj false es)) (flat_conj (mkConj false es')).
Proof.
  intros Hb Hs Hsc Ho Hp Hsub Hcl.
  destruct (flat_conj_parts (mkConj false es)) as [O1 R1]. destruct (flat_conj_parts (mkConj false es')) as [O2 R2].
  cbn [c_rec c_exprs] in O1, R1, O2, R2.
  constructor.
  - exact Hb.
  - exact Hs.
  - unfold flat_conj; cbn [n_scal c_rec c_exprs]. rewrite Hsc. apply seq_refl.
  - unfold flat_conj; cbn [n_closers c_rec c_exprs andb app]. rewrite Hcl. intros l; reflexivity.
  - unfold ofields. rewrite O1, O2. cbn [flat_map gp_fields]. rewrite !app_nil_r. exact Ho.
  - unfold opats. rewrite O1, O2. cbn [flat_map gp_pats]. rewrite !app_nil_r. exact Hp.
  - rewrite R1, R2. cbn [app]. rewrite Hsub. apply pseq_refl.
Qed.

Lemma embed_free_app a b : embed_free (a ++ b) = embed_free a && embed_free b.
Proof. unfold embed_free. apply forallb_app. Qed.

Lemma plain_merged es : forallb plain_lit es = true -> embed_free (flat_map decls_of es) = true.
Proof.
  induction es as [|e es IH]; [reflexivity|]. intros H. cbn [forallb] in H. apply andb_true_iff in H as [He Hr].
  cbn [flat_map]. rewrite embed_free_app, (IH Hr). destruct e; try discriminate. cbn [decls_of plain_lit] in *. rewrite He. reflexivity.
Qed.

Lemma fields_of_flat_map es : fields_of (flat_map decls_of es) = flat_map F_own es.
Proof. unfold fields_of, F_own. rewrite flat_map_flat_map. reflexivity. Qed.

Lemma pats_of_flat_map es : pats_of (flat_map decls_of es) = flat_map F_pat es.
Proof. unfold pats_of, F_pat. rewrite flat_map_flat_map. reflexivity. Qed.

Lemma plain_is_plain es : forallb plain_lit es = true -> filter is_plain es = es /\ filter (fun e => negb (is_plain e)) es = [].
Proof.
  induction es as [|e es IH]; [auto|]. intros H. cbn [forallb] in H. apply andb_true_iff in H as [He Hr].
  destruct (IH Hr) as [A B]. destruct e; try discriminate. cbn [filter is_plain negb]. rewrite A, B. auto.
Qed.

Lemma plain_no_def es : forallb plain_lit es = true -> existsb reaches_def es = false /\ existsb reaches_close es = false.
Proof.
  induction es as [|e es IH]; [auto|]. intros H. cbn [forallb] in H. apply andb_true_iff in H as [He Hr].
  destruct (IH Hr) as [A B]. destruct e; try discriminate. cbn [plain_lit] in He. cbn [existsb].
  rewrite A, B, (reaches_def_embed_free ds He). split; [reflexivity|]. rewrite orb_false_r.
  cbn [reaches_close]. clear -He. induction ds as [|[h e] ds IH]; [reflexivity|].
  cbn [embed_free forallb fst] in He. apply andb_true_iff in He as [Hh Hr]. destruct h; try discriminate; apply IH; exact Hr.
Qed.

(* a simple literal without field or "..." contributes nothing *)
Lemma simple_empty e :
  plain_lit e = true -> is_complex e = false -> existsb is_field_or_ellipsis (decls_of e) = false ->
  F_own e = [] /\ F_pat e = [].
Proof.
  destruct e; try discriminate. cbn [plain_lit decls_of]. unfold is_complex, F_own, F_pat. cbn [decls_of].
  intros He Hc Hf. induction ds as [|[h e] ds IH]; [auto|].
  cbn [embed_free forallb fst] in He. apply andb_true_iff in He as [Hh Hr].
  cbn [existsb fst] in Hc, Hf. apply orb_false_iff in Hc as [Hc1 Hc2]. apply orb_false_iff in Hf as [Hf1 Hf2].
  destruct h; cbn in Hh, Hc1, Hf1; discriminate.
Qed.

Section ImplSound.
  Variable labs : list label.
  Variable atoms : list atom.

  (* on conjunct lists of plain struct literals the definition-mode printer (root level) is sound *)
  Theorem impl_def_plain_sound fuel es cs :
    es <> [] -> forallb plain_lit es = true ->
    evalNode labs atoms fuel (mkConj false [impl_def_root es] :: cs) = evalNode labs atoms fuel (mkConj false es :: cs).
  Proof.
    intros Hne Hp. unfold impl_def_root. destruct (plain_no_def es Hp) as [Hd Hc]. rewrite Hd.
    apply eval_head_neq.
    (* and_all ps as one expression is the list ps *)
    assert (AA : forall ps, flat_exprs false [and_all ps] = flat_exprs false ps).
    { intros ps. rewrite flat_exprs_cons. cbn [flat_exprs fold_right]. rewrite flat_app_empty_r. apply flatten_and_all. }
    assert (G : forall ps, Laws.neq (flat_conj (mkConj false ps)) (flat_conj (mkConj false es)) ->
                           Laws.neq (flat_conj (mkConj false [and_all ps])) (flat_conj (mkConj false es))).
    { intros ps H. rewrite (flat_conj_false_eq [and_all ps] ps (AA ps)). exact H. }
    apply G. unfold impl_parts. destruct (plain_is_plain es Hp) as [P K]. rewrite P, K, Hc. cbn [andb app].
    destruct es as [|e0 es0]; [congruence|]. cbn [null]. set (es := e0 :: es0) in *.
    assert (M : Laws.neq (flat_conj (mkConj false [EStruct (flat_map decls_of es)])) (flat_conj (mkConj false es))).
    { apply flat_conj_false_neq; rewrite (flat_exprs_plain false es Hp), flat_exprs_cons;
        cbn [flat_exprs fold_right]; rewrite flat_app_empty_r, (flatten_embed_free false al_empty _ (plain_merged es Hp)),
        fields_of_flat_map, pats_of_flat_map; try reflexivity; apply seq_refl. }
    destruct (existsb is_field_or_ellipsis (flat_map decls_of (filter (fun e => negb (is_complex e)) es))) eqn:Ef; [exact M|].
    set (embeds := map snd (filter is_embed_decl (flat_map decls_of (filter (fun e => negb (is_complex e)) es))) ++ filter is_complex es).
    destruct embeds as [|x [|y r]] eqn:Ee; try exact M.
    (* exactly one embedded thing: it is the one complex literal; every other literal is empty *)
    assert (E1 : map snd (filter is_embed_decl (flat_map decls_of (filter (fun e => negb (is_complex e)) es))) = []).
    { assert (Z : forall l, forallb plain_lit l = true -> filter is_embed_decl (flat_map decls_of l) = []).
      { intros l Hl. pose proof (plain_merged l Hl) as Em. unfold embed_free in Em.
        induction (flat_map decls_of l) as [|d ds IH]; [reflexivity|]. cbn [forallb] in Em. apply andb_true_iff in Em as [A B].
        cbn [filter]. unfold is_embed_decl at 1. destruct (fst d); try discriminate; apply IH, B. }
      rewrite Z; [reflexivity|]. apply forallb_forall. intros e He. apply filter_In in He as [He _].
      rewrite forallb_forall in Hp. apply Hp, He. }
    unfold embeds in Ee. rewrite E1 in Ee. cbn [app] in Ee.
    assert (Hx : In x es /\ is_complex x = true) by (apply filter_In; rewrite Ee; left; reflexivity).
    destruct Hx as [Hx Hxc].
    assert (Others : forall e, In e es -> e <> x \/ True -> is_complex e = true -> In e [x]).
    { intros e He _ Hc'. rewrite <- Ee. apply filter_In. auto. }
    assert (Simple : forall e, In e es -> is_complex e = false -> F_own e = [] /\ F_pat e = []).
    { intros e He Hs. rewrite forallb_forall in Hp. apply simple_empty; auto.
      apply not_true_is_false. intros T. apply existsb_exists in T as (d & Hd' & Td).
      assert (X : existsb is_field_or_ellipsis (flat_map decls_of (filter (fun e => negb (is_complex e)) es)) = true).
      { apply existsb_exists. exists d. split; auto. apply in_flat_map. exists e. split; auto.
        apply filter_In. rewrite Hs. auto. }
      congruence. }
    assert (Px : plain_lit x = true) by (rewrite forallb_forall in Hp; apply Hp, Hx).
    apply flat_conj_false_neq; rewrite (flat_exprs_plain false es Hp), (flat_exprs_plain false [x]); cbn [forallb]; rewrite ?Px; try reflexivity.
    - cbn [f_own flat_map]. rewrite app_nil_r. intros y. rewrite in_flat_map. split.
      + intros Hy. exists x. auto.
      + intros (e & He & Hy). destruct (is_complex e) eqn:Hce.
        * destruct (Others e He (or_intror I) Hce) as [<-|[]]. exact Hy.
        * destruct (Simple e He Hce) as [A _]. rewrite A in Hy. destruct Hy.
    - cbn [f_ownp flat_map]. rewrite app_nil_r. intros y. rewrite in_flat_map. split.
      + intros Hy. exists x. auto.
      + intros (e & He & Hy). destruct (is_complex e) eqn:Hce.
        * destruct (Others e He (or_intror I) Hce) as [<-|[]]. exact Hy.
        * destruct (Simple e He Hce) as [_ B]. rewrite B in Hy. destruct Hy.
  Qed.
End ImplSound.

(* ---- refutation on closed values ------------------------------------------------------------ *)
Definition w_labs := [LReg 0; LReg 1; LReg 2; LReg 3; LReg 4; LHid 0; LDef 0]%N.
Definition w_atoms := [AInt 0; AInt 1; AStr 0].

(* F10:  x: close({a: 1, b?: int})   x: {a: int} *)
Definition w_close : list conj :=
  [mkConj false [EClose (EStruct [(HField (LReg 0) FRegular, EScalar (SAtom (AInt 1)));
                                  (HField (LReg 1) FOptional, EScalar (SKind KInt))])];
   mkConj false [EStruct [(HField (LReg 0) FRegular, EScalar (SKind KInt))]]].

(* F11:  #D0: {a?: int, ...}   x: #D0   x: {c?: {b: 1}} *)
Definition w_def : list conj :=
  [mkConj false [ERefDef (EStruct [(HField (LReg 0) FOptional, EScalar (SKind KInt)); (HEllipsis, ETop)])];
   mkConj false [EStruct [(HField (LReg 3) FOptional, EStruct [(HField (LReg 1) FRegular, EScalar (SAtom (AInt 1)))])]]].

(* the printed form is close({a: 1, b?: int}) & close({a: int}): b is no longer admitted *)
Theorem impl_def_refuted_close :
  exists cs, evalNode w_labs w_atoms 10 (impl_def cs) <> evalNode w_labs w_atoms 10 cs.
Proof. exists w_close. vm_compute. discriminate. Qed.

(* the printed form is _#def: {a?: int, ...} & {c?: {b: 1}}: the struct under c becomes closed *)
Theorem impl_def_refuted_def :
  exists cs, evalNode w_labs w_atoms 10 (impl_def cs) <> evalNode w_labs w_atoms 10 cs.
Proof. exists w_def. vm_compute. discriminate. Qed.

(* what exactly changes: in the original b can be added to the close()d value and a can be added
   below c; in the printed form neither *)
Example w_close_observable :
  (match evalNode w_labs w_atoms 10 w_close with RStruct fs o => nth 1 (map fst fs) PAbsent = POptional /\ nth 1 o false = true | _ => False end) /\
  (match evalNode w_labs w_atoms 10 (impl_def w_close) with RStruct fs o => nth 1 o true = false | _ => False end).
Proof. vm_compute. auto. Qed.

Example w_def_observable :
  (match evalNode w_labs w_atoms 10 w_def with
   | RStruct fs _ => match nth 3 (map snd fs) RBot with RStruct _ o => nth 0 o false = true | _ => False end | _ => False end) /\
  (match evalNode w_labs w_atoms 10 (impl_def w_def) with
   | RStruct fs _ => match nth 3 (map snd fs) RBot with RStruct _ o => nth 0 o true = false | _ => False end | _ => False end).
Proof. vm_compute. auto. Qed.

(* non-vacuity of impl_def_plain_sound: two plain declarations are merged into one literal *)
Example w_plain_merge :
  impl_def_root [EStruct [(HField (LReg 0) FRegular, EScalar (SKind KInt))];
                 EStruct [(HField (LReg 0) FRegular, EScalar (SAtom (AInt 1))); (HPattern [1]%N, EScalar (SKind KStr))]] =
  EStruct [(HField (LReg 0) FRegular, EScalar (SKind KInt)); (HField (LReg 0) FRegular, EScalar (SAtom (AInt 1)));
           (HPattern [1]%N, EScalar (SKind KStr))].
Proof. reflexivity. Qed.
