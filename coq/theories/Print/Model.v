(* C07 - value-level printing of CoreCUE values.

   [nf]         normal form tree of an evaluated value: a scalar node is the list of the
                scalar constraints that hold (printed in canonical shape: the atom alone when
                the value is concrete, else the duplicate-free constraint list); a struct node
                lists its declared fields (label, regular/required/optional, value), its
                pattern constraints (scalar valued) and its closers (allow-sets);
   [normalize]  computes the normal form of a node from its flattened conjunct groups (it
                reuses Core.Eval's flatten / children / presence / allowed);
   [print_nf]   writes a normal form as a CoreCUE expression the way a value-level exporter
                does (internal/core/export/value.go structComposite for the fields: label,
                constraint token, value; scalars as in exporter.value: atom, basic type, bound,
                conjunction), plus what value.go does NOT write and a faithful value printer
                must: pattern constraints and one close({...}) conjunct per closer;
   [denote]     the result tree a normal form stands for, read off the tree directly;
   [project_*]  what the option profiles of Value.Syntax drop (cue/types.go Value.Syntax ->
                export.Profile): Final()/Concrete(true) -> export.Vertex = regular and required
                fields with regular labels only, no optional fields, no hidden fields, no
                definitions, no patterns, no closedness; All()/default -> everything;
   [range_rewrite] internal/core/export/bounds.go boundSimplifier (add/expr) on integer bounds.

   No proofs in this file. *)
From Verif Require Import Core.Syntax Core.Eval.
From Coq Require Import List Bool ZArith NArith.
Import ListNotations.

(* ---- normal forms ------------------------------------------------------------------ *)
Inductive nf :=
| NBot                                     (* an error value (printed _|_) *)
| NFuel                                    (* [normalize] ran out of fuel *)
| NOut                                     (* outside the printable fragment (struct-valued pattern) *)
| NScal (cs : list sconstr)
| NStruct (fs : list (label * fkind * nf))
          (ps : list (list N * list sconstr))
          (cl : list allowset).

Definition label_eq_dec (a b : label) : {a = b} + {a <> b}.
Proof. decide equality; apply N.eq_dec. Defined.

Definition sconstr_eq_dec (a b : sconstr) : {a = b} + {a <> b}.
Proof.
  decide equality; try apply Z.eq_dec.
  - decide equality; try apply Z.eq_dec; try apply N.eq_dec; apply Bool.bool_dec.
  - decide equality.
Defined.

(* ---- scalars -------------------------------------------------------------------------- *)
Definition pure_scalar : expr -> bool :=
  fix go e := match e with
              | ETop | EScalar _ => true
              | EAnd a b => go a && go b
              | _ => false
              end.

Fixpoint scal_of (e : expr) : list sconstr :=
  match e with
  | EScalar c => [c]
  | EAnd a b => scal_of a ++ scal_of b
  | _ => []
  end.

Definition first_atom (cs : list sconstr) : option atom :=
  (fix go cs := match cs with
                | [] => None
                | SAtom a :: _ => Some a
                | _ :: r => go r
                end) cs.

(* canonical shape of a (non-bottom) scalar: the atom alone, else the duplicate-free list *)
Definition canon_scal (cs : list sconstr) : list sconstr :=
  match first_atom cs with
  | Some a => [SAtom a]
  | None => nodup sconstr_eq_dec cs
  end.

Definition and_all (es : list expr) : expr :=
  (fix go es := match es with
                | [] => ETop
                | [e] => e
                | e :: r => EAnd e (go r)
                end) es.

Definition print_raw (cs : list sconstr) : expr := and_all (map EScalar cs).
Definition print_scal (cs : list sconstr) : expr := print_raw (canon_scal cs).

(* the result of a scalar node holding the constraints cs (Core.Eval.evalFlat, last branch) *)
Definition sres (atoms : list atom) (cs : list sconstr) : res :=
  if scalar_bottom cs then RBot
  else RVal (map (fun k => forallb (sc_kind_ok k) cs) all_kinds)
            (map (fun a => forallb (ssat a) cs) atoms)
            (map (fun a => existsb (is_atom_c a) cs) atoms).

(* ---- printing --------------------------------------------------------------------------- *)
(* a closer is written as one more conjunct: close({["l"]: _, [pattern]: _, ...}) - it allows
   exactly what the allow-set allows and declares no field *)
Definition closer_decls (a : allowset) : list (dhead * expr) :=
  flat_map (fun l => match l with LReg s => [(HPattern [s], ETop)] | _ => [] end) (al_labels a) ++
  map (fun p => (HPattern p, ETop)) (al_pats a) ++
  (if al_open a then [(HEllipsis, ETop)] else []).

Definition print_closer (a : allowset) : expr := EClose (EStruct (closer_decls a)).

Fixpoint print_nf (r : nf) : expr :=
  match r with
  | NBot | NFuel | NOut => EBot
  | NScal cs => print_scal cs
  | NStruct fs ps cl =>
    and_all (EStruct (map (fun f => match f with (l, k, v) => (HField l k, print_nf v) end) fs ++
                      map (fun q => (HPattern (fst q), print_raw (snd q))) ps)
             :: map print_closer cl)
  end.

(* ---- what a normal form denotes ------------------------------------------------------------ *)
Definition pres_of (k : fkind) : fpres :=
  match k with FRegular => PRegular | FRequired => PRequired | FOptional => POptional end.

Definition fk_of_pres (p : fpres) : fkind :=
  match p with PRegular => FRegular | PRequired => FRequired | _ => FOptional end.

Definition assoc_find {A} (l : label) (fs : list (label * A)) : option A :=
  (fix go fs := match fs with
                | [] => None
                | (l', x) :: r => if label_eqb l' l then Some x else go r
                end) fs.

(* the constraints the patterns ps put on label l *)
Definition pat_constraints (ps : list (list N * list sconstr)) (l : label) : list sconstr :=
  flat_map (fun q => if pat_matches (fst q) l then snd q else []) ps.

Section Denote.
  Variable labs : list label.
  Variable atoms : list atom.

  Definition struct_res (rs : list (label * (fkind * res))) (ps : list (list N * list sconstr))
             (cl : list allowset) : res :=
    RStruct (map (fun l => match assoc_find l rs with
                           | None => (PAbsent, RVal [] [] [])
                           | Some (k, r) => (pres_of k, if allowed cl l then r else RBot)
                           end) labs)
            (map (fun l => allowed cl l &&
                           negb (res_err_aux (match assoc_find l rs with
                                              | Some (_, r) => r
                                              | None => sres atoms (pat_constraints ps l)
                                              end))) labs).

  Fixpoint denote (r : nf) : res :=
    match r with
    | NBot | NOut => RBot
    | NFuel => RFuel
    | NScal cs => sres atoms cs
    | NStruct fs ps cl =>
      struct_res (map (fun f => match f with (l, k, v) => (l, (k, denote v)) end) fs) ps cl
    end.

  (* the same with the evaluator's fuel discipline (used to state the round trip for every fuel) *)
  Fixpoint denoteF (fuel : nat) (r : nf) : res :=
    match fuel with
    | O => RFuel
    | S f =>
      match r with
      | NBot | NOut => RBot
      | NFuel => RFuel
      | NScal cs => sres atoms cs
      | NStruct fs ps cl =>
        RStruct (map (fun l => match assoc_find l (map (fun f => match f with (l, k, v) => (l, (k, v)) end) fs) with
                               | None => (PAbsent, RVal [] [] [])
                               | Some (k, v) => (pres_of k, if allowed cl l then denoteF f v else RBot)
                               end) labs)
                (map (fun l => allowed cl l &&
                               negb (res_err_aux
                                       (match assoc_find l (map (fun f => match f with (l, k, v) => (l, (k, v)) end) fs) with
                                        | Some (_, v) => denoteF f v
                                        | None => match f with O => RFuel | S _ => sres atoms (pat_constraints ps l) end
                                        end))) labs)
      end
    end.
End Denote.

Fixpoint depth (r : nf) : nat :=
  match r with
  | NStruct fs _ _ => S (fold_right (fun f acc => match f with (_, _, v) => Nat.max (depth v) acc end) O fs)
  | _ => O
  end.

(* ---- well-formed normal forms ---------------------------------------------------------------- *)
Definition inclb (a b : list sconstr) : bool :=
  forallb (fun x => existsb (fun y => if sconstr_eq_dec x y then true else false) b) a.

Definition nodup_labels (ls : list label) : bool :=
  (fix go ls := match ls with
                | [] => true
                | l :: r => negb (existsb (label_eqb l) r) && go r
                end) ls.

(* the value of a declared field already carries what the matching patterns demand *)
Definition absorbs (v : nf) (pcs : list sconstr) : bool :=
  match v with
  | NBot => true
  | NScal cs => inclb pcs cs
  | NStruct _ _ _ => null pcs
  | _ => false
  end.

Fixpoint wfb (r : nf) : bool :=
  match r with
  | NBot => true
  | NFuel | NOut => false
  | NScal cs => negb (scalar_bottom cs)
  | NStruct fs ps cl =>
    nodup_labels (map (fun f => fst (fst f)) fs) &&
    forallb (fun f => match f with (l, k, v) => wfb v && absorbs v (pat_constraints ps l) end) fs
  end.

(* no fuel / out-of-fragment marker anywhere *)
Fixpoint nf_ok (r : nf) : bool :=
  match r with
  | NFuel | NOut => false
  | NStruct fs _ _ => forallb (fun f => match f with (_, _, v) => nf_ok v end) fs
  | _ => true
  end.

(* ---- normalisation ---------------------------------------------------------------------------- *)
Definition all_fields (fl : nflat) := flat_map gp_fields (n_parts fl).
Definition all_pats (fl : nflat) := flat_map gp_pats (n_parts fl).
Definition decl_labels (fl : nflat) : list label :=
  nodup label_eq_dec (map (fun f => fst (fst f)) (all_fields fl)).

Fixpoint normalize (fuel : nat) (fl : nflat) : nf :=
  match fuel with
  | O => NFuel
  | S f =>
    if n_bot fl then NBot
    else if n_struct fl && negb (null (n_scal fl)) then NBot
    else if n_struct fl then
      if forallb (fun q => pure_scalar (snd q)) (all_pats fl) then
        NStruct (map (fun l => (l, fk_of_pres (presence fl l),
                                if allowed (n_closers fl) l then normalize f (flat_all (children fl l)) else NBot))
                     (decl_labels fl))
                (map (fun q => (fst q, scal_of (snd q))) (all_pats fl))
                (n_closers fl)
      else NOut
    else if scalar_bottom (n_scal fl) then NBot
    else NScal (n_scal fl)
  end.

Definition normalize_conjs (fuel : nat) (cs : list conj) : nf := normalize fuel (flat_all cs).

(* ---- option profiles --------------------------------------------------------------------------- *)
Inductive profile := PFinal | PConcrete | PAll.

Definition shown_value_mode (l : label) (k : fkind) : bool :=
  match l, k with
  | LReg _, FRegular | LReg _, FRequired => true
  | _, _ => false
  end.

(* export.Vertex (value.go structComposite with ShowOptional/ShowDefinitions/ShowHidden off) *)
Fixpoint project_value (r : nf) : nf :=
  match r with
  | NStruct fs ps cl =>
    NStruct (flat_map (fun f => match f with
                                | (l, k, v) => if shown_value_mode l k
                                               then [(l, k, if allowed cl l then project_value v else NBot)]
                                               else []
                                end) fs) [] []
  | _ => r
  end.

(* every shown position holds an atom and no required field is left (what `cue export` and
   Validate(Concrete) demand before printing) *)
Fixpoint nf_concrete (r : nf) : bool :=
  match r with
  | NScal cs => negb (scalar_bottom cs) && match first_atom cs with Some _ => true | None => false end
  | NStruct fs _ _ =>
    forallb (fun f => match f with
                      | (_, FRegular, v) => nf_concrete v
                      | (_, FRequired, _) => false
                      | _ => true
                      end) fs
  | _ => false
  end.

Definition project (p : profile) (r : nf) : option nf :=
  match p with
  | PAll => Some r
  | PFinal => Some (project_value r)
  | PConcrete => let r' := project_value r in if nf_concrete r' then Some r' else None
  end.

(* the same projection on result trees (positional over the label universe) *)
Section ProjectRes.
  Variable labs : list label.

  Definition shown_res (l : label) (p : fpres) : bool :=
    match l, p with
    | LReg _, PRegular | LReg _, PRequired => true
    | _, _ => false
    end.

  Fixpoint project_res (r : res) : res :=
    match r with
    | RStruct fs _ =>
      RStruct ((fix go (ls : list label) (fs : list (fpres * res)) {struct fs} : list (fpres * res) :=
                  match fs, ls with
                  | (p, r') :: fs', l :: ls' =>
                    (if shown_res l p then (p, project_res r') else (PAbsent, RVal [] [] [])) :: go ls' fs'
                  | _, _ => []
                  end) labs fs)
              ((fix go (ls : list label) (fs : list (fpres * res)) {struct fs} : list bool :=
                  match fs, ls with
                  | (p, r') :: fs', l :: ls' =>
                    (if shown_res l p then negb (res_err_aux (project_res r')) else true) :: go ls' fs'
                  | _, _ => []
                  end) labs fs)
    | _ => r
    end.
End ProjectRes.

(* ---- bounds.go: boundSimplifier ------------------------------------------------------------------ *)
(* what is written for a scalar conjunction: predeclared int/uint, or a constraint *)
Inductive ptok := PInt | PUint | PRange (lo hi : Z) | PC (c : sconstr).

Definition psat (a : atom) (t : ptok) : bool :=
  match t with
  | PInt => ssat a (SKind KInt)
  | PUint => ssat a (SKind KInt) && ssat a (SGe 0)
  | PRange lo hi => ssat a (SKind KInt) && ssat a (SGe lo) && ssat a (SLe hi)   (* int8, uint16, ... *)
  | PC c => ssat a c
  end.

Record bsimp := mkBS {
  bs_int : bool;
  bs_min : option (bool * Z);    (* true: >=, false: > *)
  bs_max : option (bool * Z) }.  (* true: <=, false: < *)

Definition bs_init := mkBS false None None.

(* boundSimplifier.add: returns the new state and whether the value was used.
   Z.compare m n plays minNum.X.Cmp(&n.X). *)
Definition bs_add (s : bsimp) (c : sconstr) : bsimp * bool :=
  match c with
  | SKind KInt => (mkBS true (bs_min s) (bs_max s), true)
  | SGt n =>
    (match bs_min s with
     | Some (_, m) => if negb (Z.gtb m n) then mkBS (bs_int s) (Some (false, n)) (bs_max s) else s   (* Cmp != 1 *)
     | None => mkBS (bs_int s) (Some (false, n)) (bs_max s)
     end, true)
  | SGe n =>
    (match bs_min s with
     | Some (_, m) => if Z.ltb m n then mkBS (bs_int s) (Some (true, n)) (bs_max s) else s            (* Cmp == -1 *)
     | None => mkBS (bs_int s) (Some (true, n)) (bs_max s)
     end, true)
  | SLt n =>
    (match bs_max s with
     | Some (_, m) => if negb (Z.ltb m n) then mkBS (bs_int s) (bs_min s) (Some (false, n)) else s    (* Cmp != -1 *)
     | None => mkBS (bs_int s) (bs_min s) (Some (false, n))
     end, true)
  | SLe n =>
    (match bs_max s with
     | Some (_, m) => if Z.gtb m n then mkBS (bs_int s) (bs_min s) (Some (true, n)) else s            (* Cmp == 1 *)
     | None => mkBS (bs_int s) (bs_min s) (Some (true, n))
     end, true)
  | _ => (s, false)
  end.

Definition bs_fold (cs : list sconstr) : bsimp * list sconstr :=
  fold_left (fun acc c => let '(s, rest) := acc in
                          let '(s', used) := bs_add s c in
                          (s', if used then rest else rest ++ [c])) cs (bs_init, []).

(* slices.SortStableFunc(a, cmpLeafNodes) on values without source positions: basic types
   (typeOrder 1) move in front of bounds (typeOrder 20), otherwise the order is kept *)
Definition is_kind_c (c : sconstr) : bool := match c with SKind _ => true | _ => false end.
Definition sort_kinds (cs : list sconstr) : list sconstr :=
  filter is_kind_c cs ++ filter (fun c => negb (is_kind_c c)) cs.

Definition min_tok (m : bool * Z) : ptok := PC (if fst m then SGe (snd m) else SGt (snd m)).
Definition max_tok (m : bool * Z) : ptok := PC (if fst m then SLe (snd m) else SLt (snd m)).

(* adt.MatchBuiltinRange (internal/core/adt/builtinrange.go), consulted first by exporter.value:
   exactly {int, >=lo, <=hi} in any order is a sized integer type, exactly {int, >=0} is uint *)
Definition int_builtin_ranges : list (Z * Z) :=
  [(-128, 127); (-32768, 32767); (-2147483648, 2147483647);
   (-9223372036854775808, 9223372036854775807);
   (-170141183460469231731687303715884105728, 170141183460469231731687303715884105727);
   (0, 255); (0, 65535); (0, 4294967295); (0, 18446744073709551615);
   (0, 340282366920938463463374607431768211455)]%Z.

Record mbr := mkMB { mb_int : bool; mb_lo : option Z; mb_hi : option Z }.

Definition mb_step (st : option mbr) (c : sconstr) : option mbr :=
  match st with
  | None => None
  | Some s =>
    match c with
    | SKind KInt => if mb_int s then None else Some (mkMB true (mb_lo s) (mb_hi s))
    | SGe n => match mb_lo s with Some _ => None | None => Some (mkMB (mb_int s) (Some n) (mb_hi s)) end
    | SLe n => match mb_hi s with Some _ => None | None => Some (mkMB (mb_int s) (mb_lo s) (Some n)) end
    | _ => None
    end
  end.

Definition match_builtin_range (cs : list sconstr) : option ptok :=
  match fold_left mb_step cs (Some (mkMB false None None)) with
  | Some (mkMB true (Some lo) None) => if Z.eqb lo 0 then Some PUint else None
  | Some (mkMB true (Some lo) (Some hi)) =>
    if existsb (fun r => Z.eqb (fst r) lo && Z.eqb (snd r) hi) int_builtin_ranges then Some (PRange lo hi) else None
  | _ => None   (* without int only the float ranges are consulted; no integer pair matches them *)
  end.

(* exporter.value, case *adt.Conjunction with Simplify: MatchBuiltinRange, then b.expr(), falling
   back to all values when there is no (min, max) pair *)
Definition range_rewrite (cs : list sconstr) : list ptok :=
  match match_builtin_range cs with Some t => [t] | None =>
  let '(s, rest) := bs_fold cs in
  match bs_min s, bs_max s with
  | Some mn, Some mx =>
    let head :=
        if bs_int s then
          if Z.ltb (snd mn) 0 then [PInt; min_tok mn]
          else if Z.eqb (snd mn) 0 && fst mn then [PUint]       (* uint & >=0: the minimum is dropped *)
          else [PUint; min_tok mn]
        else [min_tok mn] in
    head ++ [max_tok mx] ++ map PC (sort_kinds rest)
  | _, _ => map PC (sort_kinds cs)
  end end.
