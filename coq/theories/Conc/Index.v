(* C19 - the global label index of internal/core/runtime/index.go as a state
   machine at lock-section granularity.

     var labelMap = map[string]int{}          -> lmap   (association list, newest binding first)
     var labels   = make([]string, 0, 1000)   -> labels (index = position)
     var mutex sync.RWMutex                   -> sections below are atomic

     func getKey(s string) int64 {
       mutex.RLock(); p, ok := labelMap[s]; mutex.RUnlock()      -- section A
       if ok { return p }
       mutex.Lock(); defer mutex.Unlock()                          -- section B
       p, ok = labelMap[s]; if ok { return p }                     --   the re-check
       p = len(labels); labels = append(labels, s); labelMap[s] = p
       return p }

     func (x *index) IndexToString(i int64) string { RLock; s := labels[i]; RUnlock }

   Any number of threads (thread ids are natural numbers, every thread exists from
   the start and is idle); a schedule is any list of labels; a label that is not
   enabled makes [run] return None.  The variant [recheck = false] drops the
   re-check of section B.  No proofs in this file. *)
From Coq Require Import List Arith Bool.
Import ListNotations.

Section Index.
  Variable K : Type.
  Variable K_eq_dec : forall a b : K, {a = b} + {a <> b}.

  Record tbl := { lmap : list (K * nat); labels : list K }.

  Definition empty_tbl : tbl := {| lmap := []; labels := [] |}.

  (* labelMap[s] *)
  Fixpoint assoc (m : list (K * nat)) (s : K) : option nat :=
    match m with
    | [] => None
    | (k, p) :: r => if K_eq_dec k s then Some p else assoc r s
    end.

  (* p = len(labels); labels = append(labels, s); labelMap[s] = p *)
  Definition append_key (b : tbl) (s : K) : tbl * nat :=
    let p := length (labels b) in
    ({| lmap := (s, p) :: lmap b; labels := labels b ++ [s] |}, p).

  (* getKey run alone (both sections back to back) *)
  Definition get_key (b : tbl) (s : K) : tbl * nat :=
    match assoc (lmap b) s with
    | Some p => (b, p)
    | None => append_key b s
    end.

  (* IndexToString: labels[i]; None = the Go code panics (index out of range) *)
  Definition index_to_string (b : tbl) (i : nat) : option K := nth_error (labels b) i.

  (* a table built by sequential calls, e.g. the package init: getKey("_") *)
  Fixpoint seq_keys (b : tbl) (ss : list K) : tbl * list nat :=
    match ss with
    | [] => (b, [])
    | s :: r => let (b1, p) := get_key b s in let (b2, ps) := seq_keys b1 r in (b2, p :: ps)
    end.

  Inductive pc := Idle | WantLock (s : K).

  Record state := {
    tb : tbl;
    pcs : nat -> pc;
    logs : nat -> list (K * nat)     (* per thread, chronological: (argument, returned index) *)
  }.

  Definition upd {A} (f : nat -> A) (t : nat) (a : A) : nat -> A :=
    fun u => if Nat.eqb u t then a else f u.

  Definition ret (st : state) (b : tbl) (t : nat) (s : K) (p : nat) : state :=
    {| tb := b; pcs := upd (pcs st) t Idle; logs := upd (logs st) t (logs st t ++ [(s, p)]) |}.

  Inductive label := CallA (t : nat) (s : K) | SecB (t : nat).

  Definition step (recheck : bool) (st : state) (l : label) : option state :=
    match l with
    | CallA t s =>
      match pcs st t with
      | Idle =>
        match assoc (lmap (tb st)) s with
        | Some p => Some (ret st (tb st) t s p)
        | None => Some {| tb := tb st; pcs := upd (pcs st) t (WantLock s); logs := logs st |}
        end
      | WantLock _ => None
      end
    | SecB t =>
      match pcs st t with
      | WantLock s =>
        match (if recheck then assoc (lmap (tb st)) s else None) with
        | Some p => Some (ret st (tb st) t s p)
        | None => let (b', p) := append_key (tb st) s in Some (ret st b' t s p)
        end
      | Idle => None
      end
    end.

  Fixpoint run (recheck : bool) (st : state) (ls : list label) : option state :=
    match ls with
    | [] => Some st
    | l :: r => match step recheck st l with Some st' => run recheck st' r | None => None end
    end.

  Definition init (b0 : tbl) : state := {| tb := b0; pcs := fun _ => Idle; logs := fun _ => [] |}.

  Definition reachable (recheck : bool) (b0 : tbl) (st : state) : Prop :=
    exists ls, run recheck (init b0) ls = Some st.

  (* well-formed table: no duplicates, labelMap is the inverse of labels *)
  Definition wf_tbl (b : tbl) : Prop :=
    NoDup (labels b) /\
    (forall k p, In (k, p) (lmap b) -> nth_error (labels b) p = Some k) /\
    (forall p k, nth_error (labels b) p = Some k -> assoc (lmap b) k = Some p).

  (* ---- executable acceptance check of an observed history --------------- *)

  Definition keyb (a b : K) : bool := if K_eq_dec a b then true else false.

  Fixpoint memb (s : K) (l : list K) : bool :=
    match l with [] => false | k :: r => keyb k s || memb s r end.

  Fixpoint nodupb (l : list K) : bool :=
    match l with [] => true | k :: r => negb (memb k r) && nodupb r end.

  Fixpoint prefixb (a b : list K) : bool :=
    match a, b with
    | [], _ => true
    | x :: a', y :: b' => keyb x y && prefixb a' b'
    | _ :: _, [] => false
    end.

  Definition entry_ok (final : list K) (e : K * nat) : bool :=
    match nth_error final (snd e) with Some k => keyb k (fst e) | None => false end.

  (* scanning one thread's log in program order: the first entry whose index
     is >= p has index p.  The thread that appended slot p satisfies this: all
     its earlier calls returned indices below the length of the table. *)
  Fixpoint appender_ok (p : nat) (L : list (K * nat)) : bool :=
    match L with
    | [] => false
    | (_, q) :: r => if Nat.eqb q p then true else if Nat.ltb q p then appender_ok p r else false
    end.

  (* every binding of the map dump points at its key; every label is bound *)
  Definition map_ok (final : list K) (m : list (K * nat)) : bool :=
    forallb (entry_ok final) m && forallb (fun k => match assoc m k with Some _ => true | None => false end) final.

  Definition check_history (init_labels : list K) (ls : list (list (K * nat)))
             (final : list K) (final_map : list (K * nat)) : bool :=
    nodupb final
    && prefixb init_labels final
    && forallb (forallb (entry_ok final)) ls
    && forallb (fun p => existsb (appender_ok p) ls)
               (seq (length init_labels) (length final - length init_labels))
    && map_ok final final_map.

End Index.

Arguments Idle {K}.
Arguments WantLock {K}.
Arguments CallA {K}.
Arguments SecB {K}.
