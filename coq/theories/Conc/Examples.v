(* C19 - non-vacuity examples for the Conc theorems (K := nat, by computation). *)
From Verif Require Import Conc.Index Conc.IndexProofs Conc.Once Conc.OnceProofs.
From Coq Require Import List Arith Bool Lia.
Import ListNotations.

Notation ed := Nat.eq_dec.

(* the table after the package init: getKey("_") on the empty table; "_" is key 0 here *)
Definition tbl_init : tbl nat := fst (seq_keys nat ed (empty_tbl nat) [0]).

Example tbl_init_wf : wf_tbl nat ed tbl_init /\ labels nat tbl_init = [0] /\ lmap nat tbl_init = [(0, 0)].
Proof.
  split; [|split; reflexivity].
  eapply (seq_keys_wf nat ed [0] (empty_tbl nat)); [apply wf_empty | reflexivity].
Qed.

(* three threads, two new strings, overlapping calls: threads 0 and 1 both miss
   string 5 in section A; thread 1 appends it, thread 0's re-check finds it *)
Definition sched3 : list (Index.label nat) :=
  [CallA 0 5; CallA 1 5; CallA 2 6; SecB 1; SecB 0; SecB 2; CallA 2 5; CallA 0 6; CallA 1 0].

Example index_three_threads :
  exists st, Index.run nat ed true (Index.init nat tbl_init) sched3 = Some st /\
    Index.reachable nat ed true tbl_init st /\
    labels nat (tb nat st) = [0; 5; 6] /\
    logs nat st 0 = [(5, 1); (6, 2)] /\ logs nat st 1 = [(5, 1); (0, 0)] /\ logs nat st 2 = [(6, 2); (5, 1)] /\
    check_history nat ed (labels nat tbl_init) (map (logs nat st) (seq 0 3))
                  (labels nat (tb nat st)) (lmap nat (tb nat st)) = true.
Proof.
  eexists. split; [vm_compute; reflexivity|]. split; [exists sched3; vm_compute; reflexivity|].
  vm_compute. repeat split; reflexivity.
Qed.

(* the history check is not trivially true: it rejects the duplicate-entry
   history of the variant without the re-check, a history with two indices for
   one string, a reused index, and a slot nobody can have appended *)
Example check_history_rejects :
  check_history nat ed [0] [[(5, 1)]; [(5, 2)]] [0; 5; 5] [(5, 2); (0, 0)] = false /\
  check_history nat ed [0] [[(5, 1)]; [(5, 2)]] [0; 5; 6] [(6, 2); (5, 1); (0, 0)] = false /\
  check_history nat ed [0] [[(5, 1)]; [(6, 1)]] [0; 5] [(5, 1); (0, 0)] = false /\
  check_history nat ed [0] [[(6, 2); (5, 1)]] [0; 5; 6] [(6, 2); (5, 1); (0, 0)] = false /\
  check_history nat ed [0] [[(5, 1); (6, 2)]] [0; 5; 6] [(6, 2); (5, 1); (0, 0)] = true.
Proof. vm_compute. repeat split; reflexivity. Qed.

Example check_once_rejects :
  check_once nat ed [(7, 1); (7, 0)] [(7, Some 0)] = false /\
  check_once nat ed [(7, 0)] [(7, Some 0); (7, Some 1)] = false /\
  check_once nat ed [(7, 0)] [(7, None)] = false /\
  check_once nat ed [] [(7, Some 0)] = false /\
  check_once nat ed [(8, 3); (7, 0)] [(7, Some 0); (8, Some 3); (7, Some 0)] = true.
Proof. vm_compute. repeat split; reflexivity. Qed.

(* two keys, three callers, interleaved: f runs once per key *)
Example once_two_keys :
  exists st, Once.run nat ed true (Once.init nat)
      [Call 0 7; Call 1 7; Call 2 8; Step 0; Step 2; Step 1; Step 2; Step 0; Step 1; Step 2; Step 0; Step 2; Step 0;
       Step 2; Step 0; Step 2; Step 0; Step 2; Step 0; Step 2; Step 0; Step 2; Step 0; Step 1; Step 1; Step 1; Step 1] = Some st /\
    E nat ed st 7 = [0] /\ E nat ed st 8 = [2] /\
    returns_of nat st = [(7, Some 0); (7, Some 0); (8, Some 2)] /\
    (forall t, t < 3 -> Once.pcs nat st t = Once.Idle).
Proof.
  eexists. split; [vm_compute; reflexivity|]. vm_compute. repeat split; auto.
  intros t H. do 3 (destruct t as [|t]; [reflexivity|]). lia.
Qed.
